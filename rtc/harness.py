"""Bounded stand-in harness: run-time contracts on the REAL functions over an
enumerated / seeded input space.  Labelled `bounded` in evidence, never counted as proved.
"""
import itertools
import os
import random
import sys
import time
import traceback
import warnings

import numpy as np

REPO = os.environ.get('VERIF_REPO', '/repo')


def real():
    src = os.path.join(os.environ.get('VERIF_REPO', '/repo'), 'src')
    if src not in sys.path:
        sys.path.insert(0, src)
    warnings.simplefilter('ignore')
    import PseudoNetCDF
    return PseudoNetCDF


class Run:
    def __init__(self, pid, tier, seed, budget_s=None):
        self.pid, self.tier, self.seed = pid, tier, seed
        self.rng = random.Random(seed * 7919 + 13)
        self.nprng = np.random.default_rng(seed + 1)
        self.evals = 0
        self.distinct = set()
        self.viol = {}
        self.samples = []
        self.t0 = time.time()
        self.budget = budget_s or (100 if tier == 'quick' else 600)
        self.rules = []
        self.bounds = []
        self.skipped = 0

    def out_of_time(self):
        return time.time() - self.t0 > self.budget

    def case(self, case_id, sig, thunk, nontrivial=True):
        """thunk() returns None when the contract holds, else a description"""
        self.evals += 1
        if nontrivial:
            self.distinct.add((case_id, repr(sig)))
        if len(self.samples) < 8 and self.rng.random() < 0.2 or not self.samples:
            self.samples.append(dict(case=case_id, input=_short(sig)))
        try:
            with warnings.catch_warnings():
                warnings.simplefilter('ignore')
                r = thunk()
        except AssertionError as e:
            r = 'assertion: %s' % e
        except Exception as e:
            r = 'unexpected %s: %s' % (type(e).__name__, str(e)[:200])
            r += ' @ ' + ' <- '.join('%s:%d' % (os.path.basename(f.filename), f.lineno) for f in traceback.extract_tb(e.__traceback__)[-3:])
        if r is not None and case_id not in self.viol:
            self.viol[case_id] = dict(case=case_id, what='%s: %s' % (case_id, r), input=_short(sig))
        return r is None

    def result(self, rule, bound):
        return dict(evaluations=self.evals, distinct_nontrivial=len(self.distinct), rule=rule, bound=bound,
                    samples=self.samples[:8], violations=list(self.viol.values()), wall_s=round(time.time() - self.t0, 1),
                    exhaustive=False)


def _short(x):
    s = repr(x)
    return s if len(s) < 400 else s[:400] + '...'


# ---------------------------------------------------------------------------
# file generators (the "C01 space")
# ---------------------------------------------------------------------------

DIMPOOL = [('t', 3, True), ('z', 2, False), ('y', 3, False), ('x', 4, False)]


def make_file(P, spec, rng=None):
    """spec: dict(dims=[(name, len, unlimited)], vars=[(name, dtype, dims, masked, coord)])"""
    f = P.PseudoNetCDFFile()
    for nm, ln, unl in spec['dims']:
        d = f.createDimension(nm, ln)
        if unl:
            d.setunlimited(True)
    rs = np.random.default_rng(spec.get('seed', 0))
    for nm, dt, dims, masked, coord in spec['vars']:
        shape = tuple(dict((d[0], d[1]) for d in spec['dims'])[d] for d in dims)
        if coord:
            vals = (np.arange(shape[0]) * 1.5 + 1).astype(dt)
        else:
            vals = (rs.random(shape) * 100 - 30).astype(dt) if np.dtype(dt).kind == 'f' else rs.integers(-50, 50, shape).astype(dt)
        if masked:
            m = rs.random(shape) < 0.3
            vals = np.ma.masked_where(m, vals)
            v = f.createVariable(nm, dt, dims, fill_value=-999, values=vals)
        else:
            v = f.createVariable(nm, dt, dims, values=vals)
        v.units = 'unit_' + nm
        v.long_name = nm.ljust(16)
    f.title = 'generated'
    f.history = 'h'
    f.scalar_attr = 3.5
    return f


def file_specs(tier='quick', seed=0):
    """a small family of file shapes covering the C01 space"""
    specs = []
    D = DIMPOOL
    specs.append(dict(dims=D, seed=1, vars=[('t', 'f8', ('t',), False, True), ('x', 'f8', ('x',), False, True),
                                            ('a', 'f4', ('t', 'z', 'y', 'x'), False, False),
                                            ('b', 'f8', ('t', 'x'), True, False),
                                            ('c', 'i4', ('y', 'x'), False, False)]))
    specs.append(dict(dims=D[1:], seed=2, vars=[('z', 'f4', ('z',), False, True), ('y', 'f8', ('y',), False, True),
                                                ('m', 'f4', ('z', 'y', 'x'), True, False),
                                                ('s', 'f8', (), False, False),
                                                ('v', 'f8', ('x',), False, False)]))
    specs.append(dict(dims=[('t', 1, True), ('y', 1, False), ('x', 2, False)], seed=3,
                      vars=[('x', 'f8', ('x',), False, True), ('p', 'f4', ('t', 'y', 'x'), False, False),
                            ('q', 'f4', ('x', 'y'), True, False)]))
    if tier != 'quick':
        specs.append(dict(dims=[('t', 4, True), ('z', 3, False), ('y', 2, False), ('x', 3, False)], seed=4,
                          vars=[('t', 'f8', ('t',), False, True), ('z', 'f8', ('z',), False, True),
                                ('w', 'f8', ('t', 'z'), True, False), ('u', 'i2', ('z', 'y', 'x'), False, False),
                                ('r', 'f4', ('x', 'z'), False, False)]))
    return specs


# ---------------------------------------------------------------------------
# oracles
# ---------------------------------------------------------------------------

def wf(f, unlimited_expected=None):
    """well-formedness of a netCDF-like file; returns None or a description"""
    for vk, v in f.variables.items():
        dims = tuple(v.dimensions)
        shape = tuple(np.shape(v))
        if len(dims) != len(shape):
            return 'variable %s: %d dimension names for rank %d' % (vk, len(dims), len(shape))
        for d, n in zip(dims, shape):
            if d not in f.dimensions:
                return 'variable %s: dimension %s not in file' % (vk, d)
            if len(f.dimensions[d]) != n:
                return 'variable %s: axis %s has %d elements, dimension length is %d' % (vk, d, n, len(f.dimensions[d]))
        for k in v.ncattrs():
            try:
                v.getncattr(k) if hasattr(v, 'getncattr') else getattr(v, k)
            except Exception as e:
                return 'variable %s: attribute %s listed but not retrievable (%s)' % (vk, k, e)
    for k in f.ncattrs():
        try:
            getattr(f, k)
        except Exception as e:
            return 'global attribute %s listed but not retrievable (%s)' % (k, e)
    la = list(f.ncattrs())
    if len(la) != len(set(la)):
        return 'duplicate global attribute names %r' % la
    if unlimited_expected:
        for d, u in unlimited_expected.items():
            if d in f.dimensions and bool(f.dimensions[d].isunlimited()) != bool(u):
                return 'dimension %s unlimited flag is %s, expected %s' % (d, f.dimensions[d].isunlimited(), u)
    return None


def snapshot(f):
    """deep snapshot of everything observable"""
    s = dict(dims=[(k, len(d), bool(d.isunlimited())) for k, d in f.dimensions.items()],
             attrs=[(k, _cp(getattr(f, k))) for k in f.ncattrs()], vars=[])
    for vk, v in f.variables.items():
        a = v[...]
        data = np.ma.getdata(a).copy() if np.ndim(a) or True else a
        mask = np.ma.getmaskarray(a).copy()
        s['vars'].append((vk, tuple(v.dimensions), str(np.asarray(data).dtype), data, mask,
                          [(k, _cp(getattr(v, k))) for k in v.ncattrs()]))
    return s


def _cp(x):
    if isinstance(x, np.ndarray):
        return x.copy()
    return x


def same_snapshot(a, b, dim_order=True):
    if not dim_order:
        a = dict(a, dims=sorted(a['dims']))
        b = dict(b, dims=sorted(b['dims']))
    if a['dims'] != b['dims']:
        return 'dimensions changed: %r -> %r' % (a['dims'], b['dims'])
    if [k for k, _ in a['attrs']] != [k for k, _ in b['attrs']]:
        return 'global attribute names changed: %r -> %r' % ([k for k, _ in a['attrs']], [k for k, _ in b['attrs']])
    for (k, x), (_, y) in zip(a['attrs'], b['attrs']):
        if not _eqv(x, y):
            return 'global attribute %s changed: %r -> %r' % (k, x, y)
    if [v[0] for v in a['vars']] != [v[0] for v in b['vars']]:
        return 'variable names changed'
    for va, vb in zip(a['vars'], b['vars']):
        if va[1] != vb[1]:
            return 'variable %s dimensions changed' % va[0]
        if va[2] != vb[2]:
            return 'variable %s dtype changed %s -> %s' % (va[0], va[2], vb[2])
        if va[4].shape != vb[4].shape or not np.array_equal(va[4], vb[4]):
            return 'variable %s mask changed' % va[0]
        if np.asarray(va[3]).dtype.kind in 'SUO':
            da, db = np.asarray(va[3]), np.asarray(vb[3])
        else:
            da = np.where(va[4], 0, va[3])
            db = np.where(vb[4], 0, vb[3])
        if not np.array_equal(da, db, equal_nan=True) if da.dtype.kind == 'f' else not np.array_equal(da, db):
            return 'variable %s data changed' % va[0]
        if [k for k, _ in va[5]] != [k for k, _ in vb[5]]:
            return 'variable %s attribute names changed' % va[0]
        for (k, x), (_, y) in zip(va[5], vb[5]):
            if not _eqv(x, y):
                return 'variable %s attribute %s changed: %r -> %r' % (va[0], k, x, y)
    return None


def _eqv(x, y):
    try:
        if isinstance(x, np.ndarray) or isinstance(y, np.ndarray):
            return np.array_equal(np.asarray(x), np.asarray(y))
        r = x == y
        if isinstance(r, np.ndarray):
            return bool(r.all())
        return bool(r) or (x != x and y != y)
    except Exception:
        return False


def arr_equal(a, b, exact=True, rtol=1e-6):
    """masked-aware equality: same shape, same mask, same unmasked values"""
    a = np.ma.asarray(a)
    b = np.ma.asarray(b)
    if a.shape != b.shape:
        return 'shape %r vs %r' % (a.shape, b.shape)
    ma, mb = np.ma.getmaskarray(a), np.ma.getmaskarray(b)
    if not np.array_equal(ma, mb):
        return 'masks differ (%d vs %d masked)' % (ma.sum(), mb.sum())
    da = np.where(ma, 0, np.ma.getdata(a))
    db = np.where(mb, 0, np.ma.getdata(b))
    if exact:
        ok = np.array_equal(da, db, equal_nan=True) if da.dtype.kind == 'f' or db.dtype.kind == 'f' else np.array_equal(da, db)
    else:
        ok = np.allclose(da, db, rtol=rtol, atol=0, equal_nan=True)
    if not ok:
        bad = np.argwhere(~np.isclose(da.astype('d'), db.astype('d'), rtol=0 if exact else rtol, atol=0, equal_nan=True))
        i = tuple(bad[0]) if len(bad) else ()
        return 'values differ at %r: %r vs %r' % (i, da[i] if len(bad) else None, db[i] if len(bad) else None)
    return None
