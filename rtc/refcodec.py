"""Reference encoders/decoders for the binary formats, written from the format
descriptions (CAMx User's Guide ch. "Fortran binary input/output files", GEOS-Chem
bpch description, ARL packed format) -- shares no code with the library."""
import struct
import numpy as np


def frec(payload):
    """one Fortran unformatted record, big endian 4-byte markers"""
    return struct.pack('>i', len(payload)) + payload + struct.pack('>i', len(payload))


def int_text(s, n):
    """CAMx stores text one character per 4-byte word (character followed by 3 blanks)"""
    s = s.ljust(n)[:n]
    return b''.join(c.encode('ascii') + b'   ' for c in s)


def uamiv_encode(name, note, species, nx, ny, nz, steps, data, itzon=0, xorg=0., yorg=0., delx=1000., dely=1000.,
                 plon=0., plat=0., iutm=0, iproj=0, istag=0, tlat1=0., tlat2=0.):
    """steps: list of (bdate, btime, edate, etime) with dates YYJJJ and times in hours;
    data[t][s][k] -> (ny, nx) float32 array"""
    nspec = len(species)
    out = []
    bd, bt = steps[0][0], steps[0][1]
    ed, et = steps[-1][2], steps[-1][3]
    out.append(frec(int_text(name, 10) + int_text(note, 60) + struct.pack('>iiifif', itzon, nspec, bd, bt, ed, et)))
    out.append(frec(struct.pack('>ffiffffiiiiifff', plon, plat, iutm, xorg, yorg, delx, dely, nx, ny, nz,
                                iproj, istag, tlat1, tlat2, 0.)))
    out.append(frec(struct.pack('>iiii', 1, 1, nx, ny)))
    out.append(frec(b''.join(int_text(s, 10) for s in species)))
    for ti, (d1, t1, d2, t2) in enumerate(steps):
        out.append(frec(struct.pack('>ifif', d1, t1, d2, t2)))
        for si, s in enumerate(species):
            for k in range(nz):
                a = np.asarray(data[ti][si][k], dtype='>f4').reshape(ny, nx)
                out.append(frec(struct.pack('>i', 1) + int_text(s, 10) + a.tobytes()))
    return b''.join(out)


def walk_records(b):
    """gap-free sequence of records: yields (offset, payload); raises on mismatch"""
    off = 0
    n = len(b)
    while off < n:
        if off + 4 > n:
            raise ValueError('truncated marker at %d' % off)
        (m,) = struct.unpack('>i', b[off:off + 4])
        if m < 0 or off + 8 + m > n:
            raise ValueError('record at %d overruns file (marker %d)' % (off, m))
        (e,) = struct.unpack('>i', b[off + 4 + m:off + 8 + m])
        if e != m:
            raise ValueError('marker mismatch at %d: %d vs %d' % (off, m, e))
        yield off, b[off + 4:off + 4 + m]
        off += 8 + m


def text_int(b):
    return b[::4].decode('ascii')


def uamiv_decode(b):
    recs = [p for _, p in walk_records(b)]
    h = recs[0]
    name, note = text_int(h[:40]), text_int(h[40:280])
    itzon, nspec, bd, bt, ed, et = struct.unpack('>iiifif', h[280:])
    g = struct.unpack('>ffiffffiiiiifff', recs[1])
    nx, ny, nz = g[7:10]
    nzd = max(nz, 1)
    c = struct.unpack('>iiii', recs[2])
    assert (c[2], c[3]) == (nx, ny)
    species = [text_int(recs[3][40 * i:40 * i + 40]) for i in range(nspec)]
    assert len(recs[3]) == 40 * nspec
    rest = recs[4:]
    per = 1 + nspec * nzd
    assert len(rest) % per == 0, 'partial time step'
    steps, data = [], []
    for ti in range(len(rest) // per):
        blk = rest[ti * per:(ti + 1) * per]
        steps.append(struct.unpack('>ifif', blk[0]))
        d = np.zeros((nspec, nzd, ny, nx), '>f4')
        for si in range(nspec):
            for k in range(nzd):
                p = blk[1 + si * nzd + k]
                assert len(p) == 44 + 4 * nx * ny
                assert text_int(p[4:44]) == species[si]
                d[si, k] = np.frombuffer(p[44:], '>f4').reshape(ny, nx)
        data.append(d)
    return dict(name=name, note=note, itzon=itzon, nspec=nspec, bdate=bd, btime=bt, edate=ed, etime=et,
                grid=g, nx=nx, ny=ny, nz=nz, species=species, steps=steps, data=np.array(data))
