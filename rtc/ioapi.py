"""IOAPI files for the bounded harnesses of C10 (metadata coherence) and C11 (geo/time referencing)."""
import numpy as np
from . import harness as H


def make_ioapi(P, nt=4, nz=3, ny=5, nx=6, sdate=2019364, stime=220000, tstep=10000, nvars=2, boundary=False, seed=0, names=None):
    from PseudoNetCDF.cmaqfiles import ioapi_base
    rs = np.random.default_rng(seed)
    arrs = {}
    for i in range(nvars if names is None else len(names)):
        key = 'V%d' % i if names is None else names[i]
        if boundary:
            arrs[key] = rs.random((nt, nz, 2 * (nx + ny) + 4)).astype('f')
        else:
            arrs[key] = rs.random((nt, nz, ny, nx)).astype('f')
    vg = np.linspace(1, 0, nz + 1).astype('f') ** 2
    attrs = dict(SDATE=sdate, STIME=stime, TSTEP=tstep, XORIG=-1000., YORIG=500., XCELL=12000., YCELL=4000., VGLVLS=vg, VGTOP=5000.,
                 NCOLS=nx, NROWS=ny, NLAYS=nz, GDTYP=2, P_ALP=33., P_BET=45., P_GAM=-97., XCENT=-97., YCENT=40., FTYPE=2 if boundary else 1,
                 NTHIK=1, VGTYP=7)
    f = ioapi_base.from_arrays(attrs={'units': 'ppm'}, fileattrs=attrs, **arrs)
    return f


def ioapi_wf(f, need_levels=True):
    """C10 invariant; returns None or a description"""
    varlist = getattr(f, 'VAR-LIST', None)
    if varlist is None:
        return 'no VAR-LIST attribute'
    if len(varlist) % 16:
        return 'VAR-LIST length %d is not a multiple of 16' % len(varlist)
    names = [varlist[i:i + 16].strip() for i in range(0, len(varlist), 16)]
    if f.NVARS != len(names):
        return 'NVARS=%r but VAR-LIST lists %d variables %r' % (f.NVARS, len(names), names)
    if 'VAR' not in f.dimensions or len(f.dimensions['VAR']) != len(names):
        return 'VAR dimension %s != number of listed variables %d' % (len(f.dimensions['VAR']) if 'VAR' in f.dimensions else None, len(names))
    if 'TFLAG' not in f.variables:
        return 'no TFLAG'
    tf = f.variables['TFLAG']
    if tf.shape[1] != len(names):
        return 'TFLAG second axis %d != number of listed variables %d' % (tf.shape[1], len(names))
    for n in names:
        if n not in f.variables:
            return 'listed variable %r does not exist' % n
        d = tuple(f.variables[n].dimensions)
        if d not in (('TSTEP', 'LAY', 'ROW', 'COL'), ('TSTEP', 'LAY', 'PERIM')):
            return 'listed variable %r has dimensions %r' % (n, d)
    for a, d in (('NROWS', 'ROW'), ('NCOLS', 'COL'), ('NLAYS', 'LAY')):
        if d in f.dimensions and getattr(f, a) != len(f.dimensions[d]):
            return '%s=%r but dimension %s has length %d' % (a, getattr(f, a), d, len(f.dimensions[d]))
    if need_levels and 'LAY' in f.dimensions and np.size(f.VGLVLS) != len(f.dimensions['LAY']) + 1:
        return 'VGLVLS has %d entries for %d layers' % (np.size(f.VGLVLS), len(f.dimensions['LAY']))
    if tf.shape[0] > 0 and (int(f.SDATE), int(f.STIME)) != (int(tf[0, 0, 0]), int(tf[0, 0, 1])):
        return 'SDATE/STIME=(%r, %r) but TFLAG[0,0]=(%r, %r)' % (f.SDATE, f.STIME, int(tf[0, 0, 0]), int(tf[0, 0, 1]))
    if not f.dimensions['TSTEP'].isunlimited():
        return 'TSTEP dimension is not unlimited'
    tfa = np.asarray(tf[...])
    if tfa.ndim == 3 and tfa.shape[1] > 1 and not (tfa == tfa[:, :1, :]).all():
        v = int(np.argwhere((tfa != tfa[:, :1, :]).any(axis=(0, 2)))[0][0])
        return 'time flags differ between variable columns: column %d is %r, column 0 is %r' % (v, tfa[:2, v].tolist(), tfa[:2, 0].tolist())
    return None
