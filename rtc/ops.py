"""Catalogue of in-domain operations on PseudoNetCDF files used by the bounded
harnesses of C01 (well-formedness) and C05 (isolation).  Each entry:
   (name, applicable(f) -> bool, apply(P, f) -> new file)
Only argument choices unambiguously inside the documented domain are listed."""
import numpy as np


def has(*dims):
    return lambda f: all(d in f.dimensions for d in dims)


def hasvar(*vs):
    return lambda f: all(v in f.variables for v in vs)


def dl(f, d):
    return len(f.dimensions[d])


def first_dim(f):
    return list(f.dimensions)[0]


def last_dim(f):
    return list(f.dimensions)[-1]


def _datavars(f):
    return [k for k, v in f.variables.items() if k not in f.dimensions and v.dtype.kind in 'fi' and v.ndim > 0]


_OPS = [
    ('copy', lambda f: True, lambda P, f: f.copy()),
    ('copy(data=False)', lambda f: True, lambda P, f: f.copy(data=False)),
    ('copy(variables=False)', lambda f: True, lambda P, f: f.copy(variables=False)),
    ('slice(first=0)', lambda f: True, lambda P, f: f.sliceDimensions(**{first_dim(f): 0})),
    ('slice(last=-1)', lambda f: True, lambda P, f: f.sliceDimensions(**{last_dim(f): -1})),
    ('slice(last=slice(0,2))', lambda f: dl(f, last_dim(f)) >= 2, lambda P, f: f.sliceDimensions(**{last_dim(f): slice(0, 2)})),
    ('slice(last=slice(None,None,-1))', lambda f: True, lambda P, f: f.sliceDimensions(**{last_dim(f): slice(None, None, -1)})),
    ('slice(last=[0,0])', lambda f: True, lambda P, f: f.sliceDimensions(**{last_dim(f): [0, 0]})),
    ('slice(first=[0],last=[1])', lambda f: len(f.dimensions) >= 2 and dl(f, last_dim(f)) >= 2,
     lambda P, f: f.sliceDimensions(**{first_dim(f): [0], last_dim(f): [1]})),
    ('slice(first=0,last=[0,1])', lambda f: len(f.dimensions) >= 2 and dl(f, last_dim(f)) >= 2,
     lambda P, f: f.sliceDimensions(**{first_dim(f): 0, last_dim(f): [0, 1]})),
    # index arrays that are not 1-D (documented: "if the arrays are not 1D, newdims must have ndim names"), and a 0-d numpy index;
    # applied to files that have not been through a zipped selection before (a POINTS dimension next to N-D index arrays is a corner of
    # the library this catalogue does not claim to be in the documented domain)
    ('slice(first=2-D idx,last=2-D idx,newdims=J,I)', lambda f: len(f.dimensions) >= 2 and 'J' not in f.dimensions and 'I' not in f.dimensions and 'POINTS' not in f.dimensions,
     lambda P, f: f.sliceDimensions(newdims=('J', 'I'), **{first_dim(f): np.zeros((2, 3), 'i'), last_dim(f): np.array([[0, dl(f, last_dim(f)) - 1, 0]] * 2)})),
    ('slice(last=2-D idx,newdims=J,I)', lambda f: 'J' not in f.dimensions and 'I' not in f.dimensions and 'POINTS' not in f.dimensions,
     lambda P, f: f.sliceDimensions(newdims=('J', 'I'), **{last_dim(f): np.array([[0, dl(f, last_dim(f)) - 1], [0, 0]])})),
    ('slice(last=0-d numpy index)', lambda f: True, lambda P, f: f.sliceDimensions(**{last_dim(f): np.array(0)})),
    ('apply(last=mean)', lambda f: True, lambda P, f: f.applyAlongDimensions(**{last_dim(f): 'mean'})),
    ('apply(first=sum)', lambda f: True, lambda P, f: f.applyAlongDimensions(**{first_dim(f): 'sum'})),
    ('apply(first=max,last=min)', lambda f: len(f.dimensions) >= 2,
     lambda P, f: f.applyAlongDimensions(**{first_dim(f): 'max', last_dim(f): 'min'})),
    ('apply(last=x[::2])', lambda f: True, lambda P, f: f.applyAlongDimensions(**{last_dim(f): lambda x: x[::2]})),
    ('apply(last=diff)', lambda f: dl(f, last_dim(f)) >= 2, lambda P, f: f.applyAlongDimensions(**{last_dim(f): np.diff})),
    ('stack(self,first)', lambda f: True, lambda P, f: f.stack(f, first_dim(f))),
    ('stack([self,self],last)', lambda f: True, lambda P, f: f.stack([f, f], last_dim(f))),
    ('subset(first var)', lambda f: len(f.variables) >= 1, lambda P, f: f.subsetVariables([list(f.variables)[0]])),
    ('subset(exclude last var)', lambda f: len(f.variables) >= 2, lambda P, f: f.subsetVariables([list(f.variables)[-1]], exclude=True)),
    # the in-place forms, on a copy (the catalogue operations must leave their input alone)
    ('copy + subset(last var, inplace)', lambda f: len(f.variables) >= 2, lambda P, f: f.copy().subsetVariables([list(f.variables)[-1]], inplace=True)),
    ('copy + subset(exclude first var, inplace)', lambda f: len(f.variables) >= 3, lambda P, f: f.copy().subsetVariables([list(f.variables)[0]], exclude=True, inplace=True)),
    ('renameVariable(last->NEWV)', lambda f: len(f.variables) >= 1 and 'NEWV' not in f.variables,
     lambda P, f: f.renameVariable(list(f.variables)[-1], 'NEWV')),
    ('renameVariable(last->its own name)', lambda f: len(f.variables) >= 1,
     lambda P, f: f.renameVariable(list(f.variables)[-1], list(f.variables)[-1])),
    ('renameVariables(first->V0)', lambda f: len(f.variables) >= 1 and 'V0' not in f.variables and list(f.variables)[0] not in f.dimensions,
     lambda P, f: f.renameVariables(**{list(f.variables)[0]: 'V0'})),
    ('renameDimension(last->NEWD)', lambda f: 'NEWD' not in f.dimensions, lambda P, f: f.renameDimension(last_dim(f), 'NEWD')),
    ('renameDimensions(first->D0)', lambda f: 'D0' not in f.dimensions, lambda P, f: f.renameDimensions(**{first_dim(f): 'D0'})),
    ('insertDimension(e=2)', lambda f: 'e' not in f.dimensions, lambda P, f: f.insertDimension(e=2)),
    ('insertDimension(e=1,before=last)', lambda f: 'e' not in f.dimensions, lambda P, f: f.insertDimension(e=1, before=last_dim(f))),
    ('removeSingleton()', lambda f: True, lambda P, f: f.removeSingleton()),
    ('removeSingleton(first)', lambda f: dl(f, first_dim(f)) == 1, lambda P, f: f.removeSingleton(first_dim(f))),
    ('reorderDimensions(reverse all)', lambda f: len(f.dimensions) >= 2,
     lambda P, f: f.reorderDimensions(list(f.dimensions), list(f.dimensions)[::-1])),
    ('mask(greater=10)', lambda f: True, lambda P, f: f.mask(greater=10)),
    ('mask(less_equal=0)', lambda f: True, lambda P, f: f.mask(less_equal=0)),
    ('mask(where=first var>0)', lambda f: len(_datavars(f)) >= 1, lambda P, f: _maskwhere(f)),
    ('eval(new=v*2)', lambda f: len(_datavars(f)) >= 1, lambda P, f: f.eval('NEWE = %s * 2' % _datavars(f)[0])),
    ('eval(new=v+1,copyall)', lambda f: len(_datavars(f)) >= 1, lambda P, f: f.eval('NEWE = %s + 1' % _datavars(f)[0], copyall=True)),
    ('f+f', lambda f: _numeric(f), lambda P, f: f + f),
    ('f-f', lambda f: _numeric(f), lambda P, f: f - f),
    ('f*f', lambda f: _numeric(f), lambda P, f: f * f),
    ('f/f', lambda f: _numeric(f), lambda P, f: f / f),
    ('f>f', lambda f: _numeric(f), lambda P, f: f > f),
    ('interpDimension(last,midpoints)', lambda f: last_dim(f) in f.variables and dl(f, last_dim(f)) >= 2 and _numeric(f) and _mono(f),
     lambda P, f: _interp(f)),
    ('val2idx queries', lambda f: last_dim(f) in f.variables and _mono(f), lambda P, f: _queries(f)),
    ('dump/repr', lambda f: True, lambda P, f: _repr(f)),
]


def _numeric(f):
    return all(v.dtype.kind in 'fi' for v in f.variables.values())


def _mono(f):
    x = np.ma.filled(f.variables[last_dim(f)][...], 0).astype('d')
    return x.ndim == 1 and x.size >= 2 and ((np.diff(x) > 0).all() or (np.diff(x) < 0).all())


def _reorder(f):
    for v in f.variables.values():
        if v.ndim >= 2:
            old = list(v.dimensions[:2])
            return f.reorderDimensions(old, old[::-1])


def _maskwhere(f):
    k = _datavars(f)[0]
    v = f.variables[k]
    return f.mask(where=np.ma.filled(v[...] > 0, False), dims=v.dimensions)


def _interp(f):
    d = last_dim(f)
    x = np.ma.filled(f.variables[d][...], 0).astype('d')
    return f.interpDimension(d, (x[1:] + x[:-1]) / 2)


def _queries(f):
    d = last_dim(f)
    x = np.ma.filled(f.variables[d][...], 0).astype('d')
    f.val2idx(d, x, method='nearest')
    if len(x) >= 2:
        f.val2idx(d, x, method='bounds')
    return f


def _repr(f):
    repr(f)
    return f


def _guard(ok):
    return lambda f: len(f.dimensions) >= 1 and ok(f)


OPS = [(n, _guard(ok), ap) for n, ok, ap in _OPS]
