#!/usr/bin/env python
"""Driver:  ./check <Cxx> [--tier quick|thorough]   |  ./check replay <path>  |  ./check selftest [Cxx]

Exit codes: 0 property held on everything explored (known findings printed as
KNOWN-FINDING), 1 VIOLATION, 2 undecided (solver unknown / construct outside the
subset / spurious counter-model), 3 checker error.
"""
import argparse
import concurrent.futures as cf
import hashlib
import importlib
import json
import os
import re
import subprocess
import sys
import time
import traceback

VERIF = os.path.dirname(os.path.abspath(__file__))
sys.path.insert(0, VERIF)
REPO = os.environ.get('VERIF_REPO', '/repo')
os.environ.setdefault('VERIF_REPO', REPO)
os.environ['PYTHONDONTWRITEBYTECODE'] = '1'
sys.dont_write_bytecode = True
sys.path.insert(0, os.path.join(REPO, 'src'))

PROPS = ['C%02d' % i for i in range(1, 21)]
EVIDENCE = os.environ.get('VERIF_EVIDENCE_DIR') or os.path.join(VERIF, 'evidence')
REPLAYS = os.environ.get('VERIF_REPLAY_DIR') or os.path.join(VERIF, 'replays')
REPLAYS_REL = os.environ.get('VERIF_REPLAY_DIR') or 'replays'


def load_known():
    p = os.path.join(VERIF, 'known_findings.json')
    if not os.path.exists(p):
        return []
    with open(p) as f:
        return json.load(f).get('findings', [])


def safe(s):
    return re.sub(r'[^A-Za-z0-9_.\-]+', '_', s)[:150]


# ---------------------------------------------------------------------------
# workers
# ---------------------------------------------------------------------------

def _job_paths(args):
    modname, idx, tier = args
    os.environ['VERIF_TIER'] = tier
    try:
        from pyvc import verify as V
        m = importlib.import_module(modname)
        return V.enumerate_paths(m.CONTRACTS[idx])
    except Exception:
        return None


def _job_proof(args):
    modname, idx, tier, seed = args[:4]
    prefix, pidx = (args[4], args[5]) if len(args) > 4 else (None, 0)
    os.environ['VERIF_TIER'] = tier
    try:
        from pyvc import verify as V
        m = importlib.import_module(modname)
        c = m.CONTRACTS[idx]
        r = V.verify(c, only_prefix=prefix, path_index=pidx)
        d = r.to_dict()
        return d
    except Exception as e:
        return dict(target='%s[%d]' % (modname, idx), prop=None, name='%s[%d]' % (modname, idx),
                    obligations=[], paths=0, undecided=[], errors=['worker crash: %s\n%s' % (e, traceback.format_exc())],
                    trusted=[], inlined=[], havocked=[], dropped=[], callee_contracts=[], function=None,
                    violations=[], canary=None, covers=0, time=0.0, assumptions=[])


def _job_replay(args):
    """replay one refuted obligation on the real code: returns (holds, detail)"""
    modname, idx, conc = args
    try:
        m = importlib.import_module(modname)
        c = m.CONTRACTS[idx]
        r = c.replay(_unjson(conc))
        if r is None:
            return None
        ok, detail = r
        return bool(ok), _js(detail)
    except Exception as e:
        return ('error', '%s: %s' % (type(e).__name__, e))


def _js(x):
    from pyvc.verify import jsonable
    return jsonable(x)


def _unjson(x):
    """floats in stored models came from exact rationals; keep python numbers"""
    return x


def _job_bounded(args):
    modname, tier, seed = args
    os.environ['VERIF_TIER'] = tier
    try:
        m = importlib.import_module(modname)
        if not hasattr(m, 'bounded'):
            return None
        return m.bounded(tier, seed)
    except Exception as e:
        return dict(error='bounded harness crash: %s\n%s' % (e, traceback.format_exc()))


# ---------------------------------------------------------------------------

def run_property(pid, tier, seed, jobs=16, out=sys.stdout):
    t0 = time.time()
    os.environ['VERIF_TIER'] = tier
    modname = 'contracts.' + pid
    try:
        m = importlib.import_module(modname)
    except Exception as e:
        print('checker error: cannot import %s: %s' % (modname, e), file=out)
        traceback.print_exc()
        return 3
    contracts = getattr(m, 'CONTRACTS', [])
    known = [k for k in load_known() if k.get('property') == pid]
    results = []
    bounded = None
    with cf.ProcessPoolExecutor(max_workers=jobs) as ex:
        # VERIF_NO_BOUNDED=1: proof parts only (used to measure what the obligations alone detect; never registered in MANIFEST)
        bf = ex.submit(_job_bounded, (modname, tier, seed)) if hasattr(m, 'bounded') and not os.environ.get('VERIF_NO_BOUNDED') else None
        # contracts with slow obligations are split: one job per path (prefixes enumerated first)
        split = {i: ex.submit(_job_paths, (modname, i, tier)) for i, c in enumerate(contracts) if getattr(c, 'parallel_paths', False)}
        futs = []
        for i in range(len(contracts)):
            pre = split[i].result() if i in split else None
            if pre:
                futs.append((i, [ex.submit(_job_proof, (modname, i, tier, seed, p, k)) for k, p in enumerate(pre)]))
            else:
                futs.append((i, [ex.submit(_job_proof, (modname, i, tier, seed))]))
        for i, fl in futs:
            parts = [f.result() for f in fl]
            d = parts[0]
            for q in parts[1:]:      # merge the per-path results of one contract
                for k in ('obligations', 'undecided', 'errors', 'violations'):
                    d[k] = d[k] + q[k]
                for k in ('trusted', 'inlined', 'havocked', 'dropped', 'callee_contracts'):
                    d[k] = sorted(set(d[k]) | set(q[k]))
                d['paths'] += q['paths']
                d['covers'] += q['covers']
                d['time'] = max(d['time'], q['time'])
                if d['canary'] != 'sat':
                    d['canary'] = q['canary']
            results.append(d)
        # replays of refuted obligations
        for i, d in enumerate(results):
            for v in d['violations']:
                if v.get('model') is not None:
                    v['replay_result'] = ex.submit(_job_replay, (modname, i, v['model'])).result()
                else:
                    v['replay_result'] = None
        if bf is not None:
            bounded = bf.result()
    bounded_restart = None
    if bounded is not None and bounded.get('error'):
        # a crash of the bounded harness is an infrastructure failure, not a verdict: it is restarted ONCE in a fresh process
        # (thorough run #7: C05 crashed once under heavy load and never again); a second crash is reported (exit 3);
        # the first trace is kept in the evidence either way
        bounded_restart = bounded['error']
        print('NOTE bounded harness crashed, restarting it once in a fresh process:\n%s' % bounded_restart[-1500:], file=out)
        with cf.ProcessPoolExecutor(max_workers=1) as ex1:
            bounded = ex1.submit(_job_bounded, (modname, tier, seed)).result()

    # ---- classify ----------------------------------------------------------
    violations = []     # (id, replay path, suffix)
    known_hits = []
    undecided = []
    errors = []
    nobl = ndis = 0
    solver_time = 0.0
    backends = {}
    funcs = []
    trusted = set()
    assumptions = set()
    samples = []
    callee = set()
    spurious = []
    lemmas = 0
    for d in results:
        errors += d['errors']
        undecided += ['%s: %s' % (d['name'], u) for u in d['undecided']]
        trusted |= set(d['trusted'])
        callee |= set(d['callee_contracts'])
        for a in d.get('assumptions', []):
            assumptions.add(a)
        if d['function']:
            fn = dict(d['function'])
            fn.update(contract=d['name'], paths=d['paths'], covers=d['covers'], canary=d['canary'],
                      inlined=d['inlined'], havocked=d['havocked'], dropped=d['dropped'],
                      callee_contracts=d['callee_contracts'])
            funcs.append(fn)
        for o in d['obligations']:
            solver_time += o['time']
            backends[o['solver']] = backends.get(o['solver'], 0) + 1
            base = o['name'].split('@path')[0]
            if o['kind'] == 'lemma':
                lemmas += 1
                continue
            if o['status'] == 'unsat':
                nobl += 1
                ndis += 1
                if len(samples) < 12:
                    samples.append(dict(obligation=o['name'], kind=o['kind'], formula=o['formula'], solver=o['solver']))
            elif o['status'] == 'sat':
                kf = [k for k in known if k.get('status', 'known') == 'known' and k.get('obligation') == base]
                rr = None
                for v in d['violations']:
                    if v['name'] == o['name']:
                        rr = v
                if kf:
                    known_hits.append((kf[0], o, rr))
                    continue
                nobl += 1
                violations.append((d, o, rr))
    # bounded part
    b_viol = []
    if bounded is not None:
        if bounded.get('error'):
            errors.append(bounded['error'])
        for v in bounded.get('violations', []):
            kf = [k for k in known if k.get('status', 'known') == 'known' and k.get('case') == v.get('case')]
            if kf:
                known_hits.append((kf[0], None, v))
            else:
                b_viol.append(v)

    # ---- output ------------------------------------------------------------
    rc = 0
    os.makedirs(os.path.join(REPLAYS, pid), exist_ok=True)
    nviol = 0
    for d, o, rr in violations:
        rp = os.path.join(REPLAYS_REL, pid, safe(o['name']) + '.json')
        idx = [i for i, r in enumerate(results) if r is d][0]
        rep = rr.get('replay_result') if rr else None
        payload = dict(property=pid, kind='proof', obligation=o['name'], contract_module=modname, contract_index=idx,
                       formula=o['formula'], solver=o['solver'], solver_output=(rr or {}).get('smt_model'),
                       inputs=(rr or {}).get('model'), function=d['function'], replay_result=rep,
                       repo=REPO)
        with open(rp if os.path.isabs(rp) else os.path.join(VERIF, rp), 'w') as f:
            json.dump(payload, f, indent=1, default=str)
        if rep is None or (isinstance(rep, (list, tuple)) and rep[0] == 'error'):
            print('VIOLATION property=%s replay=%s no-failing-input-found' % (pid, rp), file=out)
            print('  obligation %s refuted by %s; no concrete replay (%s)' % (o['name'], o['solver'], rep), file=out)
            rc = max(rc, 1)
            nviol += 1
        elif rep[0] is False:
            print('VIOLATION property=%s replay=%s' % (pid, rp), file=out)
            print('  obligation %s refuted by %s; replayed on the real code: %s' % (o['name'], o['solver'], json.dumps(rep[1], default=str)[:300]), file=out)
            rc = max(rc, 1)
            nviol += 1
        else:
            spurious.append(o['name'])
            print('SPURIOUS obligation=%s: counter-model does not reproduce on the real code -> undecided' % o['name'], file=out)
    for v in b_viol:
        rp = os.path.join(REPLAYS_REL, pid, safe('bounded_' + str(v.get('case'))) + '.json')
        with open(rp if os.path.isabs(rp) else os.path.join(VERIF, rp), 'w') as f:
            json.dump(dict(property=pid, kind='bounded', contract_module=modname, **v), f, indent=1, default=str)
        print('VIOLATION property=%s replay=%s' % (pid, rp), file=out)
        print('  bounded run-time contract failed: %s' % str(v.get('what'))[:300], file=out)
        rc = max(rc, 1)
        nviol += 1
    seen_kf = set()
    for k, o, rr in known_hits:
        key = k.get('id') or k.get('obligation') or k.get('case')
        if key in seen_kf:
            continue
        seen_kf.add(key)
        print('KNOWN-FINDING: property=%s %s' % (pid, k.get('what')), file=out)
    stale = []
    for k in known:
        if k.get('status', 'known') != 'known':
            continue
        key = k.get('id') or k.get('obligation') or k.get('case')
        if key not in seen_kf:
            stale.append(key)
            print('note: known finding %s was not reproduced by this run (stale entry?)' % key, file=out)
    if spurious and rc == 0:
        rc = 2
    if undecided and rc == 0:
        rc = 2
        for u in undecided[:20]:
            print('UNDECIDED %s' % u, file=out)
    if errors:
        rc = 3 if rc != 1 else 1
        for e in errors[:10]:
            print('CHECKER-ERROR %s' % e, file=out)
    if not contracts and bounded is None:
        print('CHECKER-ERROR no contracts and no bounded harness for %s' % pid, file=out)
        rc = 3
    if contracts and nobl == 0 and rc == 0 and not known_hits:
        print('CHECKER-ERROR zero obligations generated', file=out)
        rc = 3

    # ---- evidence ----------------------------------------------------------
    meta = getattr(m, 'META', {})
    level = meta.get('level', 'proof' if contracts else 'exploration')
    cov = dict(
        obligations=nobl, discharged=ndis,
        checker_cmd='./check %s --tier %s' % (pid, tier),
        trusted_base=sorted(trusted) + sorted('callee contract (itself proved in this run): ' + c for c in callee),
        functions_under_contract=funcs,
        backends=backends, solver_time_s=round(solver_time, 3),
        samples=samples, lemmas=lemmas,
        vacuity=dict(canaries_sat=sum(1 for d in results if d['canary'] == 'sat'), contracts=len(results),
                     path_covers=sum(d['covers'] for d in results), paths=sum(d['paths'] for d in results)),
        undecided=undecided, spurious=spurious,
        known_findings=[dict(id=k.get('id') or k.get('obligation') or k.get('case'), what=k.get('what')) for k, _, _ in known_hits],
        explanation=meta.get('explanation', ''),
    )
    if bounded_restart:
        cov['bounded_harness_restarted_after_crash'] = bounded_restart[-3000:]
    if bounded is not None and bounded.get('error'):
        cov['bounded_harness_error'] = bounded['error'][-3000:]
    if bounded is not None and not bounded.get('error'):
        cov['bounded'] = {k: v for k, v in bounded.items() if k != 'violations'}
        cov['bounded']['label'] = 'bounded stand-in (run-time contracts on the real functions); never counted as proved'
        if level in ('exploration', 'other') or not contracts:
            cov['evaluations'] = bounded.get('evaluations', 0)
            cov['distinct_nontrivial'] = bounded.get('distinct_nontrivial', 0)
            cov['rule'] = bounded.get('rule', '')
            if not samples:
                cov['samples'] = bounded.get('samples', [])[:10]
            else:
                cov['samples'] = samples + [dict(bounded_case=s) for s in bounded.get('samples', [])[:5]]
    if tier == 'thorough' and not os.environ.get('VERIF_NO_MUTANTS') and REPO == '/repo':
        # mutation self-test of this property's checks (scratch copies; results are evidence, not a verdict)
        try:
            from tools import selftest
            mm = importlib.import_module('mutants.' + pid)
            env_keep = dict(os.environ)
            killed, survived = [], []
            with cf.ThreadPoolExecutor(max_workers=3) as tex:
                futs = [(mut, tex.submit(selftest.run_mutant, pid, mut, 'quick')) for mut in mm.MUTANTS]
                for mut, fu in futs:
                    r = fu.result()
                    exp = mut.get('expect', 1)
                    ok = r.get('exit') == exp or (exp == 0 and r.get('exit') == 2)
                    (killed if ok else survived).append(dict(id=mut['id'], expect=exp, got=r.get('exit', r.get('result'))))
            cov['mutants'] = dict(as_expected=killed, not_as_expected=survived)
            print('mutants: %d as expected, %d not' % (len(killed), len(survived)), file=out)
        except ImportError:
            cov['mutants'] = dict(note='no mutant list for this property')
    if tier == 'thorough' and contracts and not os.environ.get('VERIF_NO_MODELCHECK'):
        # differential test of the trusted numpy model against the installed numpy (tools/modelcheck.py): evidence about
        # the trusted base; a disagreement is an engine defect (exit 3), never a verdict about the repository
        try:
            r = subprocess.run([sys.executable, '-W', 'ignore', os.path.join(VERIF, 'tools', 'modelcheck.py'), str(seed)],
                               capture_output=True, text=True, timeout=600, env=dict(os.environ, VERIF_REPO=REPO))
            last = (r.stdout.strip().splitlines() or [''])[-1]
            cov['numpy_model_crosscheck'] = dict(result=last, exit=r.returncode,
                                                 disagreements=[l for l in r.stdout.splitlines() if l.startswith('DIFF')][:10])
            print(last, file=out)
            if r.returncode != 0:
                print('CHECKER-ERROR the numpy model disagrees with the installed numpy (tools/modelcheck.py)', file=out)
                rc = 3 if rc != 1 else 1
        except Exception as e:
            cov['numpy_model_crosscheck'] = dict(error=str(e)[:200])
    ev = dict(property_id=pid, tier=tier, seed=seed, level=level, coverage=cov,
              assumptions=sorted(assumptions | set(meta.get('assumptions', []))),
              wall_s=round(time.time() - t0, 2), violations=nviol)
    os.makedirs(EVIDENCE, exist_ok=True)
    with open(os.path.join(EVIDENCE, pid + '.json'), 'w') as f:
        json.dump(ev, f, indent=1, default=str)
    print('%s tier=%s: %d obligations, %d discharged, %d lemmas, %d contracts, known-findings=%d, violations=%d, '
          'undecided=%d, bounded=%s, %.1fs -> exit %d' % (
              pid, tier, nobl, ndis, lemmas, len(results), len(seen_kf), nviol, len(undecided),
              (bounded or {}).get('evaluations') if bounded else None, time.time() - t0, rc), file=out)
    return rc


def do_replay(path):
    with open(path if os.path.isabs(path) else os.path.join(VERIF, path)) as f:
        p = json.load(f)
    print('replay of %s (%s)' % (p.get('obligation') or p.get('case'), p.get('kind')))
    if p.get('kind') == 'proof':
        if p.get('inputs') is None:
            print('no concrete input: the obligation was refuted over ghost/abstract state')
            print('solver output:', p.get('solver_output'))
            return 1
        r = _job_replay((p['contract_module'], p['contract_index'], p['inputs']))
        print('inputs:', json.dumps(p['inputs'])[:600])
        print('result:', r)
        if r is None or r[0] == 'error':
            return 1
        return 1 if r[0] is False else 0
    m = importlib.import_module(p['contract_module'])
    ok, detail = m.bounded_replay(p)
    print('result:', ok, detail)
    return 0 if ok else 1


def main():
    ap = argparse.ArgumentParser()
    ap.add_argument('what')
    ap.add_argument('arg', nargs='?')
    ap.add_argument('--tier', default=os.environ.get('VERIF_TIER', 'quick'))
    ap.add_argument('--jobs', type=int, default=int(os.environ.get('VERIF_JOBS', '16')))
    a = ap.parse_args()
    seed = int(os.environ.get('VERIF_SEED', '0') or 0)
    if a.what == 'replay':
        sys.exit(do_replay(a.arg))
    if a.what == 'selftest':
        from tools import selftest
        sys.exit(selftest.main(a.arg, a.tier))
    if a.what == 'modelcheck':
        from tools import modelcheck
        sys.exit(modelcheck.main(int(a.arg or seed)))
    if a.what == 'all':
        rc = 0
        for p in PROPS:
            if os.path.exists(os.path.join(VERIF, 'contracts', p + '.py')):
                rc = max(rc, run_property(p, a.tier, seed, a.jobs))
        sys.exit(rc)
    if a.what not in PROPS:
        print('unknown property', a.what)
        sys.exit(3)
    sys.exit(run_property(a.what, a.tier, seed, a.jobs))


if __name__ == '__main__':
    main()
