#!/bin/sh
# every seeded defect, 4 at a time, with the verdict of the proof obligations alone next to the verdict of the complete check
cd "$(dirname "$0")/.."
ls seeded | xargs -P ${SEEDS_JOBS:-4} -I{} sh -c 'SEEDS_PROOF_ONLY=1 .venv/bin/python tools/seeds.py {} 2>/dev/null | tail -1'
