"""run the checks against the BEHAVIOUR-PRESERVING edits under /verif/benign/<id>/patch.diff
(written by sub-agents that saw only the property text): a check must stay at exit 0 -- exit 1 is a false alarm,
exit 2 (undecided) shows a brittle proof.  Scratch copy of /repo/src, VERIF_REPO pointing at it; removed afterwards.

usage: tools/benign.py [-j N] [id ...]
"""
import json, os, shutil, subprocess, sys, tempfile
from concurrent.futures import ThreadPoolExecutor
V = os.path.dirname(os.path.dirname(os.path.abspath(__file__)))


def run_one(bid, tier='quick'):
    bd = os.path.join(V, 'benign', bid)
    pid = bid[:3]
    td = tempfile.mkdtemp(prefix='verif_benign_')
    try:
        shutil.copytree('/repo/src', os.path.join(td, 'src'), ignore=shutil.ignore_patterns('__pycache__', '*.check'))
        r = subprocess.run(['patch', '-p1', '-s', '-i', os.path.join(bd, 'patch.diff')], cwd=td, capture_output=True, text=True)
        if r.returncode != 0:
            return dict(id=bid, result='patch does not apply: ' + (r.stdout + r.stderr)[:200])
        env = dict(os.environ, VERIF_REPO=td, VERIF_EVIDENCE_DIR=os.path.join(td, 'evidence'), VERIF_REPLAY_DIR=os.path.join(td, 'replays'))
        c = subprocess.run([os.path.join(V, 'check'), pid, '--tier', tier], capture_output=True, text=True, env=env, cwd=V)
        lines = c.stdout.splitlines()
        notes = [l.strip()[:300] for l in lines if l.startswith(('VIOLATION', 'SPURIOUS', 'UNDECIDED', '  obligation', '  bounded', 'ERROR'))][:4]
        return dict(id=bid, exit=c.returncode, summary=(lines or [''])[-1][:200], notes=notes)
    finally:
        shutil.rmtree(td, ignore_errors=True)


if __name__ == '__main__':
    args = sys.argv[1:]
    jobs = 3
    if args[:1] == ['-j']:
        jobs = int(args[1])
        args = args[2:]
    ids = args or sorted(os.listdir(os.path.join(V, 'benign')))
    bad = 0
    with ThreadPoolExecutor(jobs) as ex:
        for r in ex.map(run_one, ids):
            print(json.dumps(r))
            sys.stdout.flush()
            bad += 0 if r.get('exit') == 0 else 1
    print('benign: %d edits, %d not at exit 0' % (len(ids), bad))
    sys.exit(1 if bad else 0)
