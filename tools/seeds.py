"""run the checks against the seeded defects under /verif/seeded/<id>/patch.diff
(scratch copy of /repo/src, VERIF_REPO pointing at it; removed afterwards)"""
import json, os, shutil, subprocess, sys, tempfile
V = os.path.dirname(os.path.dirname(os.path.abspath(__file__)))


def run_seed(sid, tier='quick', props=None):
    sd = os.path.join(V, 'seeded', sid)
    meta = {}
    if os.path.exists(os.path.join(sd, 'meta.json')):
        meta = json.load(open(os.path.join(sd, 'meta.json')))
    pid = meta.get('property', sid[:3])
    td = tempfile.mkdtemp(prefix='verif_seed_')
    try:
        shutil.copytree('/repo/src', os.path.join(td, 'src'), ignore=shutil.ignore_patterns('__pycache__', '*.check'))
        r = subprocess.run(['patch', '-p1', '-s', '-i', os.path.join(sd, 'patch.diff')], cwd=td, capture_output=True, text=True)
        if r.returncode != 0:
            return dict(seed=sid, result='patch does not apply: ' + (r.stdout + r.stderr)[:200])
        out = {}
        for p in (props or [pid]):
            env = dict(os.environ, VERIF_REPO=td, VERIF_EVIDENCE_DIR=os.path.join(td, 'evidence'), VERIF_REPLAY_DIR=os.path.join(td, 'replays'))
            c = subprocess.run([os.path.join(V, 'check'), p, '--tier', tier], capture_output=True, text=True, env=env, cwd=V)
            lines = c.stdout.splitlines()
            first = [l for l in lines if l.startswith('  ')][:1]
            out[p] = dict(exit=c.returncode, violations=len([l for l in lines if l.startswith('VIOLATION')]), first=(first or [''])[0].strip()[:260])
            if os.environ.get('SEEDS_PROOF_ONLY'):
                # the same check with the bounded part switched off: what the proof obligations alone say
                c2 = subprocess.run([os.path.join(V, 'check'), p, '--tier', tier], capture_output=True, text=True, env=dict(env, VERIF_NO_BOUNDED='1'), cwd=V)
                f2 = [l for l in c2.stdout.splitlines() if l.startswith('  obligation')][:1]
                out[p]['proof_only'] = dict(exit=c2.returncode, first=(f2 or [''])[0].strip()[:200])
        # demo must fail on the patched copy and pass on /repo
        demo = os.path.join(sd, 'demo.py')
        d1 = subprocess.run(['/venv/bin/python', demo], env=dict(os.environ, PYTHONPATH=os.path.join(td, 'src'), PYTHONDONTWRITEBYTECODE='1'), capture_output=True, cwd=td)
        d0 = subprocess.run(['/venv/bin/python', demo], env=dict(os.environ, PYTHONPATH='/repo/src', PYTHONDONTWRITEBYTECODE='1'), capture_output=True, cwd=td)
        return dict(seed=sid, checks=out, demo_with_patch=d1.returncode, demo_without=d0.returncode)
    finally:
        shutil.rmtree(td, ignore_errors=True)


if __name__ == '__main__':
    seeds = sys.argv[1:] or sorted(os.listdir(os.path.join(V, 'seeded')))
    for s in seeds:
        print(json.dumps(run_seed(s)))
