"""writes MANIFEST.json from the per-property META of the contract modules (run by hand)"""
import importlib, json, os, sys
V = os.path.dirname(os.path.dirname(os.path.abspath(__file__)))
sys.path.insert(0, V)
os.environ.setdefault('VERIF_REPO', '/repo')
props = [json.loads(l) for l in open(os.path.join(V, 'properties.jsonl'))]
checks, na = [], []
for p in props:
    pid = p['id']
    if not os.path.exists(os.path.join(V, 'contracts', pid + '.py')):
        na.append(dict(property_id=pid, reason='no check built yet for this property (planned, see DESIGN.md section 4)'))
        continue
    m = importlib.import_module('contracts.' + pid)
    meta = m.META
    if meta.get('not_applicable'):
        na.append(dict(property_id=pid, reason=meta['not_applicable']))
        continue
    checks.append(dict(
        property_id=pid,
        quick_cmd='./check %s --tier quick' % pid,
        thorough_cmd='./check %s --tier thorough' % pid,
        evidence_file='evidence/%s.json' % pid,
        replay_cmd_template='./check replay {path}',
        engine='pyvc',
        level_claimed=dict(category=meta['level'], text=meta['text'], design_ref=meta.get('design_ref', 'DESIGN.md section 4 ' + pid)),
        level_note=meta['note'],
        technique=meta['technique']))
man = dict(
    version=1,
    setup_cmd='./setup.sh',
    hooks=dict(guard='PSEUDONETCDF_VERIF', enable='no hooks are needed: contracts are side-car files, /repo is read as it is',
               baseline_off_cmd='cd /repo && /venv/bin/python -m pytest -ra -q -p no:cacheprovider --timeout=900 --continue-on-collection-errors',
               source_commits=[], add_only=True),
    engines=[dict(name='pyvc', path='pyvc/', serves_properties=[c['property_id'] for c in checks],
                  kind_free_text='contract-based deductive verification: VC generation by symbolic execution of the real '
                                 'Python source (ast) against side-car contracts, discharged by z3 5.1 / cvc5 / z3 4.8; '
                                 'bounded run-time contracts (rtc/) as labelled stand-in for numpy/libnetcdf semantics')],
    checks=checks,
    not_applicable=na,
    notes='Exit codes of ./check: 0 held, 1 VIOLATION, 2 undecided, 3 checker error. Fix commits in /repo are listed in known_findings.json.')
json.dump(man, open(os.path.join(V, 'MANIFEST.json'), 'w'), indent=1)
import jsonschema
jsonschema.validate(man, json.load(open('/root/.vp/MANIFEST.schema.json')))
print('MANIFEST ok:', len(checks), 'checks,', len(na), 'not applicable')
