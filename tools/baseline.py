"""run the repository's test-suite (guard off) and compare with BASELINE.json stable_pass"""
import json, os, subprocess, sys, tempfile
import xml.etree.ElementTree as ET
repo = sys.argv[1] if len(sys.argv) > 1 else '/repo'
base = json.load(open('/root/.vp/BASELINE.json'))
with tempfile.TemporaryDirectory() as td:
    x = os.path.join(td, 'j.xml')
    env = dict(os.environ); env.pop('PSEUDONETCDF_VERIF', None); env['PYTHONDONTWRITEBYTECODE'] = '1'
    if repo != '/repo':
        env['PYTHONPATH'] = os.path.join(repo, 'src')
    subprocess.run(['/venv/bin/python', '-m', 'pytest', '-q', '-p', 'no:cacheprovider', '--timeout=900',
                    '--continue-on-collection-errors', '--junitxml=' + x], cwd=repo, env=env,
                   stdout=subprocess.DEVNULL, stderr=subprocess.DEVNULL)
    passed = set()
    for tc in ET.parse(x).getroot().iter('testcase'):
        if not any(c.tag in ('failure', 'error', 'skipped') for c in tc):
            passed.add('%s::%s' % (tc.get('classname'), tc.get('name')))
missing = [t for t in base['stable_pass'] if t not in passed]
print('baseline: %d/%d stable tests pass' % (len(base['stable_pass']) - len(missing), len(base['stable_pass'])))
for m in missing:
    print('  MISSING', m)
sys.exit(1 if missing else 0)
