"""Mutation self-test: each mutant is a deliberate property-breaking (or benign) edit,
applied to a scratch copy of /repo/src (under mkdtemp, removed afterwards); the check is
pointed at the copy with VERIF_REPO and must exit 1 (breaking) or 0 (benign)."""
import importlib
import json
import os
import shutil
import subprocess
import sys
import tempfile

V = os.path.dirname(os.path.dirname(os.path.abspath(__file__)))


def run_mutant(pid, mut, tier='quick'):
    td = tempfile.mkdtemp(prefix='verif_mut_')
    try:
        shutil.copytree('/repo/src', os.path.join(td, 'src'), ignore=shutil.ignore_patterns('__pycache__', '*.check'))
        p = os.path.join(td, 'src', 'PseudoNetCDF', mut['file'])
        s = open(p).read()
        if s.count(mut['old']) != 1 and not (mut.get('first') and s.count(mut['old']) > 1):
            return dict(id=mut['id'], result='patch-does-not-apply (%d matches)' % s.count(mut['old']))
        open(p, 'w').write(s.replace(mut['old'], mut['new'], 1))
        env = dict(os.environ, VERIF_REPO=td, VERIF_EVIDENCE_DIR=os.path.join(td, 'evidence'), VERIF_REPLAY_DIR=os.path.join(td, 'replays'))
        r = subprocess.run([os.path.join(V, 'check'), pid, '--tier', tier], capture_output=True, text=True, env=env, cwd=V)
        viol = [l for l in r.stdout.splitlines() if l.startswith('VIOLATION')]
        named = [l for l in r.stdout.splitlines() if 'obligation' in l or 'bounded' in l]
        return dict(id=mut['id'], exit=r.returncode, violations=len(viol), first=(named[:1] or [''])[0].strip()[:200],
                    expect=mut.get('expect', 1), tail=r.stdout.strip().splitlines()[-1:] )
    finally:
        shutil.rmtree(td, ignore_errors=True)


def main(pid=None, tier='quick'):
    import concurrent.futures as cf
    sys.path.insert(0, V)
    mods = [pid] if pid else sorted(f[:-3] for f in os.listdir(os.path.join(V, 'mutants')) if f.startswith('C') and f.endswith('.py'))
    bad = 0
    jobs = []
    with cf.ThreadPoolExecutor(max_workers=4) as ex:
        for m in mods:
            try:
                mm = importlib.import_module('mutants.' + m)
            except ImportError:
                continue
            for mut in mm.MUTANTS:
                jobs.append((m, mut, ex.submit(run_mutant, m, mut, tier)))
        for m, mut, f in jobs:
            r = f.result()
            ok = r.get('exit') == mut.get('expect', 1)
            if mut.get('expect', 1) == 0 and r.get('exit') == 2:
                ok = True   # benign edit may at worst be undecided
            print('%s %-34s expect=%s got=%s  %s' % ('ok  ' if ok else 'MISS', m + ':' + mut['id'], mut.get('expect', 1), r.get('exit', r.get('result')), r.get('first', '')))
            bad += 0 if ok else 1
    print('selftest: %d mutants, %d not as expected' % (len(jobs), bad))
    return 1 if bad else 0
