"""Differential test of the TRUSTED numpy model (pyvc/nparr.py) against the installed numpy.

Each snippet is a small function over arrays.  It is run twice:
  * by the symbolic interpreter on arrays of concrete shape whose cells are symbols pinned to concrete values (so exactly
    one path is feasible) -- the resulting cell terms are evaluated in the solver model;
  * by CPython / numpy on the same values.
The two results must agree cell by cell (masks included).  This is the "CPython cross-check" of the array model: views,
in-place operations, aliasing, derived arrays vs later writes, masks, concatenate/cumsum/diff/repeat/swapaxes, index arrays,
uint8 wrap-around.  A disagreement is an ENGINE defect (exit 3), never a verdict about the repository.

usage: tools/modelcheck.py [seed]
"""
import ast
import os
import sys
import textwrap
from fractions import Fraction

V = os.path.dirname(os.path.dirname(os.path.abspath(__file__)))
sys.path.insert(0, V)

import numpy as np   # noqa: E402
import z3            # noqa: E402

from pyvc import frontend, sym            # noqa: E402
from pyvc.exec import Ctx, Interp, FuncRef, PyExc   # noqa: E402
from pyvc.sym import Unsupported          # noqa: E402
from pyvc.nparr import sym_array, SArr    # noqa: E402
from pyvc.verify import model_value       # noqa: E402

SNIPPETS = [
    ('view write-through', "def f(a, b, v):\n    c = a[1:, ::2]\n    c += 1\n    return a\n"),
    ('derived array does not see later writes', "def f(a, b, v):\n    c = a + 1\n    a[0, 0] = 99.\n    return c\n"),
    ('astype copy does not see later writes', "def f(a, b, v):\n    c = a.astype('f')\n    a[1, 1] = -5.\n    return c\n"),
    ('where + in-place on a column view', "def f(a, b, v):\n    d = a[:, 0]\n    d += np.where(d < 0.5, 10., 20.)\n    return a\n"),
    ('in-place with overlapping operand', "def f(a, b, v):\n    a[0] += a[1]\n    a[1] *= 2\n    return a\n"),
    ('concatenate axis 0', "def f(a, b, v):\n    return np.concatenate([a, a[::-1]], axis=0)\n"),
    ('concatenate axis 1 then write source', "def f(a, b, v):\n    c = np.ma.concatenate([a, a[:, :2]], axis=1)\n    a[0, 0] = 7.\n    return c\n"),
    ('append scalar and diff', "def f(a, b, v):\n    return np.diff(np.append(a[0, 0], a[:, 0]), axis=0)\n"),
    ('diff along axis 1', "def f(a, b, v):\n    return np.abs(np.diff(a, axis=1))\n"),
    ('cumsum both axes', "def f(a, b, v):\n    d = a * 1\n    d[..., 0] = np.cumsum(d[..., 0], axis=d.ndim - 2)\n    return np.cumsum(d, axis=d.ndim - 1)\n"),
    ('repeat along a length-1 axis', "def f(a, b, v):\n    return v[:, None].repeat(3, 1)\n"),
    ('swapaxes view written through', "def f(a, b, v):\n    s = a.swapaxes(0, 1)\n    s[0, :] = 5.\n    return a\n"),
    ('array of arrays + swapaxes + newaxis', "def f(a, b, v):\n    x = np.array([v, v * 2], dtype='f').swapaxes(0, 1)\n    x = x[:, None, :]\n    d = x[:, :, 0]\n    d += 100\n    return x[:, [0], :].repeat(2, 1)\n"),
    ('index array on axis 0', "def f(a, b, v):\n    return a[np.array([2, 0, 2, -1]), :]\n"),
    ('index list on axis 1 among slices', "def f(a, b, v):\n    return a[:, [1, 1, 3]]\n"),
    ('basic slices negative step', "def f(a, b, v):\n    return a[::-1, -1:0:-2]\n"),
    ('integer index drops axis', "def f(a, b, v):\n    return a[-1] + b\n"),
    ('broadcast column against row', "def f(a, b, v):\n    return v[:, None] * b[None, :] - a\n"),
    ('masked_greater then less', "def f(a, b, v):\n    m = np.ma.masked_greater(a, 0.6)\n    m = np.ma.masked_less(m, 0.2)\n    return m\n"),
    ('assignment of a masked array into a masked target', "def f(a, b, v):\n    t = np.ma.zeros(a.shape, dtype='d')\n    t[...] = np.ma.masked_greater_equal(a, 0.5)\n    return t\n"),
    ('assignment of plain values clears the mask', "def f(a, b, v):\n    t = np.ma.zeros(a.shape, dtype='d')\n    t[...] = np.ma.masked_greater_equal(a, 0.5)\n    t[0] = b\n    return t\n"),
    ('masked_where copies', "def f(a, b, v):\n    m = np.ma.masked_where(a > 0.5, a)\n    a[0, 0] = 3.\n    return m\n"),
    ('arithmetic of masked arrays ORs the masks', "def f(a, b, v):\n    return np.ma.masked_greater(a, 0.7) + np.ma.masked_less(a, 0.3)\n"),
    ('getmaskarray / getdata', "def f(a, b, v):\n    m = np.ma.masked_greater(a, 0.5)\n    return np.ma.getmaskarray(m)\n"),
    # the reduction value is uninterpreted in the model: only the shape rule is compared
    ('reductions keepdims: shape only', "def f(a, b, v):\n    return a.max(axis=0, keepdims=True)\n", dict(shape_only=True)),
    ('reductions without keepdims: shape only', "def f(a, b, v):\n    return a.sum(axis=1)\n", dict(shape_only=True)),
    # for statements over containers that the body mutates (CPython: size check of dict iterators, positional walk of lists)
    ('dict resized during iteration raises RuntimeError', "def f(a, b, v):\n    d = {'x': 1, 'y': 2, 'z': 3}\n    n = 0\n    try:\n        for k in d:\n            n += 1\n            if k == 'y':\n                del d[k]\n    except RuntimeError:\n        return a * 0 + 50 + n\n    return a\n"),
    ('dict resized in the LAST iteration raises as well', "def f(a, b, v):\n    d = {'x': 1, 'y': 2}\n    try:\n        for k in d:\n            if k == 'y':\n                d['w'] = 3\n    except RuntimeError:\n        return a * 0 + 7\n    return a\n"),
    ('dict resized then break: no error', "def f(a, b, v):\n    d = {'x': 1, 'y': 2}\n    for k in d:\n        del d[k]\n        break\n    return a * 0 + len(d)\n"),
    ('iteration over list(d) while deleting from d', "def f(a, b, v):\n    d = {'x': 1, 'y': 2, 'z': 3}\n    for k in list(d):\n        if k != 'y':\n            del d[k]\n    return a * 0 + len(d)\n"),
    ('list grown during iteration is walked to its new end', "def f(a, b, v):\n    L = [1, 2, 3]\n    n = 0\n    for x in L:\n        if x < 3:\n            L.append(x + 10)\n        n += x\n    return a * 0 + n\n"),
    # negative control: numpy runs a different function -- the comparison MUST report a disagreement
    ('control (must disagree)', "def f(a, b, v):\n    return a * 2\n", dict(numpy_text="def f(a, b, v):\n    return a * 2 + (a > 0.5)\n", must_differ=True)),
    ('uint8 store of int32 values wraps', "def f(a, b, v):\n    z = np.zeros((2, 2), dtype='uint8')\n    z[0, :] = np.int32(a[0, :2] * 600 - 100)\n    z[1, 0] = np.int32(255)\n    return z\n"),
    ('int32 cast truncates toward zero', "def f(a, b, v):\n    return np.int32((a - 0.5) * 7)\n"),
    ('comprehension over an array', "def f(a, b, v):\n    return np.array([x * 2 + 1 for x in b])\n"),
    ('zeros_like and column assignment', "def f(a, b, v):\n    r = np.zeros_like(a[:, 0])\n    for j in range(3):\n        r[j] = a[j, 1] - j\n    return r\n"),
    ('rollaxis view written through, transpose', "def f(a, b, v):\n    c = np.array([a, a * 2])\n    r = np.rollaxis(c, axis=2, start=0)\n    r[0, 0, 0] = -1.\n    return np.transpose(c, (1, 0, 2))\n"),
    ('rollaxis forward and back', "def f(a, b, v):\n    c = np.array([a, a * 2, a * 3])\n    return np.rollaxis(np.rollaxis(c, 2, 0), 1, 3)\n"),
    ('moveaxis', "def f(a, b, v):\n    c = np.array([a, a * 2])\n    return np.moveaxis(c, 0, 2)\n"),
    # structured records (pyvc/recarr.py)
    ('structured record: field views write through', "def f(a, b, v):\n    dt = np.dtype(dict(names=['h', 'd'], formats=['>i4', '(4,)>f4']))\n    r = np.zeros((1,), dtype=dt)\n    d = r['d']\n    d[:] = b\n    r['h'] = 7\n    return r['d'][0] * r['h']\n"),
    ('structured record: nested struct, one-field struct from a trailing comma', "def f(a, b, v):\n    hd = np.dtype(dict(names=['m', 'n'], formats=['>i4,', '2>f4']))\n    dt = np.dtype(dict(names=['header', 'x'], formats=[hd, '>f4']))\n    r = np.zeros((1,), dtype=dt)\n    h = r['header']\n    h['m'] = 3\n    h['n'] = v[:2]\n    r['x'] = a[0, 0]\n    return r['header']['n'][0] * r['x'] + r['header']['m']['f0']\n"),
    ('structured record: integer field truncates toward zero, list broadcast', "def f(a, b, v):\n    dt = np.dtype(dict(names=['i', 'k'], formats=['3>i4', '6>i4']))\n    r = np.zeros((1,), dtype=dt)\n    r['i'] = v * 10 - 3\n    r['k'] = list((4, 5, 6)[::-1]) + [x + 1 for x in (0, 2, 7)]\n    return r['i'][0] * 100 + r['k'][0][3:]\n"),
    ('maximum / minimum', "def f(a, b, v):\n    return np.maximum(a, 0.5) - np.minimum(a[0], b)\n"),
]


class TextModule(frontend.Module):
    def __init__(self, name, text):
        self.relpath = '<modelcheck:%s>' % name
        self.path = self.relpath
        self.text = text
        self.tree = ast.parse(text)
        self.lines = text.splitlines()
        self.modname = 'modelcheck'
        self._globals_cache = None


def pinned(ctx, name, values, kind='f'):
    arr = np.asarray(values)
    a = sym_array(name, arr.shape, kind)
    for idx in np.ndindex(arr.shape):
        v = arr[idx]
        ctx.assume(sym.eq(a.get(tuple(int(i) for i in idx)), Fraction(float(v)).limit_denominator(10 ** 9) if kind == 'f' else int(v)))
    return a


def engine_run(name, text, vals):
    mod = TextModule(name, 'import numpy as np\n' + text)
    node, _ = mod.find('f')
    ctx = Ctx([], solver_timeout_ms=5000)
    I = Interp(ctx)
    args = [pinned(ctx, k, v) for k, v in vals.items()]
    res = I.call_function(FuncRef(mod, node, qual='f'), args, {})
    s = z3.Solver()
    for c in ctx.pc:
        s.add(c)
    if s.check() != z3.sat:
        raise RuntimeError('path condition not satisfiable')
    m = s.model()
    if isinstance(res, SArr):
        out = res.model_value(m)
        mask = res.mask.model_value(m) if res.mask is not None else None
        return out, mask
    return dict(shape=[], values=model_value(m, res)), None


def to_float(x):
    if isinstance(x, list):
        return [to_float(y) for y in x]
    if isinstance(x, bool):
        return x
    return float(x)


def main(seed=0):
    rng = np.random.default_rng(seed)
    # values on a grid of eighths: exactly representable, so float32/float64 and rational arithmetic agree
    grid = lambda shp: rng.integers(0, 9, size=shp) / 8.0
    bad = 0
    n = 0
    for entry in SNIPPETS:
        name, text = entry[0], entry[1]
        opts = entry[2] if len(entry) > 2 else {}
        vals = dict(a=grid((3, 4)), b=grid((4,)), v=grid((3,)))
        env = {'np': np}
        exec(compile(opts.get('numpy_text', text), '<snippet>', 'exec'), env)
        real = env['f'](*[x.copy() for x in vals.values()])
        try:
            got, gmask = engine_run(name, text, vals)
        except (Unsupported, PyExc) as e:
            print('SKIP  %-52s engine: %s' % (name, str(e)[:80]))
            continue
        n += 1
        r = np.ma.asarray(real)
        exp = np.ma.getdata(r).astype('d')
        expmask = np.ma.getmaskarray(r)
        ok = list(got.get('shape', [])) == list(exp.shape)
        detail = ''
        if ok and opts.get('shape_only'):
            pass
        elif ok and 'values' in got:
            g = np.array(to_float(got['values']), dtype='d').reshape(exp.shape)
            gm = np.zeros(exp.shape, bool) if gmask is None else np.array(gmask['values'], dtype=bool).reshape(exp.shape)
            if not np.array_equal(gm, expmask):
                ok, detail = False, 'masks differ: engine %s numpy %s' % (gm.tolist(), expmask.tolist())
            elif not np.allclose(g[~gm], exp[~expmask], rtol=1e-6, atol=1e-9):
                ok, detail = False, 'values differ: engine %s numpy %s' % (g.tolist(), exp.tolist())
        elif ok:
            ok, detail = False, 'no values from the engine: %r' % (got,)
        else:
            detail = 'shape: engine %r numpy %r' % (got.get('shape'), list(exp.shape))
        if opts.get('must_differ'):
            ok, detail = (not ok), ('the comparison detects a disagreement' if not ok else 'the comparison did NOT detect the planted disagreement')
        print('%s %-52s %s' % ('ok   ' if ok else 'DIFF ', name, detail[:300]))
        bad += 0 if ok else 1
    print('modelcheck: %d snippets compared, %d disagree' % (n, bad))
    return 3 if bad else 0


if __name__ == '__main__':
    sys.exit(main(int(sys.argv[1]) if len(sys.argv) > 1 else 0))
