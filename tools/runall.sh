#!/bin/sh
# run every registered check (quick by default); print one line per property, and the end of the output when a check does not exit 0
cd "$(dirname "$0")/.."
for p in $(.venv/bin/python -c "import json;print(' '.join(c['property_id'] for c in json.load(open('MANIFEST.json'))['checks']))"); do
  out=$(./check $p --tier ${1:-quick} 2>&1); rc=$?
  echo "$p rc=$rc $(echo "$out" | tail -1 | cut -c1-170)"
  if [ $rc -ne 0 ]; then echo "$out" | grep -v conda.cli | tail -40 | cut -c1-400 | sed 's/^/    | /'; fi
done
