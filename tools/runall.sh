#!/bin/sh
# run every registered quick check; print one line per property
cd "$(dirname "$0")/.."
for p in $(.venv/bin/python -c "import json;print(' '.join(c['property_id'] for c in json.load(open('MANIFEST.json'))['checks']))"); do
  out=$(./check $p --tier ${1:-quick} 2>&1); rc=$?
  echo "$p rc=$rc $(echo "$out" | tail -1 | cut -c1-170)"
done
