"""Trusted models of builtins and external libraries (the *trusted base*).

Every model that is more than plain Python semantics of a builtin carries a
`trusted` label; labels actually used during a run are collected into the
evidence (`coverage.trusted_base`).  Array models live in pyvc.arrays and are
plugged in through the hooks at the bottom of this file.
"""
import ast
import struct as _struct
from fractions import Fraction
import z3

from . import sym
from .sym import PyExc, Unsupported, is_sym

KNOWN_EXTERNAL = {'numpy', 'np', 'struct', 'os', 'sys', 'datetime', 'warnings', 'netCDF4', 'scipy',
                  'collections', 'functools', 'operator', 're', 'math', 'unittest', 'copy', 'io', 'time'}

_REG = {}


def model(name, trusted=None):
    def deco(fn):
        from .exec import Builtin
        _REG[name] = Builtin(name, fn, trusted)
        return fn
    return deco


# library constants (a value may be None, which `lookup` could not express)
CONSTS = {'numpy.newaxis': None}


def lookup(dotted):
    if dotted.startswith('np.'):
        dotted = 'numpy.' + dotted[3:]
    return _REG.get(dotted)


# ---------------------------------------------------------------------------
# builtins
# ---------------------------------------------------------------------------

def _E():
    from . import exec as E
    return E


@model('builtins.len')
def _len(I, args, kw):
    (x,) = args
    E = _E()
    if isinstance(x, (list, tuple, str, dict, set, bytes, range, frozenset)):
        return len(x)
    if isinstance(x, E.GenResult):
        return len(x.items)
    r = hook('len_', I, x)
    if r is not None:
        return r
    if isinstance(x, E.Obj) and x.cls is not None:
        f = I.class_getattr(x.cls, '__len__')
        if isinstance(f, E.FuncRef):
            return I.call_function(f.bind(x), [], {})
    raise Unsupported('len of %s' % type(x).__name__)


@model('builtins.range')
def _range(I, args, kw):
    if any(is_sym(a) for a in args):
        from .arrays import SymRange
        return SymRange(*args)
    try:
        return range(*[int(a) for a in args])
    except TypeError:
        raise PyExc('TypeError')


@model('builtins.int')
def _int(I, args, kw):
    if not args:
        return 0
    x = args[0]
    E = _E()
    if isinstance(x, str):
        try:
            return int(x, *args[1:])
        except ValueError:
            raise PyExc('ValueError')
    if isinstance(x, E.DecSlice):
        I.ctx.trust("str-dec: int(('%0Wd' % n)[a:b]) is the digit window of n (n >= 0)")
        n = x.n
        v = sym.floordiv(n, 10 ** x.lo)
        if x.hi is not None:
            v = sym.mod(v, 10 ** (x.hi - x.lo))
        return v
    r = hook('int_', I, x)
    if r is not None:
        return r
    return sym.trunc(x)


@model('copy.copy')
def _copy_copy(I, args, kw):
    x = args[0]
    if isinstance(x, dict):
        return dict(x)
    if isinstance(x, list):
        return list(x)
    if isinstance(x, (tuple, str, bytes, int, float, bool, type(None))) or is_sym(x):
        return x
    if getattr(x, 'is_sarr', False):
        from . import nparr
        return nparr.copy_of(I, x)
    raise Unsupported('copy.copy of %s' % type(x).__name__)


@model('builtins.float')
def _float(I, args, kw):
    x = args[0]
    if isinstance(x, str):
        try:
            return sym.conc(float(x))
        except ValueError:
            raise PyExc('ValueError')
    r = hook('float_', I, x)
    if r is not None:
        return r
    return sym.to_real(sym.conc(x))


@model('builtins.bool')
def _bool(I, args, kw):
    return I.truth(args[0]) if args else False


@model('builtins.abs')
def _abs(I, args, kw):
    r = hook('abs_', I, args[0])
    if r is not None:
        return r
    return sym.abs_(args[0])


def _minmax(I, args, kw, f):
    if len(args) == 1:
        args = I.iterate(args[0])
    if not args:
        raise PyExc('ValueError')
    r = args[0]
    for x in args[1:]:
        r = f(r, x)
    return r


@model('builtins.min')
def _min(I, args, kw):
    if all(isinstance(a, str) for a in args) and args:
        return min(args)
    return _minmax(I, args, kw, sym.min_)


@model('builtins.max')
def _max(I, args, kw):
    r = hook('max_', I, args)
    if r is not None:
        return r
    if all(isinstance(a, str) for a in args) and args:
        return max(args)
    return _minmax(I, args, kw, sym.max_)


@model('builtins.sum')
def _sum(I, args, kw):
    r = args[1] if len(args) > 1 else 0
    for x in I.iterate(args[0]):
        r = I.binop(ast.Add(), r, x)
    return r


@model('builtins.round')
def _round(I, args, kw):
    x = args[0]
    if len(args) > 1 and args[1] not in (0, None):
        raise Unsupported('round with digits')
    r = sym.round_half_even(x)
    if len(args) == 1:
        return sym.trunc(r)
    return r


@model('builtins.divmod')
def _divmod(I, args, kw):
    a, b = args
    return (I.binop(ast.FloorDiv(), a, b), I.binop(ast.Mod(), a, b))


@model('os.path.dirname')
def _os_dirname(I, args, kw):
    import os
    if isinstance(args[0], str):
        return os.path.dirname(args[0])
    raise Unsupported('os.path.dirname of a non-concrete path')


@model('os.path.join')
def _os_join(I, args, kw):
    import os
    if all(isinstance(a, str) for a in args):
        return os.path.join(*args)
    raise Unsupported('os.path.join of non-concrete paths')


@model('builtins.enumerate')
def _enumerate(I, args, kw):
    r = hook('enumerate_', I, args[0])
    if r is not None:
        return r
    start = args[1] if len(args) > 1 else kw.get('start', 0)
    return [(start + i, x) for i, x in enumerate(I.iterate(args[0]))]


@model('builtins.zip')
def _zip(I, args, kw):
    r = hook('zip_', I, args)
    if r is not None:
        return r
    return [tuple(t) for t in zip(*[I.iterate(a) for a in args])]


@model('builtins.reversed')
def _reversed(I, args, kw):
    return list(reversed(I.iterate(args[0])))


@model('builtins.sorted')
def _sorted(I, args, kw):
    items = I.iterate(args[0])
    from .arrays import AbsStr
    if items and all(isinstance(x, AbsStr) for x in items) and kw.get('key') is None and len(items) <= 5:
        # strings known only up to equality: their order is an uninterpreted strict total order (axioms instantiated on
        # the strings at hand); every outcome of the comparisons is explored
        import z3 as _z3
        lt = _z3.Function('str_lt', _z3.IntSort(), _z3.IntSort(), _z3.BoolSort())
        ids = [x.sid for x in items]
        for a in ids:
            I.ctx.assume(_z3.Not(lt(a, a)))
            for b in ids:
                I.ctx.assume(_z3.Or(lt(a, b), lt(b, a), a == b))
                I.ctx.assume(_z3.Not(_z3.And(lt(a, b), lt(b, a))))
                for c in ids:
                    I.ctx.assume(_z3.Implies(_z3.And(lt(a, b), lt(b, c)), lt(a, c)))
        out = []
        for x in items:                     # insertion sort, stable
            k = len(out)
            while k > 0 and I.ctx.branch(lt(x.sid, out[k - 1].sid)):
                k -= 1
            out.insert(k, x)
        return out[::-1] if kw.get('reverse') else out
    if any(is_sym(x) for x in items) or kw.get('key') is not None or any(isinstance(x, AbsStr) for x in items):
        raise Unsupported('sorted on symbolic values / key')
    return sorted(items, reverse=bool(kw.get('reverse', False)))


@model('builtins.tuple')
def _tuple(I, args, kw):
    return tuple(I.iterate(args[0])) if args else ()


@model('builtins.list')
def _list(I, args, kw):
    return list(I.iterate(args[0])) if args else []


@model('builtins.set')
def _set(I, args, kw):
    return set(I.iterate(args[0])) if args else set()


@model('builtins.dict')
def _dict(I, args, kw):
    d = {}
    if args:
        a = args[0]
        if isinstance(a, dict):
            d.update(a)
        else:
            for k, v in I.iterate(a):
                if is_sym(k):
                    raise Unsupported('symbolic dict key')
                d[k] = v
    d.update(kw)
    return d


@model('builtins.str')
def _str(I, args, kw):
    if not args:
        return ''
    x = args[0]
    E = _E()
    if is_sym(x) or isinstance(x, (E.Obj, E.Opaque, E.ClassRef)):
        return E.Opaque('str()')
    if isinstance(x, tuple) and any(is_sym(y) for y in x):
        from .layout import TupleText
        return TupleText(x)
    if isinstance(x, Fraction):
        return str(float(x))
    return str(x)


@model('builtins.repr')
def _repr(I, args, kw):
    return _str(I, args, kw)


@model('builtins.chr')
def _chr(I, args, kw):
    x = args[0]
    if is_sym(x):
        from .arrays import SymChar
        return SymChar(x)
    try:
        return chr(x)
    except (ValueError, OverflowError):
        raise PyExc('ValueError')


@model('builtins.ord')
def _ord(I, args, kw):
    x = args[0]
    from .arrays import SymChar
    if isinstance(x, SymChar):
        return x.code
    return ord(x)


@model('builtins.isinstance')
def _isinstance(I, args, kw):
    x, t = args
    E = _E()
    ts = t if isinstance(t, tuple) else (t,)
    for t in ts:
        if isinstance(t, E.ClassRef):
            if isinstance(x, E.Obj) and x.cls is not None:
                c = [x.cls]
                seen = 0
                while c and seen < 32:
                    k = c.pop()
                    seen += 1
                    if k is t or (k.name == t.name and k.module.relpath == t.module.relpath):
                        return True
                    c.extend(I.class_bases(k))
            continue
        if isinstance(t, E.Builtin):
            nm = t.name.split('.')[-1]
            if nm == 'int' and sym.is_intkind(x):
                return True
            if nm == 'float' and sym.is_realkind(x):
                return True
            if nm == 'str' and isinstance(x, str):
                return True
            if nm == 'bytes' and isinstance(x, bytes):
                return True
            if nm == 'list' and isinstance(x, list):
                return True
            if nm == 'tuple' and isinstance(x, tuple):
                return True
            if nm == 'dict' and isinstance(x, dict):
                return True
            if nm == 'bool' and sym.is_boolkind(x):
                return True
            if nm == 'slice' and isinstance(x, slice):
                return True
            r = hook('isinstance_', I, x, nm)
            if r:
                return True
            continue
        if isinstance(t, E.ModRef):
            # external classes: objects carry the dotted names of the classes they are instances of
            if isinstance(x, E.Obj) and t.dotted in x.ghost.get('isa', ()):
                return True
            if t.dotted in ('numpy.ma.MaskedArray', 'numpy.ma.core.MaskedArray') and getattr(x, 'is_sarr', False) and x.mask is not None:
                return True
            if t.dotted in ('collections.abc.Iterable', 'collections.Iterable', 'typing.Iterable'):
                if isinstance(x, (list, tuple, dict, str, bytes, set, frozenset, range)) or getattr(x, 'is_sarr', False) or hasattr(x, 'sym_len'):
                    return True
                if isinstance(x, E.Obj):
                    # an instance of a repository class is iterable iff its class defines __iter__
                    if x.cls is not None and I.class_getattr(x.cls, '__iter__') is not None:
                        return True
            continue
        if isinstance(t, E.Opaque):
            raise Unsupported('isinstance against opaque type %s' % t.origin)
    return False


@model('builtins.hasattr')
def _hasattr(I, args, kw):
    obj, name = args
    E = _E()
    if isinstance(obj, E.Opaque):
        raise Unsupported('hasattr on opaque')
    try:
        I.getattr(obj, name)
        return True
    except PyExc as e:
        if e.cls == 'AttributeError':
            return False
        raise
    except Unsupported:
        return False


@model('builtins.getattr')
def _getattr(I, args, kw):
    obj, name = args[:2]
    if obj is None or isinstance(obj, (int, float, bool)) and not is_sym(obj):
        # None / plain numbers have none of the attributes the verified code asks for (dimensions, units, ...)
        if isinstance(name, str) and not hasattr(obj, name):
            if len(args) > 2:
                return args[2]
            raise PyExc('AttributeError', name)
    try:
        return I.getattr(obj, name)
    except PyExc as e:
        if e.cls == 'AttributeError' and len(args) > 2:
            return args[2]
        raise


@model('builtins.setattr')
def _setattr(I, args, kw):
    obj, name, v = args
    I.setattr(obj, name, v)


@model('builtins.delattr')
def _delattr(I, args, kw):
    delattr(I, args[0], args[1])


@model('builtins.print')
def _print(I, args, kw):
    I.ctx.dropped.add('print(...)')


@model('builtins.any')
def _any(I, args, kw):
    r = hook('any_', I, args[0])
    if r is not None:
        return r
    return sym.Or(*[I.truth(x) for x in I.iterate(args[0])])


@model('builtins.all')
def _all(I, args, kw):
    r = hook('all_', I, args[0])
    if r is not None:
        return r
    return sym.And(*[I.truth(x) for x in I.iterate(args[0])])


@model('builtins.type')
def _type(I, args, kw):
    E = _E()
    x = args[0]
    if isinstance(x, E.Obj) and x.cls is not None:
        return x.cls
    return E.Opaque('type()')


@model('builtins.slice')
def _slice(I, args, kw):
    return slice(*args)


@model('builtins.id')
def _id(I, args, kw):
    return id(args[0])


@model('builtins.callable')
def _callable(I, args, kw):
    E = _E()
    return isinstance(args[0], (E.FuncRef, E.Builtin, E.ClassRef, E.BoundModel))


@model('builtins.object')
def _object(I, args, kw):
    return _E().Obj(None, tag='object')


@model('builtins.super')
def _super(I, args, kw):
    raise Unsupported('super()')


@model('builtins.open')
def _open(I, args, kw):
    raise Unsupported('open()')


@model('builtins.iter')
def _iter(I, args, kw):
    return list(I.iterate(args[0]))


@model('builtins.True')
def _t(I, args, kw):
    return True


_REG['builtins.None'] = None

# warnings.warn: no effect on returned state (dropped)


@model('warnings.warn')
def _warn(I, args, kw):
    I.ctx.dropped.add('warn(...)')


@model('functools.reduce')
def _reduce(I, args, kw):
    f, seq = args[:2]
    items = I.iterate(seq)
    if len(args) > 2:
        acc = args[2]
    else:
        acc, items = items[0], items[1:]
    for x in items:
        acc = I.call(f, [acc, x], {})
    return acc


@model('operator.mul')
def _opmul(I, args, kw):
    return I.binop(ast.Mult(), args[0], args[1])


# ---- struct ----------------------------------------------------------------

@model('struct.calcsize', trusted='struct.calcsize: size in bytes of a struct format string (CPython struct module)')
def _calcsize(I, args, kw):
    fmt = args[0]
    if not isinstance(fmt, str):
        raise Unsupported('struct.calcsize of symbolic format')
    try:
        return _struct.calcsize(fmt)
    except _struct.error:
        raise PyExc('struct.error')


# ---- os.path -----------------------------------------------------------------

@model('os.path.splitext')
def _splitext(I, args, kw):
    import os
    p = args[0]
    if isinstance(p, str):
        return os.path.splitext(p)
    r = hook('splitext_', I, p)
    if r is not None:
        return r
    raise Unsupported('os.path.splitext of non-str')


@model('os.path.isfile', trusted='os.path.isfile: pure query of the file system (no effect on program state)')
def _isfile(I, args, kw):
    return I.ctx.fresh('isfile', 'Bool')


@model('os.path.basename')
def _basename(I, args, kw):
    import os
    if isinstance(args[0], str):
        return os.path.basename(args[0])
    return _E().Opaque('basename')


# ---------------------------------------------------------------------------
# methods of builtin values
# ---------------------------------------------------------------------------

def _native_method(recv, name):
    """wrap a python bound method of a concrete builtin value"""
    E = _E()
    meth = getattr(recv, name)

    def call(I, r, args, kw):
        for a in list(args) + list(kw.values()):
            if is_sym(a) and name not in ('append', 'insert', 'extend', 'setdefault', 'get', 'pop', 'update', 'index', 'count', 'remove'):
                raise Unsupported('symbolic argument to %s.%s' % (type(recv).__name__, name))
        try:
            if name == 'index' and isinstance(recv, (list, tuple)):
                for j, y in enumerate(recv):
                    if I.ctx.branch(I.equals(args[0], y)):
                        return j
                raise PyExc('ValueError')
            if name == 'count' and isinstance(recv, (list, tuple)):
                return sum(1 for y in recv if I.ctx.branch(I.equals(args[0], y)))
            if name == 'remove' and isinstance(recv, list):
                for j, y in enumerate(recv):
                    if I.ctx.branch(I.equals(args[0], y)):
                        del recv[j]
                        return None
                raise PyExc('ValueError')
            if name in ('get', 'pop', 'setdefault') and isinstance(recv, dict) and args and is_sym(args[0]):
                raise Unsupported('symbolic dict key')
            if name == 'extend':
                recv.extend(I.iterate(args[0]))
                return None
            if name == 'join':
                items = I.iterate(args[0])
                if all(isinstance(x, str) for x in items):
                    return recv.join(items)
                r = hook('str_join', I, recv, items)
                if r is not None:
                    return r
                return E.Opaque('str.join')  # text of unknown content (documentation strings, messages)
            if name == 'format':
                if any(is_sym(a) or isinstance(a, (E.Obj, E.Opaque)) or hasattr(a, 'is_sarr') for a in list(args) + list(kw.values())):
                    return E.Opaque('str.format')
            if name == 'update' and isinstance(recv, dict):
                for a in args:
                    if isinstance(a, dict):
                        recv.update(a)
                    else:
                        for k, v in I.iterate(a):
                            recv[k] = v
                recv.update(kw)
                return None
            if name in ('items', 'keys', 'values') and isinstance(recv, dict):
                return list(meth())
            out = meth(*args, **kw)
            if isinstance(out, float):
                out = sym.conc(out)
            return out
        except KeyError:
            raise PyExc('KeyError')
        except IndexError:
            raise PyExc('IndexError')
        except ValueError:
            raise PyExc('ValueError')
        except AttributeError:
            raise PyExc('AttributeError')
    return E.BoundModel(call, recv)


def value_getattr(I, obj, name):
    E = _E()
    r = hook('value_getattr', I, obj, name)
    if r is not None:
        return r
    if isinstance(obj, E.Builtin):
        sub = _REG.get(obj.name + '.' + name)
        if sub is not None:
            return sub
        return E.Opaque(obj.name + '.' + name)
    if isinstance(obj, (list, dict, str, tuple, set, bytes, frozenset)):
        if hasattr(obj, name):
            return _native_method(obj, name)
        raise PyExc('AttributeError', name)
    if isinstance(obj, E.ExcInstance):
        if name == 'args':
            return obj.args
    if isinstance(obj, slice):
        if name in ('start', 'stop', 'step'):
            return getattr(obj, name)
        if name == 'indices':
            def indices(I, r, args, kw):
                n = args[0]
                if any(is_sym(x) for x in (r.start, r.stop, r.step, n)):
                    from .arrays import sym_slice_indices
                    return sym_slice_indices(I, r, n)
                return r.indices(n)
            return E.BoundModel(indices, obj)
    if isinstance(obj, (Fraction, int)) and not isinstance(obj, bool) or (is_sym(obj) and (z3.is_int(obj) or z3.is_real(obj))):
        # numpy scalar methods on plain numbers
        if name == 'real':
            return obj
        if name == 'astype':
            def astype(I, r, args, kw):
                from .nparr import dtype_kind
                k = dtype_kind(args[0])
                if k == 'i':
                    I.ctx.trust('numpy.astype(int): truncation toward zero')
                    return sym.trunc(r)
                if k == 'f':
                    return sym.to_real(r)
                raise Unsupported('scalar astype %r' % (args[0],))
            return E.BoundModel(astype, obj)
        if name == 'copy':
            return E.BoundModel(lambda I, r, a, k: r, obj)
        if name == 'take':
            def take(I, r, a, k):
                if a and not is_sym(a[0]) and a[0] in (0, -1):
                    return r
                raise PyExc('IndexError')
            return E.BoundModel(take, obj)
        if name in ('size', 'ndim'):
            return 1 if name == 'size' else 0
    return None


def obj_getattr(I, obj, name):
    return hook('obj_getattr', I, obj, name)


def obj_setattr(I, obj, name, val):
    return hook('obj_setattr', I, obj, name, val)


def delattr(I, obj, name):
    E = _E()
    if isinstance(obj, E.Obj):
        if obj.cls is not None:
            da = I.class_getattr(obj.cls, '__delattr__')
            if isinstance(da, E.FuncRef) and getattr(I, '_in_delattr', None) is not obj:
                prev = getattr(I, '_in_delattr', None)
                I._in_delattr = obj
                try:
                    I.call_function(da.bind(obj), [name], {})
                finally:
                    I._in_delattr = prev
                return
        if name not in obj.attrs:
            raise PyExc('AttributeError', name)
        del obj.attrs[name]
        return
    raise Unsupported('delattr on %s' % type(obj).__name__)


def delitem(I, obj, idx):
    if isinstance(obj, (list, dict)):
        try:
            del obj[idx]
        except (KeyError, IndexError) as e:
            raise PyExc(type(e).__name__)
        return
    raise Unsupported('del item')


def str_format(I, fmt, arg):
    E = _E()
    args = arg if isinstance(arg, tuple) else (arg,)
    if not any(is_sym(a) or isinstance(a, (E.Obj, E.Opaque, E.FmtStr)) or hasattr(a, 'is_sarr') or type(a).__name__ == 'TupleText' for a in args):
        try:
            conv = tuple(float(a) if isinstance(a, Fraction) else a for a in args)
            return fmt % (conv if isinstance(arg, tuple) else conv[0])
        except (TypeError, ValueError):
            raise PyExc('TypeError')
    return E.FmtStr(fmt, args)


def power(I, a, b):
    r = hook('power', I, a, b)
    if r is not None:
        return r
    return sym.pow_(a, b)


def inplace_op(I, op, cur, rhs):
    r = hook('inplace_op', I, op, cur, rhs)
    if r is not None:
        return r
    if isinstance(cur, list) and isinstance(op, ast.Add):
        cur.extend(I.iterate(rhs))
        return cur
    return NotImplemented


def _hook_ni(name, *a):
    r = hook(name, *a)
    return NotImplemented if r is None else r


def binop(I, op, a, b):
    return _hook_ni('binop', I, op, a, b)


def unaryop(I, op, v):
    return _hook_ni('unaryop', I, op, v)


def compare(I, op, a, b):
    return _hook_ni('compare', I, op, a, b)


def contains(I, c, x):
    return hook('contains', I, c, x)


def truth(I, v):
    return hook('truth', I, v)


def iterate(I, v):
    return hook('iterate', I, v)


def getitem(I, obj, idx):
    E = _E()
    if isinstance(obj, E.FmtStr):
        return _fmt_slice(I, obj, idx)
    return _hook_ni('getitem', I, obj, idx)


def setitem(I, obj, idx, v):
    return _hook_ni('setitem', I, obj, idx, v)


def symbolic_for(I, st, frame, it, spec):
    r = hook('symbolic_for', I, st, frame, it, spec)
    if r is None:
        raise Unsupported('loop invariant given for a loop the engine cannot cut')
    return r


def symbolic_comprehension(I, e, frame):
    return hook('symbolic_comprehension', I, e, frame)


def _fmt_slice(I, f, idx):
    """slices of '%0Wd' % n counted from the right end (valid for n >= 0, any
    width: the right-most digits do not move when the number gets longer)"""
    import re
    E = _E()
    m = re.fullmatch(r'%0(\d+)d', f.fmt)
    if not m or len(f.args) != 1 or not isinstance(idx, slice) or idx.step not in (None, 1):
        raise Unsupported('slice of formatted string %r' % f.fmt)
    n = f.args[0]
    a, b = idx.start, idx.stop
    # only windows anchored at the right end are width independent
    if (a is None or a < 0) and (b is None or b < 0):
        lo = 0 if b is None else -b
        hi = None if a is None else -a
        I.ctx.prove('%s/str-dec/nonneg' % f.fmt, sym.ge(n, 0), 'pre',
                    {'why': "digit-window reading of '%0Wd' % n needs n >= 0"})
        return E.DecSlice(n, lo, hi)
    raise Unsupported('left anchored slice of a formatted number')


# plug-in hooks (pyvc.arrays, pyvc.dt register themselves here)
_HOOKS = {}


def register_hook(name, fn):
    _HOOKS.setdefault(name, []).append(fn)


def hook(name, *a):
    for fn in _HOOKS.get(name, ()):
        r = fn(*a)
        if r is not None:
            return r
    return None


@model('builtins.object.__setattr__')
def _obj_setattr_raw(I, args, kw):
    o, k, v = args
    E = _E()
    if getattr(o, 'is_sarr', False) and isinstance(k, str):
        o.attrs[k] = v
        return
    if not isinstance(o, E.Obj) or not isinstance(k, str):
        raise Unsupported('object.__setattr__ on %r' % (o,))
    o.attrs[k] = v
    I.ctx.events.append(('setattr', o.id, k))


@model('builtins.object.__delattr__')
def _obj_delattr_raw(I, args, kw):
    o, k = args
    E = _E()
    if not isinstance(o, E.Obj) or not isinstance(k, str):
        raise Unsupported('object.__delattr__ on %r' % (o,))
    if k not in o.attrs:
        raise PyExc('AttributeError', k)
    del o.attrs[k]
    I.ctx.events.append(('delattr', o.id, k))


# ---- netCDF4.Dataset handle type-state (trusted) -------------------------------------------
# close() REQUIRES the handle to be open: the C library recycles ids, so closing a stale id
# may close another dataset.  isopen() is a pure query.

T_NC = 'netCDF4.Dataset: close() requires an open handle (ids are recycled by libnetcdf); isopen() is a pure query'


@model('netCDF4.Dataset.close', trusted=T_NC)
def _nc_close(I, args, kw):
    o = args[0]
    st = o.ghost.get('isopen', True)
    I.ctx.prove('call:netCDF4.Dataset.close/pre:handle-is-open', st, 'typestate', {'callee': 'netCDF4.Dataset.close'})
    if not I.ctx.branch(st):
        raise PyExc('RuntimeError')      # "NetCDF: Not a valid ID" -- when the id has not been recycled
    o.ghost['isopen'] = False
    I.ctx.events.append(('nc_close', o.id))


@model('netCDF4.Dataset.isopen', trusted=T_NC)
def _nc_isopen(I, args, kw):
    return args[0].ghost.get('isopen', True)


@model('netCDF4.Dataset')
def _nc_dataset(I, args, kw):
    raise Unsupported('opening a netCDF4.Dataset')


def _nc_obj_getattr(I, obj, name):
    E = _E()
    if 'isopen' in obj.ghost and name in ('isopen',):
        return E.BoundModel(lambda I2, r, a, k: r.ghost['isopen'], obj, trusted=T_NC)
    return None


register_hook('obj_getattr', _nc_obj_getattr)


@model('builtins.bytes')
def _bytes(I, args, kw):
    if not args:
        return b''
    if isinstance(args[0], (bytes, str)):
        return bytes(args[0], *args[1:]) if isinstance(args[0], str) else args[0]
    raise Unsupported('bytes()')


# ---- small external models used by pncgen -------------------------------------------------

@model('numpy.isscalar')
def _isscalar(I, args, kw):
    x = args[0]
    return isinstance(x, (int, float, Fraction, str, bool)) or (is_sym(x))


@model('re.compile', trusted='re: regular expressions are evaluated by CPython on concrete strings')
def _re_compile(I, args, kw):
    import re
    if not all(isinstance(a, (str, int)) for a in args):
        raise Unsupported('re.compile of symbolic pattern')
    return re.compile(*args)


def _re_getattr(I, obj, name):
    import re
    if isinstance(obj, re.Pattern) and name in ('match', 'search', 'sub', 'findall', 'split'):
        return _native_method(obj, name)
    if isinstance(obj, re.Match) and name in ('groups', 'group'):
        return _native_method(obj, name)
    return None


register_hook('value_getattr', _re_getattr)


def native(fn):
    """python callable usable as a value inside the interpreted program: fn(I, args, kwargs)"""
    fn._pyvc_native = True
    return fn


def _isinstance_isa(I, x, nm):
    return None


def _obj_getitem(I, obj, idx):
    E = _E()
    if isinstance(obj, E.Obj) and '__getitem__' in obj.attrs:
        return I.call(obj.attrs['__getitem__'], [idx], {})
    return None


def _obj_setitem(I, obj, idx, v):
    E = _E()
    if isinstance(obj, E.Obj) and '__setitem__' in obj.attrs:
        I.call(obj.attrs['__setitem__'], [idx, v], {})
        return True
    return None


register_hook('getitem', _obj_getitem)
register_hook('setitem', _obj_setitem)


@model('collections.OrderedDict')
def _ordereddict(I, args, kw):
    return _dict(I, args, kw)


@model('builtins.object.__new__')
def _obj_new(I, args, kw):
    E = _E()
    cls = [a for a in args if isinstance(a, E.ClassRef)]
    if not cls:
        raise Unsupported('object.__new__ of a non-repo class')
    return E.Obj(cls[-1])


@model('builtins.object.__init__')
def _obj_init(I, args, kw):
    return None


for _nm in ('numpy.ma.MaskedArray.__setattr__', 'numpy.ndarray.__setattr__', 'numpy.ma.core.MaskedArray.__setattr__'):
    _REG[_nm] = _E().Builtin(_nm, _obj_setattr_raw, 'ndarray.__setattr__: stores the attribute on the array object')
for _nm in ('numpy.ma.MaskedArray.__delattr__', 'numpy.ndarray.__delattr__'):
    _REG[_nm] = _E().Builtin(_nm, _obj_delattr_raw)
