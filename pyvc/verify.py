"""Contracts, path exploration, obligation discharge, counter-example replay."""
import ast
import json
import os
import subprocess
import tempfile
import time
import traceback
from fractions import Fraction

import z3

from . import frontend, sym
from .sym import PyExc, Unsupported, is_sym
from .exec import (Ctx, Interp, FuncRef, Obj, PathEnd, LoopSpec, ClassRef, Opaque)

VERIF = os.path.dirname(os.path.dirname(os.path.abspath(__file__)))


def tier():
    return os.environ.get('VERIF_TIER', 'quick')


def z3_timeout_ms():
    return 60000 if tier() == 'thorough' else 8000


# ---------------------------------------------------------------------------
# contract objects
# ---------------------------------------------------------------------------

class Contract:
    """Contract of one real function.

    target      'relative/path.py::Class.method'
    inputs(ctx, I)   -> dict of named (symbolic) inputs; 'self' for the receiver
    requires(inp)    -> formula
    ensures(inp, res, I) -> [(name, formula)]   (post-conditions on normal return)
    on_raise(inp, exc, I) -> [(name, formula)]  (obligations when `exc` is raised;
                        default: raising is not allowed under `requires`)
    result(ctx, inp) -> fresh symbolic result for use as a *summary* at call sites
    loops       {ordinal: LoopSpec}
    uses        [Contract]  callee contracts applied modularly
    """
    target = None
    prop = None
    name = None
    loops = {}
    uses = ()
    result_sort = 'Int'
    modifies = ()
    assumptions = ()
    max_paths = 400

    # -- to be provided -------------------------------------------------
    def inputs(self, ctx, I):
        raise NotImplementedError

    def requires(self, inp):
        return True

    def ensures(self, inp, res, I):
        return []

    def on_raise(self, inp, exc, I):
        return [('no-raise[%s]' % exc, False)]

    def call_args(self, inp):
        """positional args / kwargs for the call, default: parameters by name"""
        return None

    def small(self, inp):
        """optional extra constraint used only to pick a SMALL counter-model for replay"""
        n = inp.get('n') if isinstance(inp, dict) else None
        if n is not None and is_sym(n):
            return n <= 3
        return None

    # -- summary use --------------------------------------------------------
    def key(self):
        rel, q = frontend.parse_target(self.target)
        return (rel, q)

    def result(self, ctx, inp):
        rs = self.result_sort
        if isinstance(rs, tuple):
            return tuple(ctx.fresh('ret_' + self.short(), s) for s in rs)
        return ctx.fresh('ret_' + self.short(), rs)

    def short(self):
        return self.name or frontend.parse_target(self.target)[1]

    def apply(self, I, func, args, kwargs):
        loc = I.bind_args(func, args, kwargs)
        inp = dict(loc)
        ctx = I.ctx
        pre = self.requires(inp)
        ctx.prove('call:%s/pre' % self.short(), pre, 'pre', {'callee': self.target})
        ctx.assume(pre)
        self.havoc(I, inp)
        res = self.result(ctx, inp)
        for nm, f in [c[:2] for c in self.ensures(inp, res, I)]:
            ctx.assume(f)
        ctx.trust_contract = getattr(ctx, 'trust_contract', set())
        ctx.trust_contract.add(self.target)
        return res

    def havoc(self, I, inp):
        pass

    # -- replay ----------------------------------------------------------
    def concretize(self, model, inp):
        out = {}
        for k, v in inp.items():
            out[k] = model_value(model, v)
        return out

    def replay(self, conc):
        """run the REAL function on concrete inputs; return (holds, detail).
        None means no concrete replay is available for this contract.
        Default: if the contract defines real(inp) (a call of the real function),
        evaluate the same ensures/on_raise clauses on its concrete outcome."""
        if not hasattr(self, 'real'):
            return None
        inp = revive(conc)
        try:
            res = self.real(inp)
        except Exception as e:     # the real code raised
            exc = type(e).__name__
            checks = self.on_raise(inp, exc, None)
            bad = [nm for nm, f in [c[:2] for c in checks] if not _truth(f)]
            return (not bad), dict(raised=exc, message=str(e)[:200], failed=bad)
        res = normalize(res)
        checks = self.ensures(inp, res, None)
        bad = [nm for nm, f in [c[:2] for c in checks] if not nm.startswith('lemma:') and not _truth(f)]
        return (not bad), dict(result=jsonable(res), failed=bad)


def _truth(f):
    if is_sym(f):
        f = z3.simplify(f)
        return z3.is_true(f)
    return bool(f)


def revive(x):
    """stored model -> contract inputs (objects get .attrs again)"""
    if isinstance(x, dict):
        if '__obj__' in x:
            return Obj(None, {k: revive(v) for k, v in x.items() if k != '__obj__'}, tag=x['__obj__'])
        return {k: revive(v) for k, v in x.items()}
    if isinstance(x, list):
        return tuple(revive(v) for v in x)
    if isinstance(x, float):
        return Fraction(x)
    return x


def normalize(r):
    if isinstance(r, float):
        return Fraction(r)
    if isinstance(r, (tuple, list)):
        return tuple(normalize(x) for x in r)
    try:
        import numpy as np
        if isinstance(r, np.integer):
            return int(r)
        if isinstance(r, np.floating):
            return Fraction(float(r))
    except ImportError:
        pass
    return r


def model_value(model, v):
    if is_sym(v):
        r = model.eval(v, model_completion=True)
        if z3.is_int_value(r):
            return r.as_long()
        if z3.is_rational_value(r):
            return Fraction(r.numerator_as_long(), r.denominator_as_long())
        if z3.is_true(r):
            return True
        if z3.is_false(r):
            return False
        if z3.is_algebraic_value(r):
            return float(r.approx(20).as_decimal(20).rstrip('?'))
        return str(r)
    if isinstance(v, Obj):
        return {'__obj__': v.tag, **{k: model_value(model, x) for k, x in v.attrs.items()}}
    if isinstance(v, (list, tuple)):
        return [model_value(model, x) for x in v]
    if isinstance(v, dict):
        return {str(k): model_value(model, x) for k, x in v.items()}
    if hasattr(v, 'model_value'):
        return v.model_value(model)
    if isinstance(v, (int, str, bool, type(None), Fraction, float)):
        return v
    return repr(v)


def jsonable(x):
    if isinstance(x, Fraction):
        return float(x) if x.denominator != 1 else int(x)
    if isinstance(x, dict):
        return {str(k): jsonable(v) for k, v in x.items()}
    if isinstance(x, (list, tuple)):
        return [jsonable(v) for v in x]
    if isinstance(x, (int, float, str, bool, type(None))):
        return x
    return repr(x)


# ---------------------------------------------------------------------------
# solving
# ---------------------------------------------------------------------------

def _smt2(pc, goal):
    s = z3.Solver()
    for c in pc:
        s.add(c)
    s.add(z3.Not(goal))
    return s.to_smt2()


def _run_cli(cmd, text, timeout_s):
    with tempfile.NamedTemporaryFile('w', suffix='.smt2', delete=False) as f:
        f.write(text)
        path = f.name
    try:
        p = subprocess.run(cmd + [path], capture_output=True, text=True, timeout=timeout_s + 5)
        out = (p.stdout or '').strip().splitlines()
        return out[0].strip() if out else 'unknown'
    except subprocess.TimeoutExpired:
        return 'unknown'
    except Exception:
        return 'unknown'
    finally:
        os.unlink(path)


def discharge(ob, timeout_ms=None):
    """check pc /\\ not goal.  unsat -> discharged."""
    timeout_ms = timeout_ms or z3_timeout_ms()
    goal = ob.goal
    t0 = time.time()
    if not is_sym(goal):
        if goal:
            ob.status, ob.solver = 'unsat', 'trivial'
            return ob
        goal = z3.BoolVal(False)
    s = z3.Solver()
    s.set('timeout', timeout_ms)
    for c in ob.pc:
        s.add(c)
    s.add(z3.Not(goal))
    cli = None
    cli_t = int(ob.meta.get('cli_timeout_s') or 90)
    _CLI = {'z3-4.8.12': ['/usr/bin/z3', '-T:%d' % cli_t], 'cvc5-1.0.3': ['/usr/bin/cvc5', '--tlimit=%d' % (cli_t * 1000)]}
    cli_name = ob.meta.get('prefer')
    if _BUDGET.get('deadline') and time.time() > _BUDGET['deadline'] and is_sym(goal):
        # the contract's time budget is used up: nothing more is attempted (undecided, never a verdict)
        ob.status, ob.solver, ob.time = 'unknown', 'none (time budget of the contract exhausted)', 0.0
        return ob
    if cli_name in _CLI and os.path.exists(_CLI[cli_name][0]):
        # portfolio: the older z3 (or cvc5) decides some quantified real-arithmetic obligations much faster (and vice
        # versa); it runs as a separate process while the API solver works; the first definite answer wins
        f = tempfile.NamedTemporaryFile('w', suffix='.smt2', delete=False)
        f.write(_smt2(ob.pc, goal))
        f.close()
        cli = (subprocess.Popen(_CLI[cli_name] + [f.name], stdout=subprocess.PIPE, stderr=subprocess.DEVNULL, text=True), f.name)
    if cli is None:
        r = s.check()
    else:
        import threading
        proc, fname = cli
        s.set('timeout', max(timeout_ms, min(40000, cli_t * 1000)))
        box = {}
        th = threading.Thread(target=lambda: box.__setitem__('r', s.check()))
        th.start()
        cli_res = None
        try:
            while th.is_alive():
                if cli_res is None and proc.poll() is not None:
                    out = proc.stdout.read() or ''
                    cli_res = (out.strip().splitlines() or ['unknown'])[0].strip()
                    if cli_res == 'unsat':
                        try:
                            s.ctx.interrupt()
                        except Exception:
                            pass
                th.join(0.05)
            r = box.get('r', z3.unknown)
            if r != z3.unsat and r != z3.sat:
                if cli_res is None:
                    try:
                        out, _ = proc.communicate(timeout=cli_t + 5)
                    except subprocess.TimeoutExpired:
                        proc.kill()
                        out = ''
                    cli_res = (out.strip().splitlines() or ['unknown'])[0].strip()
                if cli_res == 'unsat':
                    ob.status, ob.solver, ob.time = 'unsat', cli_name, time.time() - t0
                    return ob
        finally:
            if proc.poll() is None:
                proc.kill()
            try:
                proc.wait(timeout=5)
            except Exception:
                pass
            try:
                os.unlink(fname)
            except OSError:
                pass
    ob.solver = 'z3-%s' % z3.get_version_string()
    if r == z3.unsat:
        ob.status = 'unsat'
    elif r == z3.sat:
        ob.status = 'sat'
        ob.model = s.model()
        hint = ob.meta.get('small') if ob.meta else None
        if hint is not None and is_sym(hint):
            s.set('timeout', 5000)
            s.push()
            s.add(hint)
            if s.check() == z3.sat:
                ob.model = s.model()   # a small counter-example replays more easily
            s.pop()
    else:
        hint = ob.meta.get('small') if ob.meta else None
        if hint is not None and is_sym(hint):
            # a counter-model inside the small scope is a counter-model; quantifiers are easier there
            s.push()
            s.add(hint)
            if s.check() == z3.sat:
                ob.status = 'sat'
                ob.model = s.model()
                ob.time = time.time() - t0
                return ob
            s.pop()
        # abstraction: every product of two non-numeral terms is replaced by a fresh constant (the same product by the same
        # constant).  What is valid for arbitrary values of those constants is valid for the products, so an `unsat` of
        # the abstracted query is a proof; any other answer says nothing.
        try:
            apc, agoal, nabs = _abstract_products(list(ob.pc) + [goal])
        except Exception:
            nabs = 0
        if nabs:
            s2 = z3.Solver()
            s2.set('timeout', timeout_ms)
            for c in apc:
                s2.add(c)
            s2.add(z3.Not(agoal))
            if s2.check() == z3.unsat:
                ob.status, ob.solver = 'unsat', 'z3-%s' % z3.get_version_string()
                ob.meta['abstraction'] = '%d non-linear products treated as uninterpreted constants' % nabs
                ob.time = time.time() - t0
                return ob
        text = _smt2(ob.pc, goal)
        tsec = timeout_ms // 1000
        ob.status = 'unknown'
        for nm, cmd in (('z3-4.8.12', ['/usr/bin/z3', '-T:%d' % (2 * tsec)]),
                        ('cvc5-1.0.3', ['/usr/bin/cvc5', '--tlimit=%d' % timeout_ms])):
            if not os.path.exists(cmd[0]):
                continue
            res = _run_cli(cmd, text, tsec)
            if res == 'unsat':
                ob.status, ob.solver = 'unsat', nm
                break
            if res == 'sat':
                ob.status, ob.solver = 'sat', nm
                break
    ob.time = time.time() - t0
    if ob.status == 'unsat' and tier() == 'thorough' and ob.solver.startswith('z3-5') and is_sym(ob.goal):
        # dual-solver confirmation
        res = _run_cli(['/usr/bin/cvc5', '--tlimit=%d' % timeout_ms], _smt2(ob.pc, goal), timeout_ms // 1000)
        ob.meta['confirmed_by_cvc5'] = res
        if res == 'sat':
            ob.status = 'disagree'
    return ob


def _nonlinear(f):
    """does the formula contain a product of two non-numeral terms, a division/modulo by a non-numeral, or a quantifier?"""
    seen = set()
    try:
        f = z3.simplify(f)        # folds ToReal(<numeral>) and the like, which would otherwise look like symbolic factors
    except Exception:
        pass
    stack = [f]
    while stack:
        t = stack.pop()
        if t.get_id() in seen:
            continue
        seen.add(t.get_id())
        if z3.is_quantifier(t):
            return True
        if z3.is_app(t):
            k = t.decl().kind()
            ch = t.children()
            if k == z3.Z3_OP_MUL and sum(1 for c in ch if not (z3.is_int_value(c) or z3.is_rational_value(c))) >= 2:
                return True
            if k in (z3.Z3_OP_DIV, z3.Z3_OP_IDIV, z3.Z3_OP_MOD, z3.Z3_OP_REM) and not (z3.is_int_value(ch[1]) or z3.is_rational_value(ch[1])):
                return True
            stack.extend(ch)
    return False


_BUDGET = {'deadline': None}


def _abstract_products(formulas):
    """replace each maximal product of >= 2 non-numeral factors by a fresh constant of its sort; quantified formulas are
    left as they are (their bound variables cannot be abstracted this way).  Returns (hypotheses, goal, number abstracted)"""
    table = {}
    cache = {}

    def nonnum(c):
        return not (z3.is_int_value(c) or z3.is_rational_value(c))

    def walk(t):
        k = t.get_id()
        if k in cache:
            return cache[k]
        if z3.is_quantifier(t) or not z3.is_app(t):
            r = t
        else:
            ch = t.children()
            if t.decl().kind() == z3.Z3_OP_MUL and sum(1 for c in ch if nonnum(c)) >= 2 and not _has_bound_var(t):
                nums = [c for c in ch if not nonnum(c)]
                key = z3.simplify(z3.Product(*[c for c in ch if nonnum(c)])) if len([c for c in ch if nonnum(c)]) > 1 else t
                kk = key.get_id()
                if kk not in table:
                    table[kk] = (key, z3.FreshConst(t.sort(), 'prod'))
                r = table[kk][1]
                for n_ in nums:
                    r = n_ * r
            elif ch:
                nch = [walk(c) for c in ch]
                r = t.decl()(*nch) if any(a is not b for a, b in zip(nch, ch)) else t
            else:
                r = t
        cache[k] = r
        return r
    out = [walk(f) for f in formulas]
    return out[:-1], out[-1], len(table)


def _has_bound_var(t):
    stack, seen = [t], set()
    while stack:
        x = stack.pop()
        if x.get_id() in seen:
            continue
        seen.add(x.get_id())
        if z3.is_var(x):
            return True
        if z3.is_app(x):
            stack.extend(x.children())
    return False


def sat_check(pc, timeout_ms=5000):
    s = z3.Solver()
    s.set('timeout', timeout_ms)
    for c in pc:
        s.add(c)
    return str(s.check())


# ---------------------------------------------------------------------------
# verification of one contract
# ---------------------------------------------------------------------------

class JobResult:
    def __init__(self, contract):
        self.contract = contract
        self.target = contract.target
        self.prop = contract.prop
        self.obligations = []      # dicts
        self.paths = 0
        self.undecided = []        # reasons
        self.errors = []
        self.trusted = set()
        self.inlined = set()
        self.havocked = set()
        self.dropped = set()
        self.callee_contracts = set()
        self.function = None
        self.violations = []
        self.canary = None
        self.covers = 0
        self.time = 0.0

    def to_dict(self):
        return dict(target=self.target, prop=self.prop, name=self.contract.short(),
                    obligations=self.obligations, paths=self.paths, undecided=self.undecided,
                    errors=self.errors, trusted=sorted(self.trusted), inlined=sorted(self.inlined),
                    havocked=sorted(set(self.havocked)), dropped=sorted(self.dropped),
                    callee_contracts=sorted(self.callee_contracts), function=self.function,
                    violations=self.violations, canary=self.canary, covers=self.covers,
                    time=self.time, assumptions=list(self.contract.assumptions))


def make_func(I, contract, inp):
    rel, qual = contract.key()
    mod = frontend.load(rel)
    node, cls = mod.find(qual)
    owner = I.classref(mod, cls) if cls is not None and cls is not node else None
    fn = FuncRef(mod, node, owner=owner, qual=qual)
    return mod, node, fn


_EXPLORE_ONLY = {'on': False}


def enumerate_paths(contract):
    """decision prefixes of all paths (exploration only, nothing is discharged)"""
    _EXPLORE_ONLY['on'] = True
    try:
        r = verify(contract)
    finally:
        _EXPLORE_ONLY['on'] = False
    return r.prefixes


def verify(contract, max_paths=None, only_prefix=None, path_index=0):
    """explore all paths of the target under the contract, discharge obligations
    (only_prefix: execute exactly that path -- used to spread the paths of one contract over worker processes)"""
    t0 = time.time()
    res = JobResult(contract)
    if not _EXPLORE_ONLY['on']:
        # per-contract time budget (a broken tree must not keep the check busy for hours: what is left is undecided)
        # (an explicit budget is sized for the quick tier; the thorough tier has 60 s solver time-outs and confirms every proof
        # with a second solver, so it gets six times as much -- run #7 ran one contract of C11 out of its 200 s by a few seconds)
        b = getattr(contract, 'budget_s', None)
        b = (b * (6 if tier() == 'thorough' else 1)) if b else (420 if tier() != 'thorough' else 3600)
        _BUDGET['deadline'] = t0 + b
    rel, qual = contract.key()
    try:
        mod = frontend.load(rel)
        node, cls = mod.find(qual)
    except (KeyError, OSError, SyntaxError) as e:
        res.undecided.append('cannot bind contract to code: %s' % e)
        res.time = time.time() - t0
        return res
    res.function = dict(mod.segment(node), qualname=qual)
    summaries = {}
    loopspecs = {contract.key(): contract.loops}
    for u in contract.uses:
        summaries[u.key()] = u
    for k, v in getattr(contract, 'extra_loops', {}).items():
        loopspecs[k] = v
    work = [[]] if only_prefix is None else [list(only_prefix)]
    res.prefixes = []
    seen_names = {}
    max_paths = max_paths or contract.max_paths
    canary_done = False
    while work:
        prefix = work.pop()
        if res.paths >= max_paths:
            res.undecided.append('path budget %d exceeded' % max_paths)
            break
        if not _EXPLORE_ONLY['on'] and _BUDGET.get('deadline') and time.time() > _BUDGET['deadline']:
            res.undecided.append('time budget of the contract exhausted with %d paths still to explore' % (len(work) + 1))
            break
        ctx = Ctx(prefix, solver_timeout_ms=z3_timeout_ms())
        ctx.prefer = getattr(contract, 'prefer_solver', None)
        ctx.cli_timeout_s = getattr(contract, 'cli_timeout_s', None)
        I = Interp(ctx, contracts=summaries, loop_specs=loopspecs, target=contract.key())
        outcome = None
        inp = None
        try:
            inp = contract.inputs(ctx, I)
            ctx.assume(contract.requires(inp))
            if not canary_done:
                canary_done = True
                r = sat_check(ctx.pc)
                if r == 'unknown':
                    # quantified preconditions: look for a small witness instead
                    try:
                        sm = contract.small(inp)
                    except Exception:
                        sm = None
                    if sm is not None:
                        r = sat_check(list(ctx.pc) + [sm], 20000)
                res.canary = r     # must be 'sat': the precondition is satisfiable
            owner = I.classref(mod, cls) if cls is not None and cls is not node else None
            fn = FuncRef(mod, node, owner=owner, qual=qual)
            ca = contract.call_args(inp)
            if ca is None:
                a = node.args
                names = [p.arg for p in a.posonlyargs + a.args]
                args = []
                kwargs = {}
                for nme in names:
                    if nme in inp:
                        args.append(inp[nme])
                    else:
                        break
                for nme in names[len(args):]:
                    if nme in inp:
                        kwargs[nme] = inp[nme]
                for p in a.kwonlyargs:
                    if p.arg in inp:
                        kwargs[p.arg] = inp[p.arg]
                if a.vararg is not None and a.vararg.arg in inp:
                    args.extend(inp[a.vararg.arg])
                if a.kwarg is not None and a.kwarg.arg in inp:
                    kwargs.update(inp[a.kwarg.arg])
            else:
                args, kwargs = ca
            try:
                r = I.call_function(fn, args, kwargs)
                outcome = ('return', r)
            except PyExc as e:
                outcome = ('raise', e.cls)
            if outcome[0] == 'return':
                clauses, dkind = contract.ensures(inp, outcome[1], I), 'post'
            else:
                clauses, dkind = contract.on_raise(inp, outcome[1], I), 'post-raise'
            staged = []
            for clause in clauses:
                # staged: a clause already stated is available as a lemma to the next one
                # (a refuted lemma is not assumed and is not itself a violation)
                nm, f = clause[0], clause[1]
                opts = clause[2] if len(clause) > 2 else {}
                kind = 'lemma' if nm.startswith('lemma:') else dkind
                ctx.prove(nm, f, kind)
                ob = ctx.obligations[-1]
                add = f
                if 'generic' in opts:
                    # a formula over fresh constants, proved with NO hypotheses (so it is valid for all values of
                    # those constants); the instance obtained by substituting terms for the constants is then assumed
                    ob.pc = []
                    add = z3.substitute(f, *[(a, b) for a, b in opts['generic']])
                    ob.meta['instance'] = _show(add)
                elif 'hyps' in opts:
                    # proved from fewer hypotheses (sound: dropping hypotheses only weakens what may be used):
                    # the listed facts, each of which must be on the path (path condition or an established staged
                    # clause), plus -- with linear=True -- every linear fact of the path
                    keep = []
                    for kf in opts['hyps']:
                        if not any(kf.eq(c) for c in ctx.pc if is_sym(c)):
                            raise Unsupported('clause %r uses a fact that is not on the path: %s' % (nm, _show(kf)))
                        keep.append(kf)
                    full_pc = ob.pc
                    ob.pc = ([c for c in ctx.pc if is_sym(c) and not _nonlinear(c)] if opts.get('linear') else []) + keep
                    ob.meta['hypotheses'] = '%s%d listed facts' % ('linear path facts + ' if opts.get('linear') else '', len(keep))
                    gen = opts.get('generalise') or []
                    if gen:
                        # generalisation: each listed term is replaced by a fresh constant in every hypothesis and in
                        # the goal (what holds for an arbitrary value holds for the term)
                        pairs = [(t, z3.FreshConst(t.sort(), 'gen')) for t in gen]
                        ob.pc = [z3.substitute(c, *pairs) for c in ob.pc]
                        if is_sym(ob.goal):
                            ob.goal = z3.substitute(ob.goal, *pairs)
                        ob.meta['hypotheses'] += ', %d terms generalised' % len(gen)
                if _EXPLORE_ONLY['on']:
                    continue
                if dkind == 'post-raise' and kind != 'lemma' and not opts:
                    continue          # discharged with the other obligations of the path below
                try:
                    ob.meta['small'] = contract.small(inp)
                except Exception:
                    pass
                if getattr(contract, 'prefer_solver', None):
                    ob.meta['prefer'] = contract.prefer_solver
                discharge(ob)
                if 'hyps' in opts and ob.status != 'unsat':
                    # nothing is concluded from the reduced hypothesis set except a proof
                    ob.pc, ob.status, ob.model, ob.goal = full_pc, None, None, f
                    ob.meta['hypotheses'] = 'all (the reduced set did not prove it)'
                    discharge(ob)
                ob.meta.pop('small', None)
                if is_sym(add) and ob.status == 'unsat':
                    ctx.pc.append(add)
                    staged.append(add)
        except PathEnd:
            pass
        except Unsupported as e:
            res.undecided.append('UNSUPPORTED %s' % (e.args[0] if e.args else e))
        except RecursionError:
            res.undecided.append('UNSUPPORTED recursion too deep')
        except PyExc as e:
            res.undecided.append('exception %s while building inputs' % e.cls)
        except Exception as e:          # engine bug: never a verdict
            res.errors.append('engine error: %s\n%s' % (e, traceback.format_exc(limit=6)))
        res.paths += 1
        res.prefixes.append(list(ctx.trace))
        if only_prefix is None:
            for alt in ctx.alts:
                work.append(alt)
        if _EXPLORE_ONLY['on']:
            continue
        res.trusted |= ctx.trusted
        res.inlined |= ctx.inlined
        res.havocked |= set(ctx.havocked)
        res.dropped |= ctx.dropped
        res.callee_contracts |= getattr(ctx, 'trust_contract', set())
        # path cover
        if ctx.pc and sat_check(ctx.pc) == 'sat' or not ctx.pc:
            res.covers += 1
        for ob in ctx.obligations:
            if any(ob.name.startswith(pfx) for pfx in getattr(contract, 'ignore', ())):
                continue      # obligations of clauses this contract does not claim
            base = '%s/%s/%s' % (contract.prop, contract.short(), ob.name)
            k = seen_names.get(base, 0)
            seen_names[base] = k + 1
            oname = '%s@path%d' % (base, k + path_index)
            if ob.status is None:
                try:
                    sm = contract.small(inp) if inp is not None else None
                except Exception:
                    sm = None
                if sm is not None:
                    ob.meta['small'] = sm
                if getattr(contract, 'prefer_solver', None):
                    ob.meta['prefer'] = contract.prefer_solver
                if getattr(contract, 'cli_timeout_s', None):
                    ob.meta['cli_timeout_s'] = contract.cli_timeout_s
                discharge(ob)
                ob.meta.pop('small', None)
            d = dict(name=oname, kind=ob.kind, status=ob.status, solver=ob.solver,
                     time=round(ob.time, 4), formula=_show(ob.goal), npc=len(ob.pc))
            if ob.meta:
                d['meta'] = jsonable(ob.meta)
            if ob.kind == 'lemma':
                if ob.status != 'unsat':
                    d['note'] = 'lemma not established; not used'
                res.obligations.append(d)
                continue
            if ob.status == 'sat':
                conc = None
                if ob.model is not None and inp is not None:
                    try:
                        conc = contract.concretize(ob.model, inp)
                    except Exception as e:
                        conc = None
                        d['concretize_error'] = str(e)
                elif ob.model is None and inp is not None and hasattr(contract, 'concretize_without_model'):
                    # refuted by a command-line solver (no model through the API): the contract's canonical inputs
                    conc = contract.concretize_without_model(inp)
                d['model'] = jsonable(conc) if conc is not None else None
                d['smt_model'] = str(ob.model)[:2000] if ob.model is not None else None
                res.violations.append(d)
            elif ob.status in ('unknown', 'disagree'):
                res.undecided.append('obligation %s: solver %s' % (oname, ob.status))
            res.obligations.append(d)
    if not res.obligations and not res.undecided and not res.errors and only_prefix is None:
        # (one path of a contract split over worker processes may be infeasible; the checker flags a contract whose
        # merged result has no obligation)
        res.errors.append('zero obligations generated')
    if res.canary != 'sat' and not res.errors and not res.undecided:
        res.errors.append('vacuous contract: requires is %s' % res.canary)
    res.time = time.time() - t0
    return res


def _show(g):
    if is_sym(g):
        try:
            s = str(z3.simplify(g))
        except Exception:
            s = str(g)
        s = ' '.join(s.split())
        return s[:400]
    return repr(g)
