"""Value operations with two interpretations.

Every helper dispatches on its arguments: on z3 terms it builds a formula
(static interpretation, used by the symbolic executor and by contracts at
proof time); on plain Python values it computes (run-time interpretation, used
by replay, by the CPython cross-check and by the bounded harness).

Encoding assumptions (reported in evidence as A-REAL / A-INT):
  * Python int  -> z3 Int (unbounded, exact).
  * Python float -> z3 Real; concrete floats are carried as Fractions of their
    *decimal source text* / exact binary value, so arithmetic is mathematical.
  * //, %, int(), round() follow Python semantics and are encoded explicitly.
"""
from fractions import Fraction
import math
import z3

A_REAL = "A-REAL: Python/numpy floats are treated as mathematical reals (z3 Real); rounding is not modelled"


class PyExc(Exception):
    """An exception raised by the *interpreted* program."""

    def __init__(self, cls, msg=None):
        Exception.__init__(self, cls)
        self.cls = cls
        self.msg = msg


class Unsupported(Exception):
    """Construct outside the verified subset -> undecided (exit 2)."""


def is_sym(x):
    return isinstance(x, z3.ExprRef)


def is_num(x):
    return isinstance(x, (int, Fraction, float)) and not isinstance(x, bool) or (
        is_sym(x) and (z3.is_int(x) or z3.is_real(x)))


def conc(x):
    """Normalise a concrete python number: floats become exact Fractions."""
    if isinstance(x, bool):
        return x
    if isinstance(x, float):
        if math.isnan(x) or math.isinf(x):
            return x
        return Fraction(x)
    return x


def lit_float(text):
    """Float literal from source text -> exact decimal Fraction (A-REAL)."""
    try:
        return Fraction(text)
    except Exception:
        return Fraction(float(text))


def to_z3(x):
    if is_sym(x):
        return x
    if isinstance(x, bool):
        return z3.BoolVal(x)
    if isinstance(x, int):
        return z3.IntVal(x)
    if isinstance(x, Fraction):
        return z3.RealVal(x)
    if isinstance(x, float):
        return z3.RealVal(Fraction(x))
    raise Unsupported("cannot lift %r to z3" % (x,))


def is_realkind(x):
    if is_sym(x):
        return z3.is_real(x)
    return isinstance(x, (Fraction, float))


def is_intkind(x):
    if is_sym(x):
        return z3.is_int(x)
    return isinstance(x, int) and not isinstance(x, bool)


def is_boolkind(x):
    if is_sym(x):
        return z3.is_bool(x)
    return isinstance(x, bool)


def _b2i(x):
    """bools used in arithmetic"""
    if isinstance(x, bool):
        return int(x)
    if is_sym(x) and z3.is_bool(x):
        return z3.If(x, 1, 0)
    return x


def to_real(x):
    x = _b2i(x)
    if is_sym(x):
        return z3.ToReal(x) if z3.is_int(x) else x
    return Fraction(x)


def _arith(a, b, f):
    a = _b2i(conc(a))
    b = _b2i(conc(b))
    if not is_sym(a) and not is_sym(b):
        return f(a, b)
    return f(to_z3(a), to_z3(b))


def add(a, b):
    return _arith(a, b, lambda x, y: x + y)


def sub(a, b):
    return _arith(a, b, lambda x, y: x - y)


def mul(a, b):
    return _arith(a, b, lambda x, y: x * y)


def neg(a):
    a = _b2i(conc(a))
    return -a


def truediv(a, b):
    """Python `/` : always real. Caller is responsible for b != 0."""
    a = to_real(conc(a))
    b = to_real(conc(b))
    if not is_sym(a) and not is_sym(b):
        if b == 0:
            raise PyExc('ZeroDivisionError')
        return Fraction(a) / Fraction(b)
    return to_z3(a) / to_z3(b)


def floor_(x):
    """math.floor -> integer"""
    x = conc(x)
    if is_sym(x):
        return z3.ToInt(x) if z3.is_real(x) else x
    return math.floor(x)


def ceil_(x):
    x = conc(x)
    if is_sym(x):
        return -z3.ToInt(-x) if z3.is_real(x) else x
    return math.ceil(x)


def trunc(x):
    """int(x): truncation toward zero"""
    x = _b2i(conc(x))
    if is_sym(x):
        if z3.is_int(x):
            return x
        return z3.If(x >= 0, z3.ToInt(x), -z3.ToInt(-x))
    return int(x)


def floordiv(a, b):
    """Python `//` with floor semantics for every sign combination."""
    a = _b2i(conc(a))
    b = _b2i(conc(b))
    if not is_sym(a) and not is_sym(b):
        if b == 0:
            raise PyExc('ZeroDivisionError')
        return a // b
    if is_intkind(a) and is_intkind(b):
        za, zb = to_z3(a), to_z3(b)
        if not is_sym(b):
            # z3 div is Euclidean: equals floor for positive divisor
            return za / zb if b > 0 else (-za) / z3.IntVal(-b)
        return z3.If(zb > 0, za / zb, (-za) / (-zb))
    # real floor division: result is a float with integral value
    q = to_z3(to_real(a)) / to_z3(to_real(b))
    return z3.ToReal(z3.ToInt(q))


def mod(a, b):
    """Python `%` : a - b*floor(a/b)"""
    a = _b2i(conc(a))
    b = _b2i(conc(b))
    if not is_sym(a) and not is_sym(b):
        if b == 0:
            raise PyExc('ZeroDivisionError')
        return a % b
    if is_intkind(a) and is_intkind(b) and not is_sym(b) and b > 0:
        return to_z3(a) % z3.IntVal(b)
    return sub(a, mul(b, floordiv(a, b)))


def pow_(a, b):
    a = conc(a)
    b = conc(b)
    if not is_sym(a) and not is_sym(b):
        r = a ** b
        return conc(r)
    if not is_sym(b) and isinstance(b, int) and b >= 0:
        r = 1
        for _ in range(b):
            r = mul(r, a)
        return r
    if not is_sym(a) and is_sym(b) and a > 0:
        # a ** b with a symbolic exponent: an uninterpreted function of the exponent (contracts supply the facts they need)
        f = z3.Function('pow_%s' % str(a).replace('/', '_').replace('.', '_'), z3.RealSort(), z3.RealSort())
        return f(to_z3(to_real(b)))
    raise Unsupported("symbolic exponent")


def eq(a, b):
    a = conc(a)
    b = conc(b)
    if isinstance(a, (tuple, list)) and isinstance(b, (tuple, list)):
        if type(a) is not type(b) or len(a) != len(b):
            return False
        return And(*[eq(x, y) for x, y in zip(a, b)])
    if not is_sym(a) and not is_sym(b):
        return a == b
    if isinstance(a, (str, type(None))) or isinstance(b, (str, type(None))):
        return False  # a symbol of numeric sort never equals a str / None
    za, zb = to_z3(_b2i(a) if not is_boolkind(b) else a), to_z3(_b2i(b) if not is_boolkind(a) else b)
    return za == zb


def ne(a, b):
    return Not(eq(a, b))


def _cmp(a, b, f):
    a = _b2i(conc(a))
    b = _b2i(conc(b))
    if not is_sym(a) and not is_sym(b):
        return f(a, b)
    return f(to_z3(a), to_z3(b))


def lt(a, b):
    return _cmp(a, b, lambda x, y: x < y)


def le(a, b):
    return _cmp(a, b, lambda x, y: x <= y)


def gt(a, b):
    return _cmp(a, b, lambda x, y: x > y)


def ge(a, b):
    return _cmp(a, b, lambda x, y: x >= y)


def And(*xs):
    out = []
    for x in xs:
        if is_sym(x):
            out.append(x)
        elif not x:
            return False
    if not out:
        return True
    return z3.And(*out) if len(out) > 1 else out[0]


def Or(*xs):
    out = []
    for x in xs:
        if is_sym(x):
            out.append(x)
        elif x:
            return True
    if not out:
        return False
    return z3.Or(*out) if len(out) > 1 else out[0]


def Not(x):
    if is_sym(x):
        return z3.Not(x)
    return not x


def Implies(a, b):
    return Or(Not(a), b)


def ite(c, a, b):
    if not is_sym(c):
        return a if c else b
    a = conc(a)
    b = conc(b)
    if is_realkind(a) or is_realkind(b):
        a, b = to_real(a), to_real(b)
    return z3.If(c, to_z3(a), to_z3(b))


def min_(a, b):
    return ite(le(a, b), a, b)


def max_(a, b):
    return ite(ge(a, b), a, b)


def abs_(a):
    return ite(ge(a, 0), a, neg(a))


def round_half_even(x):
    """np.round / round(): nearest integer, ties to even (value kept real)."""
    x = conc(x)
    if not is_sym(x):
        return Fraction(round(Fraction(x)))
    if z3.is_int(x):
        return x
    f = z3.ToInt(x)
    d = x - z3.ToReal(f)
    half = z3.RealVal(Fraction(1, 2))
    r = z3.If(d < half, f, z3.If(d > half, f + 1, z3.If(f % 2 == 0, f, f + 1)))
    return z3.ToReal(r)


def truthy(x):
    """Python truth value of a (possibly symbolic) value, as bool / z3 Bool."""
    if is_sym(x):
        if z3.is_bool(x):
            return x
        return x != 0
    return bool(x)


# ---- spec helpers shared by contracts ---------------------------------------

def days_before_year(y):
    """proleptic Gregorian: days from 0001-01-01 to y-01-01"""
    y1 = sub(y, 1)
    return add(sub(add(mul(365, y1), floordiv(y1, 4)), floordiv(y1, 100)), floordiv(y1, 400))


def is_leap(y):
    return And(eq(mod(y, 4), 0), Or(ne(mod(y, 100), 0), eq(mod(y, 400), 0)))


def simplify(x):
    if is_sym(x):
        return z3.simplify(x)
    return x
