"""datetime / timedelta model (trusted): instants are seconds on the proleptic Gregorian
time line (real-valued; microsecond rounding of timedelta is ignored under A-REAL)."""
import re
from fractions import Fraction
import z3

from . import sym, models
from .sym import PyExc, Unsupported, is_sym
from .exec import Builtin, BoundModel, FmtStr, Opaque

T_DT = 'datetime: proleptic Gregorian day-number arithmetic; timedelta linear in its arguments (microsecond rounding ignored)'

_DBM = [0, 31, 59, 90, 120, 151, 181, 212, 243, 273, 304, 334]   # days before month, non-leap


def days_before_month(y, m):
    """days in year y before the first of month m"""
    if not is_sym(m):
        base = _DBM[m - 1]
        return sym.add(base, sym.ite(sym.And(m > 2, sym.is_leap(y)), 1, 0)) if m > 2 else base
    r = _DBM[11]
    for k in range(10, -1, -1):
        r = sym.ite(sym.eq(m, k + 1), _DBM[k], r)
    return sym.add(r, sym.ite(sym.And(sym.gt(m, 2), sym.is_leap(y)), 1, 0))


def days_in_month(y, m):
    dim = [31, 28, 31, 30, 31, 30, 31, 31, 30, 31, 30, 31]
    if not is_sym(m):
        return sym.add(dim[m - 1], sym.ite(sym.is_leap(y), 1, 0)) if m == 2 else dim[m - 1]
    r = dim[11]
    for k in range(10, -1, -1):
        v = dim[k] if k != 1 else sym.add(28, sym.ite(sym.is_leap(y), 1, 0))
        r = sym.ite(sym.eq(m, k + 1), v, r)
    return r


def days_in_year(y):
    return sym.ite(sym.is_leap(y), 366, 365)


class TD:
    def __init__(self, sec):
        self.sec = sec

    def ite_with(self, c, a, b):
        return TD(sym.ite(c, a.sec, b.sec))

    def model_value(self, model):
        from .verify import model_value
        return {'timedelta_seconds': model_value(model, self.sec)}


class DT:
    """instant = seconds since 0001-01-01T00:00 ; optional calendar fields kept when known"""

    def __init__(self, sec, tz=None, fields=None):
        self.sec = sec
        self.tz = tz
        self.fields = fields or {}

    def ite_with(self, c, a, b):
        return DT(sym.ite(c, a.sec, b.sec), a.tz)

    def model_value(self, model):
        from .verify import model_value
        return {'datetime_seconds_since_0001': model_value(model, self.sec)}


def make_dt(I, y, mo, d, h=0, mi=0, s=0, us=0, tz=None, check=True):
    """datetime(y, mo, d, ...) ; raises ValueError outside the valid ranges"""
    valid = sym.And(sym.ge(y, 1), sym.le(y, 9999), sym.ge(mo, 1), sym.le(mo, 12), sym.ge(d, 1),
                    sym.le(d, days_in_month(y, mo)) if is_sym(mo) or is_sym(y) or is_sym(d) else True,
                    sym.ge(h, 0), sym.lt(h, 24), sym.ge(mi, 0), sym.lt(mi, 60), sym.ge(s, 0), sym.lt(s, 60))
    if check:
        if not is_sym(valid):
            if not valid:
                raise PyExc('ValueError')
            if not any(is_sym(x) for x in (y, mo, d)):
                import calendar
                if d > calendar.monthrange(y, mo)[1]:
                    raise PyExc('ValueError')
        elif getattr(I, 'pure', False):
            mi_ = getattr(I, 'map_index', None)
            if mi_ is not None:
                probe, n = mi_
                I.ctx.prove('call:datetime/pre:valid-fields[each element]',
                            sym.Implies(sym.And(sym.ge(probe, 0), sym.lt(probe, n)), valid), 'pre', {'callee': 'datetime.datetime'})
        else:
            if not I.ctx.branch(valid):
                raise PyExc('ValueError')
    days = sym.add(sym.add(sym.days_before_year(y), days_before_month(y, mo)), sym.sub(d, 1))
    sec = sym.add(sym.mul(days, 86400), sym.add(sym.add(sym.mul(h, 3600), sym.mul(mi, 60)), sym.add(s, sym.truediv(us, 1000000) if us != 0 else 0)))
    return DT(sec, tz, dict(year=y, month=mo, day=d, hour=h, minute=mi, second=s))


def instant_yyyyjjj(date, time):
    """spec: the instant of IOAPI flags YYYYJJJ / HHMMSS (seconds since 0001-01-01)"""
    y = sym.floordiv(date, 1000)
    j = sym.mod(date, 1000)
    h = sym.floordiv(time, 10000)
    m = sym.mod(sym.floordiv(time, 100), 100)
    s = sym.mod(time, 100)
    days = sym.add(sym.days_before_year(y), sym.sub(j, 1))
    return sym.add(sym.mul(days, 86400), sym.add(sym.add(sym.mul(h, 3600), sym.mul(m, 60)), s))


def _dt_ctor(I, args, kw):
    I.ctx.trust(T_DT)
    names = ['year', 'month', 'day', 'hour', 'minute', 'second', 'microsecond', 'tzinfo']
    vals = dict(zip(names, args))
    vals.update(kw)
    if 'year' not in vals or 'month' not in vals or 'day' not in vals:
        raise PyExc('TypeError')
    return make_dt(I, vals['year'], vals['month'], vals['day'], vals.get('hour', 0), vals.get('minute', 0),
                   vals.get('second', 0), vals.get('microsecond', 0), vals.get('tzinfo'))


def _date_ctor(I, args, kw):
    I.ctx.trust(T_DT)
    y, m, d = args
    return make_dt(I, y, m, d)


_TD_UNITS = {'days': 86400, 'seconds': 1, 'microseconds': Fraction(1, 1000000), 'milliseconds': Fraction(1, 1000),
             'minutes': 60, 'hours': 3600, 'weeks': 604800}


def _td_ctor(I, args, kw):
    I.ctx.trust(T_DT)
    names = ['days', 'seconds', 'microseconds', 'milliseconds', 'minutes', 'hours', 'weeks']
    vals = dict(zip(names, args))
    for k in kw:
        if k not in _TD_UNITS:
            raise PyExc('TypeError')
    vals.update(kw)
    sec = 0
    for k, v in vals.items():
        from .nparr import SArr
        if isinstance(v, SArr):
            raise PyExc('TypeError')
        sec = sym.add(sec, sym.mul(v, _TD_UNITS[k]))
    return TD(sec)


models._REG['datetime.datetime'] = Builtin('datetime.datetime', _dt_ctor, T_DT)
models._REG['datetime.date'] = Builtin('datetime.date', _date_ctor, T_DT)
models._REG['datetime.timedelta'] = Builtin('datetime.timedelta', _td_ctor, T_DT)


class _TZ:
    def __init__(self, name):
        self.name = name


UTC = _TZ('utc')


class _TimezoneMod:
    pass


def _tz_lookup(I, obj, name):
    return None


models._REG['datetime.timezone'] = _TZ('timezone')
models._REG['datetime.timezone.utc'] = UTC


def _strptime(I, args, kw):
    """datetime.strptime(<'%07d %06d+0000' % (jdate, hhmmss)>, '%Y%j %H%M%S%z')"""
    s, fmt = args
    if isinstance(s, FmtStr) and s.fmt == '%07d %06d+0000' and fmt == '%Y%j %H%M%S%z':
        I.ctx.trust("datetime.strptime('%Y%j %H%M%S%z') of '%07d %06d+0000' % (YYYYJJJ, HHMMSS): year/day-of-year/time fields, ValueError when a field is out of range")
        jdate, hhmmss = s.args
        y = sym.floordiv(jdate, 1000)
        j = sym.mod(jdate, 1000)
        h = sym.floordiv(hhmmss, 10000)
        m = sym.mod(sym.floordiv(hhmmss, 100), 100)
        sec = sym.mod(hhmmss, 100)
        valid = sym.And(sym.ge(jdate, 1000), sym.le(y, 9999), sym.ge(j, 1), sym.le(j, days_in_year(y)),
                        sym.ge(hhmmss, 0), sym.lt(h, 24), sym.lt(m, 60), sym.lt(sec, 60))
        if not I.ctx.branch(valid):
            raise PyExc('ValueError')
        days = sym.add(sym.days_before_year(y), sym.sub(j, 1))
        return DT(sym.add(sym.mul(days, 86400), sym.add(sym.add(sym.mul(h, 3600), sym.mul(m, 60)), sec)), UTC)
    raise Unsupported('strptime %r %r' % (s, fmt))


models._REG['datetime.datetime.strptime'] = Builtin('datetime.datetime.strptime', _strptime)


def _now(I, args, kw):
    """the wall clock: an arbitrary instant between years 1 and 9999"""
    t = I.ctx.fresh('now')
    I.ctx.assume(sym.And(sym.ge(t, 0), sym.lt(t, sym.mul(sym.days_before_year(9999), 86400))))
    return DT(t, None)


for _nm in ('now', 'today', 'utcnow'):
    models._REG['datetime.datetime.' + _nm] = Builtin('datetime.datetime.' + _nm, _now, 'datetime.now(): an arbitrary instant (wall clock)')


_YEAR_OF = z3.Function('year_of_day', z3.IntSort(), z3.IntSort())
_DOY_OF = z3.Function('doy_of_day', z3.IntSort(), z3.IntSort())


class DecText:
    """decimal text produced by strftime: only int() of it is modelled"""

    def __init__(self, value, fmt):
        self.value, self.fmt = value, fmt


T_STRFTIME = ("datetime.strftime('%Y%j') / ('%H%M%S'): the unique year Y in 1..9999 and day-of-year J in 1..len(Y) with "
              "days_before_year(Y) + J - 1 = floor(seconds / 86400); hour, minute, second of the remaining seconds (fractions dropped)")


_ARITH_OK = {}


def _validated(name, build):
    """a redundant arithmetic fact handed to the solver as a hint is first PROVED generically (once per process) by z3
    over fresh constants; it is only ever used as an instance of that theorem"""
    if name not in _ARITH_OK:
        consts, hyp, concl = build()
        s_ = z3.Solver()
        s_.set('timeout', 20000)
        s_.add(hyp, z3.Not(concl))
        _ARITH_OK[name] = (s_.check() == z3.unsat, consts, hyp, concl)
    ok, consts, hyp, concl = _ARITH_OK[name]
    return ok, consts, hyp, concl


def _hint(I, name, build, actual):
    ok, consts, hyp, concl = _validated(name, build)
    if not ok:
        return
    inst = z3.substitute(z3.Implies(hyp, concl), *[(c, sym.to_z3(a)) for c, a in zip(consts, actual)])
    I.ctx.assume(inst)


def _th_daysplit():
    w, d, r = z3.Ints('th_w th_d th_r')
    return [w, d, r], z3.And(d == w / 86400, r == w % 86400), z3.And(w == d * 86400 + r, r >= 0, r < 86400)


def _th_hms():
    r, h, m, s_, t = z3.Ints('th_r th_h th_m th_s th_t')
    hyp = z3.And(r >= 0, r < 86400, h == r / 3600, m == (r / 60) % 60, s_ == r % 60, t == h * 10000 + m * 100 + s_)
    concl = z3.And(h >= 0, h < 24, m >= 0, m < 60, s_ >= 0, s_ < 60, r == h * 3600 + m * 60 + s_,
                   t / 10000 == h, (t / 100) % 100 == m, t % 100 == s_, t >= 0)
    return [r, h, m, s_, t], hyp, concl


def _th_yj():
    y, j, v = z3.Ints('th_y th_j th_v')
    return [y, j, v], z3.And(y >= 1, j >= 1, j <= 366, v == y * 1000 + j), z3.And(v / 1000 == y, v % 1000 == j, v >= 1000)


def _calendar_fields(I, dt):
    """(Y, J, seconds of day) of an instant: the inverse of the day-number map, introduced by its defining property"""
    if 'yj' in dt.fields:
        return dt.fields['yj']
    I.ctx.trust(T_STRFTIME)
    whole = sym.floor_(dt.sec) if (is_sym(dt.sec) and z3.is_real(dt.sec)) or isinstance(dt.sec, Fraction) else dt.sec
    day = sym.floordiv(whole, 86400)
    sod = sym.mod(whole, 86400)
    # functions of the day number (so that two conversions of the same day agree by congruence)
    y, j = _YEAR_OF(sym.to_z3(day)), _DOY_OF(sym.to_z3(day))
    I.ctx.assume(sym.And(sym.ge(y, 1), sym.le(y, 9999), sym.ge(j, 1), sym.le(j, days_in_year(y)),
                         sym.eq(sym.add(sym.days_before_year(y), sym.sub(j, 1)), day)))
    if is_sym(whole):
        _hint(I, 'daysplit', _th_daysplit, [whole, day, sod])
    dt.fields['yj'] = (y, j, sod)
    return dt.fields['yj']


def _strftime(I, dt, args, kw):
    fmt = args[0]
    if fmt == '%Y%j':
        y, j, _ = _calendar_fields(I, dt)
        v = sym.add(sym.mul(y, 1000), j)
        if is_sym(v):
            _hint(I, 'yj', _th_yj, [y, j, v])
        return DecText(v, fmt)
    if fmt == '%H%M%S':
        _, _, sod = _calendar_fields(I, dt)
        h, m, sec = sym.floordiv(sod, 3600), sym.mod(sym.floordiv(sod, 60), 60), sym.mod(sod, 60)
        v = sym.add(sym.add(sym.mul(h, 10000), sym.mul(m, 100)), sec)
        if is_sym(v):
            _hint(I, 'hms', _th_hms, [sod, h, m, sec, v])
        return DecText(v, fmt)
    if isinstance(fmt, str) and '\n' not in fmt:
        # any other format: some text without a line break (only its being ONE line matters to the contracts that use it)
        from .arrays import AbsStr
        I.ctx.trust('datetime.strftime(<other format>): an abstract one-line text')
        return AbsStr(I.ctx.fresh('strftime_text'))
    raise Unsupported('strftime %r' % (fmt,))


models.register_hook('int_', lambda I, x: x.value if isinstance(x, DecText) else None)


def _binop(I, op, a, b):
    import ast
    from .nparr import SArr
    if isinstance(a, SArr) or isinstance(b, SArr):
        return None
    t = type(op)
    if isinstance(a, DT) and isinstance(b, TD):
        if t is ast.Add:
            return DT(sym.add(a.sec, b.sec), a.tz)
        if t is ast.Sub:
            return DT(sym.sub(a.sec, b.sec), a.tz)
    if isinstance(a, TD) and isinstance(b, DT) and t is ast.Add:
        return DT(sym.add(a.sec, b.sec), b.tz)
    if isinstance(a, DT) and isinstance(b, DT) and t is ast.Sub:
        if (a.tz is None) != (b.tz is None):
            raise PyExc('TypeError')
        return TD(sym.sub(a.sec, b.sec))
    if isinstance(a, TD) and isinstance(b, TD):
        if t is ast.Add:
            return TD(sym.add(a.sec, b.sec))
        if t is ast.Sub:
            return TD(sym.sub(a.sec, b.sec))
        if t is ast.Div:
            return sym.truediv(a.sec, b.sec)
    if isinstance(a, TD) and sym.is_num(b):
        if t is ast.Mult:
            return TD(sym.mul(a.sec, b))
        if t is ast.Div:
            return TD(sym.truediv(a.sec, b))
    if sym.is_num(a) and isinstance(b, TD) and t is ast.Mult:
        return TD(sym.mul(a, b.sec))
    if isinstance(a, (DT, TD)) or isinstance(b, (DT, TD)):
        raise PyExc('TypeError')
    return None


models.register_hook('binop', _binop)


def _compare(I, op, a, b):
    import ast
    if isinstance(a, (DT, TD)) and type(a) is type(b):
        f = {ast.Lt: sym.lt, ast.LtE: sym.le, ast.Gt: sym.gt, ast.GtE: sym.ge, ast.Eq: sym.eq, ast.NotEq: sym.ne}.get(type(op))
        if f is not None:
            return f(a.sec, b.sec)
    return None


models.register_hook('compare', _compare)


def _value_getattr(I, obj, name):
    if isinstance(obj, TD):
        if name == 'total_seconds':
            return BoundModel(lambda I, r, a, k: sym.to_real(r.sec), obj)
        if name == 'days':
            return sym.floordiv(obj.sec, 86400)
        if name == 'seconds':
            return sym.trunc(sym.mod(obj.sec, 86400))
    if isinstance(obj, DT):
        if name in obj.fields:
            return obj.fields[name]
        if name == 'tzinfo':
            return obj.tz
        if name == 'replace':
            def replace(I, r, a, k):
                if set(k) <= {'tzinfo'}:
                    return DT(r.sec, k.get('tzinfo'), r.fields)
                raise Unsupported('datetime.replace')
            return BoundModel(replace, obj)
        if name == 'strftime':
            return BoundModel(_strftime, obj)
        if name in ('year', 'month', 'day', 'hour', 'minute', 'second'):
            raise Unsupported('calendar field %s of a computed datetime' % name)
    if isinstance(obj, _TZ) and name == 'utc':
        return UTC
    return None


models.register_hook('value_getattr', _value_getattr)
