"""Symbolic sequences and numpy arrays (functional representation).

An `SArr` is an n-dimensional array given by its shape (ints / z3 Int terms) and
an element function `elem(idx_tuple) -> term`.  Arrays that can be written own a
`Buf` whose content is a closure updated functionally on every store; views
share the Buf, so writes through a view are seen by every alias -- this is the
view-vs-copy table of numpy (trusted, listed in evidence) made executable.
"""
import ast
import itertools
from fractions import Fraction
import z3

from . import sym, models
from .sym import PyExc, Unsupported, is_sym


class SymRange:
    def __init__(self, *a):
        if len(a) == 1:
            self.start, self.stop, self.step = 0, a[0], 1
        elif len(a) == 2:
            self.start, self.stop, self.step = a[0], a[1], 1
        else:
            self.start, self.stop, self.step = a


class SymChar:
    """chr(code) for a symbolic code point"""

    def __init__(self, code):
        self.code = code


def sym_slice_indices(I, sl, n):
    """slice.indices(n) for symbolic bounds, step must be concrete (default 1)"""
    step = 1 if sl.step is None else sl.step
    if is_sym(step):
        raise Unsupported('symbolic slice step')
    if step == 0:
        raise PyExc('ValueError')

    def norm(v, dflt_pos, dflt_neg):
        if v is None:
            return dflt_pos if step > 0 else dflt_neg
        lo, hi = (0, n) if step > 0 else (-1, sym.sub(n, 1))
        v2 = sym.ite(sym.lt(v, 0), sym.add(v, n), v)
        v2 = sym.ite(sym.lt(v2, lo), lo, sym.ite(sym.gt(v2, hi), hi, v2))
        return v2
    start = norm(sl.start, 0, sym.sub(n, 1))
    stop = norm(sl.stop, n, -1)
    return (start, stop, step)


def range_len(start, stop, step):
    if step > 0:
        d = sym.sub(stop, start)
        return sym.ite(sym.gt(d, 0), sym.floordiv(sym.add(d, step - 1), step), 0)
    d = sym.sub(start, stop)
    return sym.ite(sym.gt(d, 0), sym.floordiv(sym.add(d, -step - 1), -step), 0)


def _len_hook(I, x):
    if isinstance(x, SymRange):
        if is_sym(x.step):
            raise Unsupported('symbolic range step')
        return range_len(x.start, x.stop, x.step)
    return None


models.register_hook('len_', _len_hook)


def _symbolic_for(I, st, frame, it, spec):
    """for v in range(lo, hi) with symbolic bounds and an invariant:
    desugared to  v = lo ; while v < hi: body ; v += step"""
    if isinstance(it, SymRange) and isinstance(st.target, ast.Name) and not is_sym(it.step) and it.step > 0:
        var = st.target.id
        hidden = '__it_' + var
        frame.locals[hidden] = it.start
        frame.locals[var] = it.start

        def cond():
            return sym.lt(frame.locals[hidden], it.stop)

        def pre_body():
            frame.locals[var] = frame.locals[hidden]

        def step():
            frame.locals[hidden] = sym.add(frame.locals[hidden], it.step)
        I.cutpoint_loop(st, frame, spec, cond, step=({hidden, var}, step), pre_body=pre_body)
        return True
    if isinstance(it, (range, list, tuple)) and isinstance(st.target, ast.Name):
        r = SymRange(it.start, it.stop, it.step) if isinstance(it, range) else None
        if r is not None:
            return _symbolic_for(I, st, frame, r, spec)
    return None


models.register_hook('symbolic_for', _symbolic_for)
