"""Symbolic sequences and numpy arrays (functional representation).

An `SArr` is an n-dimensional array given by its shape (ints / z3 Int terms) and
an element function `elem(idx_tuple) -> term`.  Arrays that can be written own a
`Buf` whose content is a closure updated functionally on every store; views
share the Buf, so writes through a view are seen by every alias -- this is the
view-vs-copy table of numpy (trusted, listed in evidence) made executable.
"""
import ast
import itertools
from fractions import Fraction
import z3

from . import sym, models
from .sym import PyExc, Unsupported, is_sym


class SymRange:
    def __init__(self, *a):
        if len(a) == 1:
            self.start, self.stop, self.step = 0, a[0], 1
        elif len(a) == 2:
            self.start, self.stop, self.step = a[0], a[1], 1
        else:
            self.start, self.stop, self.step = a


class SymChar:
    """chr(code) for a symbolic code point"""

    def __init__(self, code):
        self.code = code


def sym_slice_indices(I, sl, n):
    """slice.indices(n) for symbolic bounds, step must be concrete (default 1)"""
    step = 1 if sl.step is None else sl.step
    if is_sym(step):
        raise Unsupported('symbolic slice step')
    if step == 0:
        raise PyExc('ValueError')

    def norm(v, dflt_pos, dflt_neg):
        if v is None:
            return dflt_pos if step > 0 else dflt_neg
        lo, hi = (0, n) if step > 0 else (-1, sym.sub(n, 1))
        v2 = sym.ite(sym.lt(v, 0), sym.add(v, n), v)
        v2 = sym.ite(sym.lt(v2, lo), lo, sym.ite(sym.gt(v2, hi), hi, v2))
        return v2
    start = norm(sl.start, 0, sym.sub(n, 1))
    stop = norm(sl.stop, n, -1)
    return (start, stop, step)


def range_len(start, stop, step):
    if step > 0:
        d = sym.sub(stop, start)
        return sym.ite(sym.gt(d, 0), sym.floordiv(sym.add(d, step - 1), step), 0)
    d = sym.sub(start, stop)
    return sym.ite(sym.gt(d, 0), sym.floordiv(sym.add(d, -step - 1), -step), 0)


def _len_hook(I, x):
    if isinstance(x, SymRange):
        if is_sym(x.step):
            raise Unsupported('symbolic range step')
        return range_len(x.start, x.stop, x.step)
    return None


models.register_hook('len_', _len_hook)


def _symbolic_for(I, st, frame, it, spec):
    """for v in range(lo, hi) with symbolic bounds and an invariant:
    desugared to  v = lo ; while v < hi: body ; v += step"""
    if isinstance(it, SymRange) and isinstance(st.target, ast.Name) and not is_sym(it.step) and it.step > 0:
        var = st.target.id
        hidden = '__it_' + var
        frame.locals[hidden] = it.start
        frame.locals[var] = it.start

        def cond():
            return sym.lt(frame.locals[hidden], it.stop)

        def pre_body():
            frame.locals[var] = frame.locals[hidden]

        def step():
            frame.locals[hidden] = sym.add(frame.locals[hidden], it.step)
        I.cutpoint_loop(st, frame, spec, cond, step=({hidden, var}, step), pre_body=pre_body)
        return True
    if isinstance(it, (range, list, tuple)) and isinstance(st.target, ast.Name):
        r = SymRange(it.start, it.stop, it.step) if isinstance(it, range) else None
        if r is not None:
            return _symbolic_for(I, st, frame, r, spec)
    return None


models.register_hook('symbolic_for', _symbolic_for)


# ---------------------------------------------------------------------------
# abstract strings, symbolic-length lists of records, dict views over them
# ---------------------------------------------------------------------------

_STR_IDS = {}


def str_id(s):
    """concrete strings are interned as distinct negative integers"""
    if s not in _STR_IDS:
        _STR_IDS[s] = -(len(_STR_IDS) + 1)
    return _STR_IDS[s]


_F_EXT = z3.Function('str.splitext_ext', z3.IntSort(), z3.IntSort())
_F_ROOT = z3.Function('str.splitext_root', z3.IntSort(), z3.IntSort())
_F_TAIL = z3.Function('str.slice_from', z3.IntSort(), z3.IntSort(), z3.IntSort())


class AbsStr:
    """string known only up to equality (z3 Int id)"""

    def __init__(self, sid):
        self.sid = sid

    @staticmethod
    def of(x):
        if isinstance(x, AbsStr):
            return x.sid
        if isinstance(x, str):
            return str_id(x)
        return None

    def model_value(self, model):
        return 'str#%s' % model.eval(self.sid, model_completion=True)


class AbsVal:
    """abstract value of an uninterpreted kind (reader classes, ...), identity = z3 Int"""

    def __init__(self, vid, kind='val', calls=None):
        self.vid = vid
        self.kind = kind
        self.calls = calls or {}

    def model_value(self, model):
        return '%s#%s' % (self.kind, model.eval(self.vid, model_completion=True))


class SymList:
    """list of unknown length n whose i-th element is get(i) (a tuple of abstract
    values).  Mutable with identity, like a Python list; content is functional."""

    def __init__(self, n, get, tag='list'):
        self.n = n
        self.get = get
        self.tag = tag
        self.mutations = []

    def copy(self):
        return SymList(self.n, self.get, self.tag + '.copy')

    def insert0(self, x):
        old, n0 = self.get, self.n
        self.get = lambda i: _ite_val(sym.eq(i, 0), x, old(sym.sub(i, 1)))
        self.n = sym.add(n0, 1)
        self.mutations.append('insert')

    def append(self, x):
        old, n0 = self.get, self.n
        self.get = lambda i: _ite_val(sym.eq(i, n0), x, old(i))
        self.n = sym.add(n0, 1)
        self.mutations.append('append')

    def havoc(self, I):
        self.mutations.append('havoc')
        n = I.ctx.fresh('havoc_len')
        I.ctx.assume(sym.ge(n, 0))
        self.n = n
        tagf = I.ctx.fresh('havoc_fn')
        old = self.get
        self.get = lambda i: _map_val(old(i), lambda v: z3.Int('havoc_%s_%s' % (tagf, v)) if False else v)
        self.get = lambda i: _havoc_elem(old(0), tagf, i)


def _havoc_elem(proto, tagf, i):
    f = z3.Function('havoc_elem_%s' % tagf, z3.IntSort(), z3.IntSort(), z3.IntSort())
    if isinstance(proto, tuple):
        return tuple(_rebuild(p, f(i, k)) for k, p in enumerate(proto))
    return _rebuild(proto, f(i, 0))


def _rebuild(p, term):
    if isinstance(p, AbsStr):
        return AbsStr(term)
    if isinstance(p, AbsVal):
        return AbsVal(term, p.kind, p.calls)
    return term


def _ite_val(c, a, b):
    if isinstance(a, tuple):
        return tuple(_ite_val(c, x, y) for x, y in zip(a, b))
    if isinstance(a, AbsStr) or isinstance(b, AbsStr):
        return AbsStr(sym.ite(c, AbsStr.of(a), AbsStr.of(b)))
    if isinstance(a, AbsVal):
        return AbsVal(sym.ite(c, a.vid, b.vid), a.kind, a.calls)
    return sym.ite(c, a, b)


def _map_val(v, f):
    if isinstance(v, tuple):
        return tuple(_map_val(x, f) for x in v)
    return f(v)


def val_eq(a, b):
    if isinstance(a, tuple) and isinstance(b, tuple):
        return sym.And(*[val_eq(x, y) for x, y in zip(a, b)])
    sa, sb = AbsStr.of(a), AbsStr.of(b)
    if sa is not None and sb is not None:
        return sym.eq(sa, sb)
    if isinstance(a, AbsVal) and isinstance(b, AbsVal):
        return sym.eq(a.vid, b.vid)
    if isinstance(a, (AbsVal, AbsStr)) or isinstance(b, (AbsVal, AbsStr)):
        return False
    return sym.eq(a, b)


def symlist_same(lst, n0, get0):
    """content of lst equals the snapshot (n0, get0): length and every element"""
    j = z3.Int('frame_j')
    body = sym.Implies(sym.And(sym.ge(j, 0), sym.lt(j, n0)), val_eq(lst.get(j), get0(j)))
    q = z3.ForAll([j], body) if is_sym(body) else body
    return sym.And(sym.eq(lst.n, n0), q)


class SymDict:
    """dict(SymList of (key, value)): later entries win"""

    def __init__(self, lst):
        self.n, self.get = lst.n, lst.get


def _compare_hook(I, op, a, b):
    if isinstance(a, (AbsStr, AbsVal)) or isinstance(b, (AbsStr, AbsVal)):
        if isinstance(op, (ast.Eq, ast.NotEq)):
            r = val_eq(a, b)
            return r if isinstance(op, ast.Eq) else sym.Not(r)
        if isinstance(op, (ast.Is, ast.IsNot)):
            if a is None or b is None:
                return isinstance(op, ast.IsNot)
            r = val_eq(a, b)
            return r if isinstance(op, ast.Is) else sym.Not(r)
    return None


models.register_hook('compare', _compare_hook)


def _contains_hook(I, c, x):
    if isinstance(c, SymDict):
        w = I.ctx.fresh('wit')
        j = z3.Int('dict_j')
        b = I.ctx.fresh('haskey', 'Bool')
        key = lambda i: c.get(i)[0]
        inr = lambda i: sym.And(sym.ge(i, 0), sym.lt(i, c.n))
        I.ctx.assume(sym.Implies(b, sym.And(inr(w), val_eq(key(w), x))))
        I.ctx.assume(sym.Implies(sym.Not(b), z3.ForAll([j], sym.Implies(inr(j), sym.Not(val_eq(key(j), x))))))
        return b
    if isinstance(c, SymList):
        w = I.ctx.fresh('wit')
        j = z3.Int('list_j')
        b = I.ctx.fresh('member', 'Bool')
        inr = lambda i: sym.And(sym.ge(i, 0), sym.lt(i, c.n))
        I.ctx.assume(sym.Implies(b, sym.And(inr(w), val_eq(c.get(w), x))))
        I.ctx.assume(sym.Implies(sym.Not(b), z3.ForAll([j], sym.Implies(inr(j), sym.Not(val_eq(c.get(j), x))))))
        return b
    return None


models.register_hook('contains', _contains_hook)


def _getitem_hook(I, obj, idx):
    if isinstance(obj, SymDict):
        # value of the LAST entry with that key (dict construction order)
        L = I.ctx.fresh('last')
        j = z3.Int('dict_j')
        key = lambda i: obj.get(i)[0]
        inr = lambda i: sym.And(sym.ge(i, 0), sym.lt(i, obj.n))
        has = _contains_hook(I, obj, idx)
        if not I.ctx.branch(has):
            raise PyExc('KeyError')
        I.ctx.assume(sym.And(inr(L), val_eq(key(L), idx),
                             z3.ForAll([j], sym.Implies(sym.And(sym.gt(j, L), sym.lt(j, obj.n)),
                                                        sym.Not(val_eq(key(j), idx))))))
        return obj.get(L)[1]
    if isinstance(obj, AbsStr):
        if isinstance(idx, slice) and idx.stop is None and idx.step is None and isinstance(idx.start, int):
            return AbsStr(_F_TAIL(obj.sid, idx.start))
        raise Unsupported('indexing abstract string')
    if isinstance(obj, SymList):
        if isinstance(idx, slice):
            raise Unsupported('slice of symbolic list')
        i = sym.ite(sym.lt(idx, 0), sym.add(idx, obj.n), idx)
        if I.ctx.branch(sym.Or(sym.lt(i, 0), sym.ge(i, obj.n))):
            raise PyExc('IndexError')
        return obj.get(i)
    return None


models.register_hook('getitem', _getitem_hook)


def _splitext(I, p):
    if isinstance(p, AbsStr):
        return (AbsStr(_F_ROOT(p.sid)), AbsStr(_F_EXT(p.sid)))
    return None


models.register_hook('splitext_', _splitext)


def _len2(I, x):
    if isinstance(x, (SymList, SymDict)):
        return x.n
    return None


models.register_hook('len_', _len2)


def _value_getattr(I, obj, name):
    from .exec import BoundModel
    if isinstance(obj, SymList):
        if name == 'insert':
            def ins(I, r, args, kw):
                pos, x = args
                if is_sym(pos) or pos != 0:
                    raise Unsupported('SymList.insert at position other than 0')
                r.insert0(x)
            return BoundModel(ins, obj)
        if name == 'append':
            def app(I, r, args, kw):
                r.append(args[0])
            return BoundModel(app, obj)
        if name == 'copy':
            return BoundModel(lambda I, r, a, k: r.copy(), obj)
    if isinstance(obj, AbsVal):
        if name in obj.calls:
            return obj.calls[name](I, obj)
        if name == '__doc__':
            return None
    return None


models.register_hook('value_getattr', _value_getattr)


def _iterate(I, v):
    if isinstance(v, SymList):
        raise Unsupported('iteration over a symbolic list needs a loop invariant / comprehension rule')
    return None


models.register_hook('iterate', _iterate)


def _symbolic_for_list(I, st, frame, it, spec):
    """for x in <SymList> with invariant: index based cut point"""
    if not isinstance(it, SymList):
        return None
    hidden = '__idx_%d' % st.lineno
    frame.locals[hidden] = 0
    proto = it.get(z3.Int('proto'))
    frame.locals.setdefault('__dummy', None)
    # loop variables must exist to be havocked
    I.assign(st.target, it.get(0), frame)

    def cond():
        return sym.lt(frame.locals[hidden], it.n)

    def pre_body():
        I.assign(st.target, it.get(frame.locals[hidden]), frame)

    def step():
        frame.locals[hidden] = sym.add(frame.locals[hidden], 1)
    frame.loop_index_name = hidden
    I.cutpoint_loop(st, frame, spec, cond, step=({hidden}, step), pre_body=pre_body)
    return True


models.register_hook('symbolic_for', _symbolic_for_list)


def _comprehension(I, e, frame):
    """[elt for tgt in <SymList> if cond]  ->  fresh SymList (filter/map kept abstract:
    only freshness and 'every element comes from the source' are known)"""
    if len(e.generators) != 1:
        return None
    g = e.generators[0]
    try:
        src = I.eval(g.iter, frame)
    except (PyExc, Unsupported):
        return None
    if not isinstance(src, SymList):
        if hasattr(src, 'is_sarr'):
            from . import nparr
            return nparr.comprehension(I, e, frame, src)
        return None
    from .exec import Frame
    if not g.ifs:
        # exact map rule: out[i] = elt(src[i])
        def get_exact(i):
            cf = Frame(frame.func, {}, frame)
            I.assign(g.target, src.get(i), cf)
            return I.eval(e.elt, cf)
        return SymList(src.n, get_exact, 'map')
    n = I.ctx.fresh('comp_len')
    I.ctx.assume(sym.And(sym.ge(n, 0), sym.le(n, src.n)))
    pick = z3.Function('comp_pick_%s' % n, z3.IntSort(), z3.IntSort())
    k = z3.Int('comp_k')
    I.ctx.assume(z3.ForAll([k], sym.Implies(sym.And(sym.ge(k, 0), sym.lt(k, n)),
                                            sym.And(sym.ge(pick(k), 0), sym.lt(pick(k), src.n)))))
    I.ctx.trust('comprehension over a symbolic list: result is a fresh list whose elements are images of source elements (order/filter abstracted)')

    def get(i):
        cf = Frame(frame.func, {}, frame)
        I.assign(g.target, src.get(pick(i)), cf)
        return I.eval(e.elt, cf)
    return SymList(n, get, 'comprehension')


models.register_hook('symbolic_comprehension', _comprehension)


def _list_ctor(I, args, kw):
    if args and isinstance(args[0], SymList):
        return args[0].copy()
    if args and isinstance(args[0], SymDict):
        raise Unsupported('list(SymDict)')
    return models._list(I, args, kw)


def _dict_ctor(I, args, kw):
    if args and isinstance(args[0], SymList) and not kw:
        return SymDict(args[0])
    return models._dict(I, args, kw)


from .exec import Builtin  # noqa
models._REG['builtins.list'] = Builtin('builtins.list', _list_ctor)
models._REG['builtins.dict'] = Builtin('builtins.dict', _dict_ctor)


# ---------------------------------------------------------------------------
# strings made of symbolic characters; abstract binary files; struct.pack/unpack
# ---------------------------------------------------------------------------

class SymStr:
    """string given as a list of characters (str of length 1 or SymChar)"""

    def __init__(self, chars):
        self.chars = list(chars)


def _str_binop(I, op, a, b):
    if isinstance(op, ast.Add) and (isinstance(a, (SymChar, SymStr)) or isinstance(b, (SymChar, SymStr))):
        def chars(x):
            if isinstance(x, SymStr):
                return x.chars
            if isinstance(x, SymChar):
                return [x]
            if isinstance(x, str):
                return list(x)
            raise Unsupported('string concatenation with %r' % (x,))
        return SymStr(chars(a) + chars(b))
    return None


models.register_hook('binop', _str_binop)
models.register_hook('len_', lambda I, x: len(x.chars) if isinstance(x, SymStr) else None)
models._REG['sys.byteorder'] = 'little'
models.KNOWN_EXTERNAL.add('types')


class FileBytes:
    def __init__(self, n):
        self.n = n


models.register_hook('len_', lambda I, x: x.n if isinstance(x, FileBytes) else None)


def _file_getattr(I, obj, name):
    from .exec import BoundModel, Obj
    if not (isinstance(obj, Obj) and obj.tag == 'file'):
        return None
    T = 'file object: tell/seek/read move a cursor; read(n) returns n bytes (short reads not modelled)'
    if name == 'tell':
        return BoundModel(lambda I, r, a, k: r.ghost['pos'], obj, trusted=T)
    if name == 'seek':
        def seek(I, r, a, k):
            off = a[0]
            wh = a[1] if len(a) > 1 else 0
            if wh == 0:
                r.ghost['pos'] = off
            elif wh == 1:
                r.ghost['pos'] = sym.add(r.ghost['pos'], off)
            else:
                r.ghost['pos'] = sym.add(r.ghost.get('length', I.ctx.fresh('flen')), off)
            r.ghost.setdefault('seeks', []).append((off, wh))
        return BoundModel(seek, obj, trusted=T)
    if name == 'read':
        def read(I, r, a, k):
            n = a[0]
            r.ghost['pos'] = sym.add(r.ghost['pos'], n)
            return FileBytes(n)
        return BoundModel(read, obj, trusted=T)
    if name in ('close', 'flush'):
        return BoundModel(lambda I, r, a, k: None, obj)
    return None


models.register_hook('obj_getattr', _file_getattr)


def _struct_pack(I, args, kw):
    I.ctx.ghost.setdefault('struct.pack', []).append((args[0], list(args[1:])))
    return Opaque('struct.pack(%s)' % args[0])


def _struct_unpack(I, args, kw):
    import struct as _st
    import re
    fmt, data = args
    if not isinstance(fmt, str):
        raise Unsupported('struct.unpack with symbolic format')
    out = []
    for cnt, ch in re.findall(r'(\d*)([a-zA-Z?])', fmt.lstrip('<>=!@')):
        n = int(cnt) if cnt else 1
        if ch in 'sp':
            out.append(Opaque('bytes field'))
            continue
        for _ in range(n):
            if ch in 'fd':
                out.append(I.ctx.fresh('unpacked_' + ch, 'Real'))
            elif ch in 'c':
                out.append(Opaque('char'))
            else:
                out.append(I.ctx.fresh('unpacked_' + ch, 'Int'))
    if isinstance(data, FileBytes):
        if I.ctx.branch(sym.ne(data.n, _st.calcsize(fmt))):
            raise PyExc('struct.error')
    I.ctx.ghost.setdefault('struct.unpack', []).append((fmt, out))
    return tuple(out)


from .exec import Builtin, Opaque  # noqa
models._REG['struct.pack'] = Builtin('struct.pack', _struct_pack, 'struct.pack: packs its arguments in order according to the format (recorded, bytes opaque)')
models._REG['struct.unpack'] = Builtin('struct.unpack', _struct_unpack, 'struct.unpack: one value per format item, of unknown content')
