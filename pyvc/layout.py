"""numpy structured dtypes and memory maps over an abstract binary file (trusted models).

* `numpy.dtype(spec)`: packed (align=False) layout; itemsize = sum of the field sizes; a sub-array
  field '(a,b)f' has a*b*4 bytes; dtype((sub, shape)) has itemsize(sub) * prod(shape).
* `numpy.memmap(path, dtype, mode, offset[, shape])` over a file of `filesize` bytes:
    - with shape: raises ValueError unless offset + itemsize*prod(shape) <= filesize -- EXCEPT in the writing
      modes 'r+'/'w+', where numpy extends the file with zeros (not modelled: such a path is reported unsupported,
      contracts exclude it by a precondition and the bounded harness covers those cut points);
    - without shape: raises ValueError unless (filesize - offset) % itemsize == 0; the map then has
      (filesize - offset) / itemsize elements.
  (behaviour of the installed numpy 2.x, pinned by rtc/camx.py running the real readers on every prefix)
* the CONTENT of the file is unknown: every field read is a symbol that is a function of (offset, field);
  contracts constrain the header fields they need through `file_fields`.
"""
import re
import z3

from . import sym, models
from .sym import PyExc, Unsupported, is_sym
from .exec import Builtin, BoundModel, Obj, Opaque, FmtStr

T_DTYPE = 'numpy.dtype: packed structured layout, itemsize = sum of field sizes, sub-arrays count*itemsize'
T_MEMMAP = ('numpy.memmap: with shape raises unless offset+itemsize*n <= filesize (r+/w+ extend the file instead); without shape '
            'raises unless (filesize-offset) % itemsize == 0')

_BASE = {'i': 4, 'f': 4, 'd': 8, 'b': 1, 'B': 1, 'h': 2, 'H': 2, 'l': 8, 'q': 8, 'c': 1, '?': 1}


class TupleText:
    """str(t) of a tuple of (possibly symbolic) integers: only its use as a sub-array shape inside a dtype format is modelled"""

    def __init__(self, items):
        self.items = tuple(items)


class DTypeM:
    def __init__(self, itemsize, fields=None, desc=''):
        self.itemsize = itemsize
        self.fields = fields          # list of (name, DTypeM) for structs
        self.desc = desc
        self.names = tuple(n for n, _ in fields) if fields else None

    def offset_of(self, name):
        off = 0
        for n, d in self.fields:
            if n == name:
                return off
            off = sym.add(off, d.itemsize)
        raise PyExc('ValueError')


def parse_format(fmt):
    """'>i', 'f', '(10,4)S1', '(%d,%d)f' % (ny, nx), 'S10', '>f8', 'i4' -> DTypeM"""
    if isinstance(fmt, DTypeM):
        return fmt
    shape = []
    if isinstance(fmt, FmtStr):
        m = re.fullmatch(r'\(%d,%d\)([<>=|]?)([a-zA-Z?])(\d*)', fmt.fmt)
        m2 = re.fullmatch(r'%s([<>=|]?)([a-zA-Z?])(\d*)', fmt.fmt)
        if m2 and len(fmt.args) == 1 and isinstance(fmt.args[0], TupleText):
            # '%s>f' % str(shape tuple): the text of a tuple of integers is the sub-array shape
            shape = list(fmt.args[0].items)
            m = m2
        elif not m or len(fmt.args) != 2:
            raise Unsupported('dtype format %r' % fmt.fmt)
        else:
            shape = list(fmt.args)
        code, digits = m.group(2), m.group(3)
    elif isinstance(fmt, str) and ',' in re.sub(r'\([^()]*\)', '', fmt):
        # comma separated list (a trailing comma included: '>i4,' is a ONE-field struct [('f0', '>i4')] for numpy)
        return _struct_from_text(fmt)
    elif isinstance(fmt, str):
        m = re.fullmatch(r'\s*(?:\(([\d,\s]+)\)|(\d+))?([<>=|]?)([a-zA-Z?])(\d*)\s*', fmt)
        if not m:
            raise Unsupported('dtype format %r' % fmt)
        if m.group(1):
            shape = [int(x) for x in m.group(1).replace(' ', '').split(',') if x]
        elif m.group(2):
            shape = [int(m.group(2))]
        code, digits = m.group(4), m.group(5)
    else:
        raise Unsupported('dtype spec %r' % (fmt,))
    if code in 'SaUV':
        size = int(digits or 1) * (4 if code == 'U' else 1)
    elif digits:
        size = int(digits)
    else:
        if code not in _BASE:
            raise Unsupported('dtype code %r' % code)
        size = _BASE[code]
    n = 1
    for s in shape:
        n = sym.mul(n, s)
    r = DTypeM(sym.mul(n, size), None, str(getattr(fmt, 'fmt', fmt)))
    r.code, r.shape = code, tuple(shape)
    return r


def _struct_from_text(spec):
    parts = [p.strip() for p in re.split(r',(?![^()]*\))', spec)]
    parts = [p for p in parts if p]
    fields = [('f%d' % i, parse_format(p)) for i, p in enumerate(parts)]
    size = 0
    for _, d in fields:
        size = sym.add(size, d.itemsize)
    return DTypeM(size, fields, 'struct')


def make_dtype(I, args, kw):
    I.ctx.trust(T_DTYPE)
    spec = args[0]
    if isinstance(spec, DTypeM):
        return spec
    if isinstance(spec, dict):
        names, formats = spec['names'], spec['formats']
        if len(names) != len(formats):
            raise PyExc('ValueError')
        if len(set(names)) != len(names):
            raise PyExc('ValueError')
        fields = [(n, parse_format(f)) for n, f in zip(names, formats)]
        size = 0
        for _, d in fields:
            size = sym.add(size, d.itemsize)
        return DTypeM(size, fields, 'struct')
    if isinstance(spec, tuple) and len(spec) == 2:
        sub = parse_format(spec[0]) if not isinstance(spec[0], DTypeM) else spec[0]
        shp = spec[1] if isinstance(spec[1], (tuple, list)) else (spec[1],)
        n = 1
        for s in shp:
            n = sym.mul(n, s)
        r = DTypeM(sym.mul(n, sub.itemsize), None, 'subarray')
        r.base, r.subshape = sub, tuple(shp)       # dtype((base, shape)): `shape` items of `base`, C order
        return r
    if isinstance(spec, (str, FmtStr)):
        return parse_format(spec)
    raise Unsupported('numpy.dtype(%r)' % (spec,))


models._REG['numpy.dtype'] = Builtin('numpy.dtype', make_dtype, T_DTYPE)


class StructArr:
    """result of numpy.memmap: n elements of a dtype at a byte offset of the abstract file"""

    def __init__(self, dt, n, offset, fileid):
        self.dt, self.n, self.offset, self.fileid = dt, n, offset, fileid


class FieldArr:
    def __init__(self, arr, field):
        self.arr, self.field = arr, field


class NameTok:
    """bytes of a name field; decodes to a distinct placeholder string"""

    def __init__(self, text):
        self.text = text


def file_fields(ctx):
    return ctx.ghost.setdefault('file_fields', {})


def field_value(I, fa, index):
    """value stored in the file at (offset of the element, field): a symbol per (offset, field), or the
    value the contract pinned for that header field"""
    ff = file_fields(I.ctx)
    key = (fa.field, _key(fa.arr.offset), _key(index))
    if key in ff:
        return ff[key]
    if (fa.field,) in ff or fa.field in ff.get('__by_name__', {}):
        v = ff['__by_name__'][fa.field]
        ff[key] = v
        return v
    sub = dict(fa.arr.dt.fields)[fa.field]
    kind = 'Real' if sub.desc.strip('<>=|')[:1] in ('f', 'd') else 'Int'
    v = I.ctx.fresh('file_%s' % fa.field, kind)
    ff[key] = v
    return v


def _key(x):
    return str(z3.simplify(x)) if is_sym(x) else repr(x)


def memmap(I, args, kw):
    I.ctx.trust(T_MEMMAP)
    names = ['filename', 'dtype', 'mode', 'offset', 'shape', 'order']
    a = dict(zip(names, args))
    a.update(kw)
    dt = a.get('dtype')
    if not isinstance(dt, DTypeM):
        dt = make_dtype(I, [dt], {})
    offset = a.get('offset', 0)
    mode = a.get('mode', 'r+')
    size = I.ctx.ghost.get('filesize')
    if size is None:
        size = I.ctx.ghost['filesize'] = I.ctx.fresh('filesize')
        I.ctx.assume(sym.ge(size, 0))
    shape = a.get('shape')
    if shape is not None:
        n = 1
        for s in (shape if isinstance(shape, (tuple, list)) else (shape,)):
            n = sym.mul(n, s)
        need = sym.add(offset, sym.mul(dt.itemsize, n))
        if isinstance(mode, str) and mode in ('r+', 'w+'):
            if I.ctx.branch(sym.gt(need, size)):
                # numpy grows the file and every field read from the new region is a fabricated zero: the contract's
                # pinned header fields would no longer describe the file -- outside this model
                I.ctx.ghost.setdefault('file_extended', []).append(need)
                raise Unsupported('memmap in mode %s past the end of the file (numpy extends the file)' % mode)
        elif I.ctx.branch(sym.gt(need, size)):
            raise PyExc('ValueError')
        if I.ctx.branch(sym.lt(n, 0)):
            raise PyExc('ValueError')
        return StructArr(dt, n, offset, 0)
    rest = sym.sub(size, offset)
    cond = sym.Or(sym.lt(rest, 0), sym.ne(sym.mod(rest, dt.itemsize), 0))
    mc = dict(cond=cond, rest=rest, itemsize=dt.itemsize, fact=None)
    I.ctx.ghost.setdefault('memmap_checks', []).append(mc)
    n0 = len(I.ctx.pc)
    if I.ctx.branch(cond):
        if len(I.ctx.pc) > n0:
            mc['fact'] = I.ctx.pc[-1]       # the (simplified) condition as it stands on the path
        raise PyExc('ValueError')
    return StructArr(dt, sym.floordiv(rest, dt.itemsize), offset, 0)


models._REG['numpy.memmap'] = Builtin('numpy.memmap', memmap, T_MEMMAP)


def _open(I, args, kw):
    f = Obj(None, {}, tag='file')
    size = I.ctx.ghost.get('filesize')
    if size is None:
        size = I.ctx.ghost['filesize'] = I.ctx.fresh('filesize')
        I.ctx.assume(sym.ge(size, 0))
    f.ghost['pos'] = 0
    f.ghost['length'] = size
    return f


models._REG['builtins.open'] = Builtin('builtins.open', _open, 'open(): abstract file of `filesize` bytes')


def _isclose(I, args, kw):
    a, b = args[:2]
    rtol, atol = kw.get('rtol', sym.lit_float('1e-05')), kw.get('atol', sym.lit_float('1e-08'))
    return sym.le(sym.abs_(sym.sub(a, b)), sym.add(atol, sym.mul(rtol, sym.abs_(b))))


models._REG['numpy.isclose'] = Builtin('numpy.isclose', _isclose, 'numpy.isclose: |a-b| <= atol + rtol*|b|')


def _value_getattr(I, obj, name):
    if isinstance(obj, DTypeM):
        if name == 'itemsize':
            return obj.itemsize
        if name == 'newbyteorder':
            return BoundModel(lambda I, r, a, k: r, obj)
        if name == 'names':
            return obj.names
    if isinstance(obj, StructArr):
        if name == 'dtype':
            return obj.dt
        if name == 'size':
            return obj.n
        if name == 'shape':
            return (obj.n,)
    if isinstance(obj, NameTok):
        if name == 'decode':
            return BoundModel(lambda I, r, a, k: r.text, obj)
        if name in ('copy',):
            return BoundModel(lambda I, r, a, k: r, obj)
        if name == 'view':
            return BoundModel(lambda I, r, a, k: r, obj)
        if name == 'strip':
            return BoundModel(lambda I, r, a, k: r.text.strip(), obj)
    return None


models.register_hook('value_getattr', _value_getattr)


def _getitem(I, obj, idx):
    if isinstance(obj, StructArr):
        if isinstance(idx, str):
            if obj.dt.fields is None or idx not in obj.dt.names:
                raise PyExc('ValueError')
            return FieldArr(obj, idx)
        if obj.dt.fields is None:
            # array of plain sub-array items (e.g. species names): element -> name token
            return NameTok('SPC%s' % (idx if not is_sym(idx) else 'k'))
        raise Unsupported('indexing a memory map by position')
    if isinstance(obj, FieldArr):
        sub = dict(obj.arr.dt.fields)[obj.field]
        if sub.desc.startswith('(') or 'S' in sub.desc:
            return NameTok(obj.field)
        i = idx[0] if isinstance(idx, tuple) else idx
        return field_value(I, obj, i)
    if isinstance(obj, NameTok):
        return obj
    return None


models.register_hook('getitem', _getitem)


def _iterate(I, v):
    if isinstance(v, StructArr):
        if is_sym(v.n):
            raise Unsupported('iteration over a memory map of symbolic length')
        return [_getitem(I, v, i) for i in range(v.n)]
    return None


models.register_hook('iterate', _iterate)
models.register_hook('len_', lambda I, x: x.n if isinstance(x, StructArr) else None)


def _max_hook(I, args):
    from .nparr import SArr
    if len(args) == 2 and any(isinstance(a, FieldArr) for a in args):
        vals = []
        for a in args:
            if isinstance(a, FieldArr):
                vals.append(field_value(I, a, 0))
            elif isinstance(a, SArr) and not is_sym(a.shape[0]) and a.shape[0] == 1:
                vals.append(a.get(0))
            else:
                return None
        m = sym.max_(vals[0], vals[1])
        return SArr((1,), lambda q: m, 'i', tag='max')
    return None


models.register_hook('max_', _max_hook)
