"""numpy structured arrays created by numpy.zeros((1,), dtype=<struct>) and written with .tofile(f) (trusted model).

* `RecArr`: ONE record of a packed structured dtype as a tree: field name -> RecArr (nested struct) | SArr of shape
  (1,) + sub-array shape (numeric field) | StrCell (an 'S<n>' field).  `rec[name]` returns the field itself (numpy returns a view:
  stores through it land in the record), `rec[name] = v` assigns the whole field with numpy broadcasting.
  Integer fields truncate real values toward zero (C conversion); float fields keep the value (float arithmetic is real
  arithmetic everywhere in this engine); an 'S<n>' field keeps the text it is given up to trailing padding (the stored key is the
  text stripped of trailing blanks / NULs when it is concrete, the string identity when it is abstract).
* `rec.tofile(f)`: appends ONE record to the abstract output file.  The file is kept per field path as a log
      log[path][r, ...] = value of that field in the r-th record written to f (r counts ALL records written to f),
  and `nrec(f)`: both live in ctx.ghost[('recfile', id(f))] so that a cut-point loop can havoc them and state an invariant over them.
  Byte order, padding-free packing and the byte image itself are NOT modelled (bounded harness: byte-exact round trip).
"""
import itertools
import z3

from . import sym, models
from .sym import PyExc, Unsupported, is_sym
from .exec import Builtin, BoundModel, Obj
from .layout import DTypeM
from . import nparr
from .nparr import SArr

T_REC = ('numpy structured record: rec[field] is a view, rec[field] = v broadcasts into the field, integer fields truncate toward zero; '
         'tofile(f) appends the record to f (field-wise log; byte image not modelled)')
_ids = itertools.count()


class StrCell:
    """an 'S<n>' field of one record"""

    def __init__(self, width):
        self.width = width
        self.value = ''

    def key(self, I):
        return intern_str(I, self.value)


class PaddedStr:
    """s.ljust(n) / s.rjust(n) of an abstract string: only its use as the content of a fixed-width text field is modelled
    (the field content modulo padding is the string itself)"""

    def __init__(self, base):
        self.base = base


def intern_str(I, v):
    """strings -> integers, equal for equal field content: concrete text without its trailing padding is numbered in a table;
    an abstract string is its identity"""
    from .arrays import AbsStr
    if isinstance(v, PaddedStr):
        v = v.base
    if isinstance(v, AbsStr):
        return v.sid
    if isinstance(v, bytes):
        v = v.decode('latin1')
    if isinstance(v, str):
        tab = I.ctx.ghost.setdefault('strtab', {})
        k = v.rstrip(' \x00')
        if k not in tab:
            tab[k] = -1000 - len(tab)         # negative: never collides with an abstract string id (fresh non-negative symbols are not constrained, so keep them apart by assumption below)
        return tab[k]
    raise Unsupported('string field given %r' % (type(v).__name__,))


class RecArr:
    is_recarr = True

    def __init__(self, dt, fields):
        self.dt = dt
        self.fields = fields        # name -> RecArr | SArr | StrCell (insertion order = dtype order)

    def leaves(self, prefix=()):
        for n, f in self.fields.items():
            if isinstance(f, RecArr):
                for x in f.leaves(prefix + (n,)):
                    yield x
            else:
                yield prefix + (n,), f

    def leaf(self, path):
        r = self
        for n in path:
            r = r.fields[n]
        return r


def _leaf_for(dt):
    code = getattr(dt, 'code', None)
    if code is None:
        raise Unsupported('record field of dtype %r' % (dt.desc,))
    if code in 'SaV':
        return StrCell(dt.itemsize)
    kind = 'f' if code in 'fd' else 'i'
    zero = sym.lit_float('0') if kind == 'f' else 0
    a = SArr((1,) + tuple(getattr(dt, 'shape', ())), lambda q: zero, kind, tag='field')
    if kind == 'i':
        a.buf.coerce = lambda v: sym.trunc(v) if (is_sym(v) and z3.is_real(v)) or isinstance(v, float) or type(v).__name__ == 'Fraction' else v
    return a


def make_record(dt):
    if dt.fields is None:
        raise Unsupported('zeros of a plain dtype object')
    out = {}
    for n, d in dt.fields:
        out[n] = make_record(d) if d.fields is not None else _leaf_for(d)
    return RecArr(dt, out)


def zeros_hook(I, shp, dt):
    if isinstance(dt, DTypeM) and dt.fields is not None:
        if tuple(shp) != (1,):
            raise Unsupported('structured zeros of shape %r' % (shp,))
        I.ctx.trust(T_REC)
        return make_record(dt)
    return None


def _assign_field(I, f, v):
    if isinstance(f, StrCell):
        if isinstance(v, SArr):
            raise Unsupported('array assigned to a string field')
        intern_str(I, v)      # type check
        f.value = v
        return
    if isinstance(f, RecArr):
        # a scalar (or text) assigned to a nested record goes to every one of its fields
        if isinstance(v, (SArr, list, tuple, RecArr)):
            raise Unsupported('array assigned to a nested record')
        for sub in f.fields.values():
            _assign_field(I, sub, v)
        return
    if isinstance(v, (list, tuple)):
        v = nparr.from_list(I, list(v))
    nparr.setitem(I, f, Ellipsis, v)


def _getitem(I, obj, idx):
    if isinstance(obj, RecArr):
        if isinstance(idx, str):
            if idx not in obj.fields:
                raise PyExc('ValueError')
            return obj.fields[idx]
        raise Unsupported('indexing a record array by position')
    if isinstance(obj, StrCell):
        raise Unsupported('indexing a string field')
    return None


def _setitem(I, obj, idx, v):
    if isinstance(obj, RecArr):
        if isinstance(idx, str):
            if idx not in obj.fields:
                raise PyExc('ValueError')
            _assign_field(I, obj.fields[idx], v)
            return True
        raise Unsupported('store into a record array by position')
    if isinstance(obj, StrCell):
        if idx is Ellipsis or (isinstance(idx, slice) and idx == slice(None)):
            _assign_field(I, obj, v)
            return True
        raise Unsupported('partial store into a string field')
    return None


models.register_hook('getitem', _getitem)
models.register_hook('zeros_struct', zeros_hook)
models.register_hook('setitem', _setitem)


def recfile(I, fobj):
    g = I.ctx.ghost.get(('recfile', id(fobj)))
    if g is None:
        cap = I.ctx.fresh('file_capacity')
        I.ctx.assume(sym.ge(cap, 0))
        g = I.ctx.ghost[('recfile', id(fobj))] = dict(nrec=0, logs={}, cap=cap, fobj=fobj)
    return g


def log_for(I, g, dtid, path, leaf):
    """log array of one field path of one record type: shape (capacity,) + field shape (without the record axis)"""
    key = (dtid, path)
    if key not in g['logs']:
        shp = (g['cap'],) + (tuple(leaf.shape[1:]) if isinstance(leaf, SArr) else ())
        kind = leaf.kind if isinstance(leaf, SArr) else 'i'
        g['logs'][key] = nparr.sym_array('filelog_%d' % next(_ids), shp, kind)
    return g['logs'][key]


def tofile(I, rec, fobj, tag=None):
    I.ctx.trust(T_REC)
    g = recfile(I, fobj)
    n = g['nrec']
    dtid = tag if tag is not None else getattr(rec, 'rtag', id(rec.dt))
    # the file grows as needed: the capacity symbol only bounds the log arrays
    I.ctx.assume(sym.lt(n, g['cap']))
    for path, leaf in rec.leaves():
        lg = log_for(I, g, dtid, path, leaf)
        if isinstance(leaf, SArr):
            row = nparr.basic_index(I, leaf, 0).frozen()
            nparr.setitem(I, lg, n, row) if row.ndim else nparr.setitem(I, lg, n, row.get(()))
        else:
            nparr.setitem(I, lg, n, leaf.key(I))
    g['nrec'] = sym.add(n, 1)
    g.setdefault('order', []).append(dtid)


def _value_getattr(I, obj, name):
    if type(obj).__name__ == 'AbsStr' and name == 'ljust':
        return BoundModel(lambda I2, r, a, k: PaddedStr(r), obj, trusted=T_REC)
    if isinstance(obj, RecArr):
        if name == 'tofile':
            return BoundModel(lambda I2, r, a, k: tofile(I2, r, a[0] if a else k.get('fid')), obj, trusted=T_REC)
        if name == 'dtype':
            return obj.dt
        if name == 'shape':
            return (1,)
    return None


models.register_hook('value_getattr', _value_getattr)
