"""Front end: reads the real source from the repository on every run.

Nothing is cached between runs; the function text verified is the text under
$VERIF_REPO/src (default /repo/src) at the moment of the check.
"""
import ast
import hashlib
import os

REPO = os.environ.get('VERIF_REPO', '/repo')
PKG = 'PseudoNetCDF'


def src_root():
    return os.path.join(os.environ.get('VERIF_REPO', REPO), 'src', PKG)


class Module:
    def __init__(self, relpath):
        self.relpath = relpath
        self.path = os.path.join(src_root(), relpath)
        with open(self.path, 'r', encoding='utf-8', errors='replace') as f:
            self.text = f.read()
        self.tree = ast.parse(self.text, filename=self.path)
        self.lines = self.text.splitlines()
        # dotted module name
        mod = relpath[:-3].replace('/', '.')
        if mod.endswith('.__init__'):
            mod = mod[:-9]
        self.modname = PKG + '.' + mod if mod else PKG
        self._globals_cache = None

    def find(self, qualname):
        """Locate a FunctionDef / ClassDef by qualified source spelling
        (Class.method, func.inner)."""
        node = self.tree
        cls = None
        for part in qualname.split('.'):
            found = None
            for n in ast.iter_child_nodes(node) if not hasattr(node, 'body') else _walk_body(node):
                if isinstance(n, (ast.FunctionDef, ast.ClassDef)) and n.name == part:
                    found = n  # last definition wins, like Python
            if found is None:
                raise KeyError('%s::%s not found (at %r)' % (self.relpath, qualname, part))
            if isinstance(found, ast.ClassDef):
                cls = found
            node = found
        return node, cls

    def segment(self, node):
        lo = node.lineno
        if getattr(node, 'decorator_list', None):
            lo = min(lo, min(d.lineno for d in node.decorator_list))
        hi = node.end_lineno
        text = '\n'.join(self.lines[lo - 1:hi])
        return dict(file='src/%s/%s' % (PKG, self.relpath), lines=[lo, hi],
                    sha256=hashlib.sha256(text.encode()).hexdigest())


def _walk_body(node):
    """statements of a def/class/module body, descending into if/try/with/for
    blocks (definitions guarded by `if`/`try` are still found) but not into
    nested defs/classes."""
    stack = list(getattr(node, 'body', []))
    out = []
    while stack:
        n = stack.pop(0)
        out.append(n)
        if isinstance(n, (ast.If, ast.Try, ast.With, ast.For, ast.While)):
            for fld in ('body', 'orelse', 'finalbody'):
                stack.extend(getattr(n, fld, []))
            for h in getattr(n, 'handlers', []):
                stack.extend(h.body)
    return out


_modcache = {}


def load(relpath):
    key = (src_root(), relpath)
    if key not in _modcache:
        _modcache[key] = Module(relpath)
    return _modcache[key]


def reset_cache():
    _modcache.clear()


def resolve_module(dotted):
    """PseudoNetCDF.a.b -> relpath of a/b.py or a/b/__init__.py (None if not repo)."""
    if not (dotted == PKG or dotted.startswith(PKG + '.')):
        return None
    rest = dotted[len(PKG):].lstrip('.')
    base = rest.replace('.', '/')
    cands = [base + '.py', (base + '/__init__.py').lstrip('/')] if base else ['__init__.py']
    for c in cands:
        if os.path.isfile(os.path.join(src_root(), c)):
            return c
    return None


def parse_target(target):
    """'camxfiles/uamiv/Read.py::uamiv.__recordposition' -> (relpath, qualname)"""
    rel, q = target.split('::')
    return rel, q
