"""Symbolic executor for the Python subset used by the functions under contract.

One *path* is executed per run of `Interp`; `explore()` re-executes the target
with a growing decision prefix (decision-replay DFS), so no state copying is
needed and heap objects are ordinary Python objects with identity -- aliasing
(`a = b; a.insert(..)`) is therefore modelled exactly.

Verification is modular: a call that resolves to a repository function with a
registered contract is replaced by  assert pre / havoc / assume post ; small
helpers without contract are inlined from their real source; everything outside
the repository goes through the trusted models in pyvc.models (each use is
recorded in ctx.trusted).
"""
import ast
import itertools
import z3
from fractions import Fraction

from . import sym
from .sym import PyExc, Unsupported, is_sym
from . import frontend

MAX_INLINE_DEPTH = 12


# ----------------------------------------------------------------------------
# values
# ----------------------------------------------------------------------------

class Obj:
    """heap object (instance of a repo class or an abstract external object)"""
    _ids = itertools.count()

    def __init__(self, cls=None, attrs=None, tag=None):
        self.cls = cls
        self.attrs = dict(attrs or {})
        self.tag = tag or (cls.name if cls is not None else 'obj')
        self.id = next(Obj._ids)
        self.ghost = {}

    def __repr__(self):
        return '<Obj %s#%d>' % (self.tag, self.id)


class ClassRef:
    def __init__(self, module, node):
        self.module = module
        self.node = node
        self.name = node.name
        self._members = None
        self.state = {}          # per-path class attribute values

    def members(self):
        if self._members is None:
            m = {}
            for st in frontend._walk_body(self.node):
                if isinstance(st, (ast.FunctionDef, ast.ClassDef)):
                    m[mangle(st.name, self.name)] = st
                elif isinstance(st, ast.Assign):
                    for t in st.targets:
                        if isinstance(t, ast.Name):
                            m[mangle(t.id, self.name)] = st
                elif isinstance(st, (ast.Import, ast.ImportFrom)):
                    for a in st.names:
                        m[a.asname or a.name.split('.')[0]] = st
            self._members = m
        return self._members

    def __repr__(self):
        return '<class %s>' % self.name


class FuncRef:
    def __init__(self, module, node, closure=None, owner=None, bound=None, qual=None):
        self.module = module
        self.node = node
        self.closure = closure
        self.owner = owner       # ClassRef for name mangling / contracts
        self.bound = bound
        self.qual = qual or node.name

    def bind(self, obj):
        return FuncRef(self.module, self.node, self.closure, self.owner, obj, self.qual)

    def __repr__(self):
        return '<func %s>' % self.qual


class ModRef:
    def __init__(self, dotted):
        self.dotted = dotted

    def __repr__(self):
        return '<module %s>' % self.dotted


class Builtin:
    def __init__(self, name, fn, trusted=None):
        self.name = name
        self.fn = fn
        self.trusted = trusted

    def __repr__(self):
        return '<builtin %s>' % self.name


class ExcClass:
    """exception classes known to the interpreter"""
    HIER = {
        'Exception': None, 'ValueError': 'Exception', 'KeyError': 'LookupError',
        'LookupError': 'Exception', 'IndexError': 'LookupError', 'TypeError': 'Exception',
        'IOError': 'Exception', 'OSError': 'Exception', 'EOFError': 'Exception',
        'NotImplementedError': 'RuntimeError', 'RuntimeError': 'Exception',
        'AttributeError': 'Exception', 'ZeroDivisionError': 'ArithmeticError',
        'ArithmeticError': 'Exception', 'AssertionError': 'Exception',
        'ImportError': 'Exception', 'StopIteration': 'Exception', 'NameError': 'Exception',
        'OverflowError': 'ArithmeticError', 'UnicodeDecodeError': 'ValueError',
        'struct.error': 'Exception', 'DeprecationWarning': 'Exception', 'UserWarning': 'Exception',
        'FloatingPointError': 'ArithmeticError',
    }

    def __init__(self, name):
        self.name = name

    @staticmethod
    def issub(name, base):
        while name is not None:
            if name == base:
                return True
            name = ExcClass.HIER.get(name, 'Exception' if name != 'Exception' else None)
        return False

    def __repr__(self):
        return '<exc %s>' % self.name


class Opaque:
    """result of a havocked call: unknown value that must not matter"""

    def __init__(self, origin):
        self.origin = origin

    def __repr__(self):
        return '<opaque %s>' % self.origin


_NoneConst = object()      # a library constant whose value is None (e.g. numpy.newaxis), as opposed to "name not found"


class FmtStr:
    """'%06d' % n  kept abstract: decimal text of a symbolic integer"""

    def __init__(self, fmt, args):
        self.fmt = fmt
        self.args = args

    def __repr__(self):
        return '<fmt %r %% %r>' % (self.fmt, self.args)


class DecSlice:
    """s[a:b] of a zero padded decimal FmtStr('%0Wd', n) given as digit window
    counted from the right: digits [lo, hi) (hi None = all higher digits)."""

    def __init__(self, n, lo, hi):
        self.n, self.lo, self.hi = n, lo, hi


def mangle(name, clsname):
    if name.startswith('__') and not name.endswith('__') and clsname:
        return '_' + clsname.lstrip('_') + name
    return name


class _Return(Exception):
    def __init__(self, v):
        self.v = v


class _Break(Exception):
    pass


class _Continue(Exception):
    pass


class PathEnd(Exception):
    """path terminated deliberately (after an inductive-step check, or infeasible)"""

    def __init__(self, why=''):
        self.why = why


class Frame:
    def __init__(self, func, locals_, parent=None):
        self.func = func
        self.locals = locals_
        self.parent = parent       # lexical parent frame (closures)
        self.globals_decl = set()
        self.nonlocal_decl = set()
        self.loop_ordinals = None

    @property
    def module(self):
        return self.func.module

    @property
    def owner(self):
        f = self
        while f is not None:
            if f.func.owner is not None:
                return f.func.owner
            f = f.parent
        return None


# ----------------------------------------------------------------------------
# obligations / context
# ----------------------------------------------------------------------------

class Obligation:
    def __init__(self, name, kind, pc, goal, meta=None):
        self.name = name
        self.kind = kind        # post pre inv-init inv-keep term frame typestate cover canary ...
        self.pc = list(pc)
        self.goal = goal
        self.meta = meta or {}
        self.status = None      # 'unsat' (discharged) / 'sat' / 'unknown'
        self.solver = None
        self.time = 0.0
        self.model = None


class Ctx:
    """state of one path"""

    def __init__(self, prefix=(), solver_timeout_ms=10000):
        self.prefix = list(prefix)
        self.trace = []
        self.alts = []          # alternative prefixes discovered on this path
        self.pc = []
        self.obligations = []
        self.trusted = set()
        self.havocked = []
        self.inlined = set()
        self.dropped = set()
        self.counter = itertools.count()
        self.modstate = {}      # (relpath, name) -> value  (module globals, per path)
        self.classrefs = {}
        self.timeout = solver_timeout_ms
        self.ghost = {}
        self.events = []        # ghost event log (writes, closes, ...)
        self._solver = None

    def fresh(self, name, sort='Int'):
        n = '%s!%d' % (name, next(self.counter))
        if sort == 'Int':
            return z3.Int(n)
        if sort == 'Real':
            return z3.Real(n)
        if sort == 'Bool':
            return z3.Bool(n)
        raise ValueError(sort)

    def assume(self, f):
        if is_sym(f):
            self.pc.append(f)
        elif not f:
            raise PathEnd('assume False')

    def feasible(self, extra=None):
        s = z3.Solver()
        s.set('timeout', min(self.timeout, 2000))
        for c in self.pc:
            s.add(c)
        if extra is not None:
            s.add(extra)
        r = s.check()
        return r != z3.unsat

    def branch(self, cond):
        """decide a (possibly symbolic) condition; forks by decision replay"""
        cond = sym.truthy(cond) if not isinstance(cond, bool) else cond
        if not is_sym(cond):
            return bool(cond)
        cond = z3.simplify(cond)
        if z3.is_true(cond):
            return True
        if z3.is_false(cond):
            return False
        k = len(self.trace)
        if k < len(self.prefix):
            d = self.prefix[k]
        else:
            ft = self.feasible(cond)
            ff = self.feasible(z3.Not(cond))
            if ft and ff:
                d = True
                self.alts.append(self.trace + [False])
            elif ft:
                d = True
            elif ff:
                d = False
            else:
                raise PathEnd('infeasible')
        self.trace.append(d)
        self.pc.append(cond if d else z3.Not(cond))
        return d

    def choose(self, n, label=''):
        """non-deterministic n-way choice (cut points); explored exhaustively"""
        k = len(self.trace)
        if k < len(self.prefix):
            d = self.prefix[k]
        else:
            d = 0
            for alt in range(1, n):
                self.alts.append(self.trace + [alt])
        self.trace.append(d)
        return d

    def prove(self, name, goal, kind='post', meta=None):
        self.obligations.append(Obligation(name, kind, self.pc, goal, meta))

    def trust(self, name):
        self.trusted.add(name)


# ----------------------------------------------------------------------------
# interpreter
# ----------------------------------------------------------------------------

class Interp:
    def __init__(self, ctx, contracts=None, loop_specs=None, models=None, target=None):
        from . import models as _models
        from . import arrays as _arrays, nparr as _nparr, dt as _dt, layout as _layout, recarr as _recarr  # noqa  (register hooks)
        self.ctx = ctx
        self.contracts = contracts or {}     # (relpath, qual) -> ModularContract
        self.loop_specs = loop_specs or {}   # (relpath, qual) -> {ordinal: LoopSpec}
        self.models = models or _models
        self.depth = 0
        _nparr._CUR['I'] = self
        self.target = target                 # (relpath, qual) under verification (not replaced by its own contract)
        self.yields = None

    # ---- module level --------------------------------------------------
    def classref(self, module, node):
        key = (module.relpath, node.name, node.lineno)
        if key not in self.ctx.classrefs:
            self.ctx.classrefs[key] = ClassRef(module, node)
        return self.ctx.classrefs[key]

    def module_lookup(self, module, name):
        key = (module.relpath, name)
        if key in self.ctx.modstate:
            return self.ctx.modstate[key]
        found = None
        for st in frontend._walk_body(module.tree):
            if isinstance(st, ast.FunctionDef) and st.name == name:
                found = FuncRef(module, st, qual=name)
            elif isinstance(st, ast.ClassDef) and st.name == name:
                found = self.classref(module, st)
            elif isinstance(st, ast.Assign):
                for t in st.targets:
                    if isinstance(t, ast.Name) and t.id == name:
                        found = ('assign', st)
                    elif isinstance(t, ast.Tuple):
                        for j, e in enumerate(t.elts):
                            if isinstance(e, ast.Name) and e.id == name:
                                found = ('assign-tuple', st, j)
            elif isinstance(st, (ast.Import, ast.ImportFrom)):
                v = self.import_binding(module, st, name)
                if v is not None:
                    found = v
        if found is None:
            return self.builtin_lookup(name)
        if found is _NoneConst:
            self.ctx.modstate[key] = None
            return None
        if isinstance(found, tuple):
            fr = Frame(FuncRef(module, ast.FunctionDef(name='<module>', body=[], args=None), qual='<module>'), {})
            fr.is_module = True
            if found[0] == 'assign':
                val = self.eval(found[1].value, fr)
            else:
                val = self.eval(found[1].value, fr)[found[2]]
            self.ctx.modstate[key] = val
            return val
        if not isinstance(found, (FuncRef, ClassRef)):
            self.ctx.modstate[key] = found
        return found

    def import_binding(self, module, st, name):
        if isinstance(st, ast.Import):
            for a in st.names:
                bound = a.asname or a.name.split('.')[0]
                if bound == name:
                    return ModRef(a.name if a.asname else a.name.split('.')[0])
            return None
        # ImportFrom
        for a in st.names:
            bound = a.asname or a.name
            if bound != name:
                continue
            base = st.module or ''
            if st.level:
                parts = module.modname.split('.')
                if not module.relpath.endswith('__init__.py'):
                    parts = parts[:-1]
                parts = parts[:len(parts) - (st.level - 1)]
                base = '.'.join(parts + ([base] if base else []))
            return self.resolve_dotted(base + '.' + a.name)
        return None

    def resolve_dotted(self, dotted, _depth=0):
        """dotted global name -> value (repo def, module, or trusted model)"""
        consts = getattr(self.models, 'CONSTS', {})
        if dotted in consts:
            return _NoneConst if consts[dotted] is None else consts[dotted]
        m = self.models.lookup(dotted)
        if m is not None:
            return m
        rel = frontend.resolve_module(dotted)
        if rel is not None:
            return ModRef(dotted)
        if '.' in dotted:
            modname, attr = dotted.rsplit('.', 1)
            rel = frontend.resolve_module(modname)
            if rel is not None and _depth < 6:
                mod = frontend.load(rel)
                try:
                    return self.module_lookup(mod, attr)
                except (PyExc, Unsupported):
                    # a module global whose initialiser is outside the modelled subset: opaque -- any USE of it is Unsupported
                    return Opaque(dotted)
        if dotted.split('.')[0] in self.models.KNOWN_EXTERNAL:
            return ModRef(dotted)
        return Opaque(dotted)

    def builtin_lookup(self, name):
        m = self.models.lookup('builtins.' + name)
        if m is not None:
            return m
        if name in ExcClass.HIER or name.endswith('Error') or name.endswith('Warning'):
            return ExcClass(name)
        raise Unsupported('unknown global name %r (no model)' % name)

    # ---- names ------------------------------------------------------------
    def load_name(self, name, frame):
        f = frame
        if name in frame.globals_decl:
            self.ctx.events.append(('global-read', frame.module.relpath, name))
            return self.module_lookup(frame.module, name)
        while f is not None:
            if name in f.locals:
                return f.locals[name]
            f = f.parent
        return self.module_lookup(frame.module, name)

    def store_name(self, name, val, frame):
        if name in frame.globals_decl or getattr(frame, 'is_module', False):
            self.ctx.modstate[(frame.module.relpath, name)] = val
            if not getattr(frame, 'is_module', False):
                self.ctx.events.append(('global-write', frame.module.relpath, name))
            return
        if name in frame.nonlocal_decl:
            f = frame.parent
            while f is not None:
                if name in f.locals:
                    f.locals[name] = val
                    return
                f = f.parent
        frame.locals[name] = val

    # ---- calls ------------------------------------------------------------
    def bind_args(self, func, args, kwargs, frame_for_defaults=None):
        a = func.node.args
        params = [p.arg for p in a.posonlyargs + a.args]
        loc = {}
        args = list(args)
        if func.bound is not None:
            args = [func.bound] + args
        kwargs = dict(kwargs)
        n = len(params)
        for i, p in enumerate(params):
            if i < len(args):
                loc[p] = args[i]
        if len(args) > n:
            if a.vararg is None:
                raise PyExc('TypeError', 'too many positional arguments')
            loc[a.vararg.arg] = tuple(args[n:])
        elif a.vararg is not None:
            loc[a.vararg.arg] = ()
        # defaults
        defaults = a.defaults
        dfr = Frame(FuncRef(func.module, func.node, owner=func.owner, qual=func.qual), {}, func.closure)
        for i, p in enumerate(params):
            if p in loc:
                if p in kwargs:
                    raise PyExc('TypeError', 'multiple values for ' + p)
                continue
            if p in kwargs:
                loc[p] = kwargs.pop(p)
                continue
            di = i - (n - len(defaults))
            if di >= 0:
                loc[p] = self.eval(defaults[di], dfr)
            else:
                raise PyExc('TypeError', 'missing argument ' + p)
        for p, d in zip(a.kwonlyargs, a.kw_defaults):
            if p.arg in kwargs:
                loc[p.arg] = kwargs.pop(p.arg)
            elif d is not None:
                loc[p.arg] = self.eval(d, dfr)
            else:
                raise PyExc('TypeError', 'missing kw-only argument ' + p.arg)
        if a.kwarg is not None:
            loc[a.kwarg.arg] = kwargs
        elif kwargs:
            raise PyExc('TypeError', 'unexpected keyword %s' % list(kwargs))
        return loc

    def func_key(self, func):
        q = func.qual
        return (func.module.relpath, q)

    def call_function(self, func, args, kwargs):
        key = self.func_key(func)
        if key in self.contracts and key != self.target:
            return self.contracts[key].apply(self, func, args, kwargs)
        if self.depth >= MAX_INLINE_DEPTH:
            raise Unsupported('inline depth exceeded at %s' % func.qual)
        if key != self.target:
            self.ctx.inlined.add('%s::%s' % key)
        loc = self.bind_args(func, args, kwargs)
        frame = Frame(func, loc, func.closure)
        if _is_generator(func.node):
            return self.run_generator(func, frame)
        self.depth += 1
        try:
            self.exec_block(func.node.body, frame)
            return None
        except _Return as r:
            return r.v
        finally:
            self.depth -= 1

    def run_generator(self, func, frame):
        """generators are run eagerly; the result is the list of yielded values
        (sound for finite generators consumed completely, which is how the
        verified callers use them)."""
        saved = self.yields
        self.yields = []
        self.depth += 1
        try:
            try:
                self.exec_block(func.node.body, frame)
            except _Return:
                pass
            return GenResult(self.yields)
        finally:
            self.depth -= 1
            self.yields = saved

    def call(self, f, args, kwargs, node=None):
        if isinstance(f, FuncRef):
            return self.call_function(f, args, kwargs)
        if isinstance(f, Builtin):
            if f.trusted:
                self.ctx.trust(f.trusted)
            return f.fn(self, args, kwargs)
        if isinstance(f, ClassRef):
            return self.instantiate(f, args, kwargs)
        if isinstance(f, ExcClass):
            return ExcInstance(f.name, args)
        if isinstance(f, BoundModel):
            return f(self, args, kwargs)
        if isinstance(f, Opaque):
            return self.havoc_call(f.origin, args, kwargs)
        if type(f).__name__ == 'AbsVal':         # instantiating an abstract class (a registered reader): an opaque call
            return self.havoc_call('abstract %s' % f.kind, args, kwargs)
        if callable(f) and getattr(f, '_pyvc_native', False):
            return f(self, args, kwargs)
        raise Unsupported('call of %r' % (f,))

    def havoc_call(self, origin, args, kwargs):
        self.ctx.havocked.append(origin)
        for a in list(args) + list(kwargs.values()):
            self.havoc_value(a)
        return Opaque(origin + '()')

    def havoc_value(self, v, _seen=None):
        """conservative: an unknown callee may have written every mutable object
        reachable from its arguments"""
        _seen = _seen if _seen is not None else set()
        if id(v) in _seen:
            return
        _seen.add(id(v))
        if isinstance(v, list):
            for x in v:
                self.havoc_value(x, _seen)
            v.append(Opaque('havoc-list-tail'))
            v.insert(0, Opaque('havoc-list-head'))
        elif isinstance(v, dict):
            for k in list(v):
                self.havoc_value(v[k], _seen)
                v[k] = Opaque('havoc-dict')
        elif isinstance(v, Obj):
            for k in list(v.attrs):
                self.havoc_value(v.attrs[k], _seen)
                v.attrs[k] = Opaque('havoc-attr %s' % k)
            v.ghost['havocked'] = True
        elif hasattr(v, 'havoc'):
            v.havoc(self)

    def dictlike(self, cls, _d=0):
        """repo classes that merely subclass (Ordered)dict without their own constructor are modelled as plain dicts"""
        if '__init__' in cls.members() or '__missing__' in cls.members():
            return False
        for b in cls.node.bases:
            try:
                fr = Frame(FuncRef(cls.module, ast.FunctionDef(name='<class>', body=[], args=None)), {})
                v = self.eval(b, fr)
            except (PyExc, Unsupported):
                continue
            if isinstance(v, Builtin) and v.name in ('collections.OrderedDict', 'builtins.dict'):
                return True
            if isinstance(v, ClassRef) and _d < 4 and self.dictlike(v, _d + 1):
                return True
        return False

    def instantiate(self, cls, args, kwargs):
        if self.dictlike(cls) and not args and not kwargs:
            self.ctx.trust('dict subclass %s modelled as a plain dict (its __repr__ only)' % cls.name)
            return {}
        new = self.class_getattr(cls, '__new__')
        if isinstance(new, FuncRef):
            obj = self.call_function(new, [cls] + list(args), dict(kwargs))
            if not isinstance(obj, Obj):
                return obj
            init = self.class_getattr(cls, '__init__')
            if init is not None:
                self.call(init.bind(obj) if isinstance(init, FuncRef) else init, args, kwargs)
            return obj
        obj = Obj(cls)
        init = self.class_getattr(cls, '__init__')
        if init is not None:
            self.call(init.bind(obj) if isinstance(init, FuncRef) else init, args, kwargs)
        return obj

    def class_bases(self, cls):
        out = []
        for b in cls.node.bases:
            try:
                fr = Frame(FuncRef(cls.module, ast.FunctionDef(name='<class>', body=[], args=None)), {})
                v = self.eval(b, fr)
            except (PyExc, Unsupported):
                v = None
            if isinstance(v, ClassRef):
                out.append(v)
        return out

    def class_getattr(self, cls, name, _depth=0):
        if name in cls.state:
            return cls.state[name]
        mem = cls.members()
        if name in mem:
            st = mem[name]
            if isinstance(st, ast.FunctionDef):
                kind = None
                for d in st.decorator_list:
                    if isinstance(d, ast.Name) and d.id in ('classmethod', 'staticmethod', 'property'):
                        kind = d.id
                fr = FuncRef(cls.module, st, owner=cls, qual=cls.name + '.' + st.name)
                fr.kind = kind
                return fr
            if isinstance(st, ast.ClassDef):
                return self.classref(cls.module, st)
            if isinstance(st, (ast.Import, ast.ImportFrom)):
                return self.import_binding(cls.module, st, name)
            # class level assignment: evaluate in class-body env
            frame = Frame(FuncRef(cls.module, ast.FunctionDef(name='<classbody>', body=[], args=None), owner=cls), {})
            frame.classbody = cls
            val = self.eval(st.value, frame)
            cls.state[name] = val
            return val
        if _depth < 8:
            for b in self.class_bases(cls):
                v = self.class_getattr(b, name, _depth + 1)
                if v is not None:
                    return v
        return None

    # ---- attribute access --------------------------------------------------
    def getattr(self, obj, name, frame=None, default=KeyError):
        if frame is not None and frame.owner is not None:
            name = mangle(name, frame.owner.name)
        if isinstance(obj, Obj):
            if name in obj.attrs:
                return obj.attrs[name]
            if obj.cls is not None:
                v = self.class_getattr(obj.cls, name)
                if v is not None:
                    if isinstance(v, FuncRef):
                        kind = getattr(v, 'kind', None)
                        if kind == 'staticmethod':
                            return v
                        if kind == 'classmethod':
                            return v.bind(obj.cls)
                        if kind == 'property':
                            return self.call_function(v.bind(obj), [], {})
                        return v.bind(obj)
                    return v
            m = self.models.obj_getattr(self, obj, name)
            if m is not None:
                return m
            if obj.cls is None and not obj.ghost.get('closed') and not (name.startswith('__') and name.endswith('__')):
                # an abstract stand-in written by a contract exposes only the interface the contract models: whether the REAL
                # object has this attribute is unknown, so neither AttributeError nor a default may be concluded
                raise Unsupported('attribute %r of the abstract stand-in <%s> is not modelled' % (name, obj.tag))
            if default is not KeyError:
                return default
            raise PyExc('AttributeError', name)
        if isinstance(obj, ClassRef):
            v = self.class_getattr(obj, name)
            if v is None:
                if default is not KeyError:
                    return default
                raise PyExc('AttributeError', name)
            if isinstance(v, FuncRef) and getattr(v, 'kind', None) == 'classmethod':
                return v.bind(obj)
            return v
        if isinstance(obj, SuperProxy):
            for b in self.class_bases(obj.owner):
                v = self.class_getattr(b, name)
                if isinstance(v, FuncRef):
                    return v.bind(obj.instance)
                if v is not None:
                    return v
            m = self.models.lookup('builtins.object.' + name)
            if m is not None:
                inst = obj.instance
                return BoundModel(lambda I, r, args, kw: m.fn(I, [r] + list(args), kw), inst)
            raise PyExc('AttributeError', name)
        if isinstance(obj, ModRef):
            return self.resolve_dotted(obj.dotted + '.' + name)
        if isinstance(obj, Opaque):
            return Opaque(obj.origin + '.' + name)
        if isinstance(obj, FuncRef):
            if name == '__doc__':
                return ast.get_docstring(obj.node)
            if name == '__name__':
                return obj.node.name
        m = self.models.value_getattr(self, obj, name)
        if m is not None:
            return m
        if default is not KeyError:
            return default
        raise Unsupported('getattr %s on %r' % (name, type(obj).__name__))

    def setattr(self, obj, name, val, frame=None):
        if frame is not None and frame.owner is not None:
            name = mangle(name, frame.owner.name)
        if isinstance(obj, Obj):
            hook = self.models.obj_setattr(self, obj, name, val)
            if hook:
                return
            if obj.cls is not None:
                sa = self.class_getattr(obj.cls, '__setattr__')
                if isinstance(sa, FuncRef) and not getattr(self, '_in_setattr', False) is obj:
                    prev = getattr(self, '_in_setattr', False)
                    self._in_setattr = obj
                    try:
                        self.call_function(sa.bind(obj), [name, val], {})
                    finally:
                        self._in_setattr = prev
                    return
            obj.attrs[name] = val
            self.ctx.events.append(('setattr', obj.id, name))
            return
        if isinstance(obj, ClassRef):
            obj.state[name] = val
            return
        if isinstance(obj, FuncRef) and name == '__doc__':
            self.ctx.events.append(('setdoc', obj.qual))
            return
        if isinstance(obj, Opaque):
            return
        if getattr(obj, 'is_sarr', False):
            cls = getattr(obj, 'cls', None)
            if cls is not None and getattr(self, '_in_setattr', False) is not obj:
                sa = self.class_getattr(cls, '__setattr__')
                if isinstance(sa, FuncRef):
                    prev = getattr(self, '_in_setattr', False)
                    self._in_setattr = obj
                    try:
                        self.call_function(sa.bind(obj), [name, val], {})
                    finally:
                        self._in_setattr = prev
                    return
            obj.attrs[name] = val          # attribute of an array object (variable metadata)
            return
        raise Unsupported('setattr %s on %r' % (name, obj))

    # ---- statements --------------------------------------------------------
    def exec_block(self, body, frame):
        for st in body:
            self.exec(st, frame)

    def exec(self, st, frame):
        m = getattr(self, 'x_' + type(st).__name__, None)
        if m is None:
            raise Unsupported('statement %s at %s:%d' % (type(st).__name__, frame.module.relpath, st.lineno))
        try:
            return m(st, frame)
        except Unsupported as e:
            if not getattr(e, 'located', False):
                e.args = ('%s [at %s:%d]' % (e.args[0] if e.args else '', frame.module.relpath, st.lineno),)
                e.located = True
            raise

    def x_Pass(self, st, frame):
        pass

    def x_Expr(self, st, frame):
        if isinstance(st.value, ast.Constant):
            return  # docstring
        if isinstance(st.value, (ast.Yield,)):
            self.eval(st.value, frame)
            return
        if isinstance(st.value, ast.Call):
            fn = st.value.func
            nm = fn.id if isinstance(fn, ast.Name) else (fn.attr if isinstance(fn, ast.Attribute) else '')
            if nm == 'print' and any(k.arg == 'file' for k in st.value.keywords):
                # print(..., file=f): one text line appended to f (more if an argument is known to contain a newline);
                # the ghost line counter of the file and the list of concrete texts are what contracts speak about
                fobj = self.eval([k.value for k in st.value.keywords if k.arg == 'file'][0], frame)
                args = [self.eval(a, frame) for a in st.value.args]
                extra = sum(a.count('\n') for a in args if isinstance(a, str))
                if any(k.arg == 'end' for k in st.value.keywords):
                    raise Unsupported('print with end=')
                g = fobj.ghost if isinstance(fobj, Obj) else self.ctx.ghost.setdefault('print_targets', {}).setdefault(id(fobj), {})
                key = 'lines'
                cur = self.ctx.ghost.get(('lines', id(fobj)), 0)
                self.ctx.ghost[('lines', id(fobj))] = sym.add(cur, 1 + extra)
                self.ctx.ghost.setdefault(('printed', id(fobj)), []).append(tuple(args))
                return
            if nm in ('print', 'warn'):
                self.ctx.dropped.add(nm + '(...)')
                return
        self.eval(st.value, frame)

    def x_Assign(self, st, frame):
        v = self.eval(st.value, frame)
        for t in st.targets:
            self.assign(t, v, frame)

    def x_AnnAssign(self, st, frame):
        if st.value is not None:
            self.assign(st.target, self.eval(st.value, frame), frame)

    def assign(self, t, v, frame):
        if isinstance(t, ast.Name):
            self.store_name(t.id, v, frame)
        elif isinstance(t, (ast.Tuple, ast.List)):
            items = self.iterate(v, frame)
            star = [i for i, e in enumerate(t.elts) if isinstance(e, ast.Starred)]
            if star:
                i = star[0]
                nafter = len(t.elts) - i - 1
                for e, x in zip(t.elts[:i], items[:i]):
                    self.assign(e, x, frame)
                self.assign(t.elts[i].value, list(items[i:len(items) - nafter]), frame)
                for e, x in zip(t.elts[i + 1:], items[len(items) - nafter:]):
                    self.assign(e, x, frame)
                return
            if len(items) != len(t.elts):
                raise PyExc('ValueError', 'unpack')
            for e, x in zip(t.elts, items):
                self.assign(e, x, frame)
        elif isinstance(t, ast.Attribute):
            self.setattr(self.eval(t.value, frame), t.attr, v, frame)
        elif isinstance(t, ast.Subscript):
            obj = self.eval(t.value, frame)
            idx = self.eval_index(t.slice, frame)
            self.setitem(obj, idx, v)
        else:
            raise Unsupported('assign target %s' % type(t).__name__)

    def x_AugAssign(self, st, frame):
        t = st.target
        if isinstance(t, ast.Name):
            cur = self.load_name(t.id, frame)
            rhs = self.eval(st.value, frame)
            res = self.models.inplace_op(self, st.op, cur, rhs)
            if res is not NotImplemented:
                # in-place mutation of a mutable object; name keeps its binding
                self.store_name(t.id, res, frame)
                return
            self.store_name(t.id, self.binop(st.op, cur, rhs), frame)
        elif isinstance(t, ast.Attribute):
            obj = self.eval(t.value, frame)
            cur = self.getattr(obj, t.attr, frame)
            rhs = self.eval(st.value, frame)
            res = self.models.inplace_op(self, st.op, cur, rhs)
            if res is NotImplemented:
                res = self.binop(st.op, cur, rhs)
            self.setattr(obj, t.attr, res, frame)
        elif isinstance(t, ast.Subscript):
            obj = self.eval(t.value, frame)
            idx = self.eval_index(t.slice, frame)
            cur = self.getitem(obj, idx)
            rhs = self.eval(st.value, frame)
            res = self.models.inplace_op(self, st.op, cur, rhs)
            if res is NotImplemented:
                res = self.binop(st.op, cur, rhs)
            self.setitem(obj, idx, res)
        else:
            raise Unsupported('augassign target')

    def x_Return(self, st, frame):
        raise _Return(self.eval(st.value, frame) if st.value is not None else None)

    def x_If(self, st, frame):
        if self.ctx.branch(self.eval(st.test, frame)):
            self.exec_block(st.body, frame)
        else:
            self.exec_block(st.orelse, frame)

    def x_Raise(self, st, frame):
        if st.exc is None:
            cur = getattr(frame, 'current_exc', None)
            if cur is None:
                f = frame
                while f is not None and cur is None:
                    cur = getattr(f, 'current_exc', None)
                    f = f.parent
            raise cur if cur is not None else PyExc('RuntimeError')
        # only the class matters; the message is dropped
        e = st.exc
        name = None
        if isinstance(e, ast.Call):
            e = e.func
        if isinstance(e, ast.Name):
            name = e.id
        elif isinstance(e, ast.Attribute):
            name = e.attr
        v = None
        try:
            v = self.eval(e, frame)
        except (PyExc, Unsupported):
            pass
        if isinstance(v, ExcInstance):
            name = v.cls
        elif isinstance(v, ExcClass):
            name = v.name
        elif isinstance(v, ClassRef):
            name = v.name
        self.ctx.dropped.add('exception messages')
        raise PyExc(name or 'Exception')

    def x_Assert(self, st, frame):
        if not self.ctx.branch(self.eval(st.test, frame)):
            raise PyExc('AssertionError')

    def x_Global(self, st, frame):
        frame.globals_decl.update(st.names)

    def x_Nonlocal(self, st, frame):
        frame.nonlocal_decl.update(st.names)

    def x_Break(self, st, frame):
        raise _Break()

    def x_Continue(self, st, frame):
        raise _Continue()

    def x_Delete(self, st, frame):
        for t in st.targets:
            if isinstance(t, ast.Name):
                frame.locals.pop(t.id, None)
            elif isinstance(t, ast.Subscript):
                obj = self.eval(t.value, frame)
                idx = self.eval_index(t.slice, frame)
                self.models.delitem(self, obj, idx)
            elif isinstance(t, ast.Attribute):
                obj = self.eval(t.value, frame)
                self.models.delattr(self, obj, mangle(t.attr, frame.owner.name if frame.owner else None))
            else:
                raise Unsupported('del target')

    def x_FunctionDef(self, st, frame):
        self.store_name(st.name, FuncRef(frame.module, st, closure=frame, owner=None,
                                         qual=frame.func.qual + '.' + st.name), frame)

    def x_ClassDef(self, st, frame):
        # a class defined inside a function body (no closure over locals is modelled: bases/decorators must be module-level)
        if st.decorator_list or st.keywords:
            raise Unsupported('decorated local class')
        self.store_name(st.name, self.classref(frame.module, st), frame)

    def x_Import(self, st, frame):
        for a in st.names:
            bound = a.asname or a.name.split('.')[0]
            self.store_name(bound, ModRef(a.name if a.asname else a.name.split('.')[0]), frame)

    def x_ImportFrom(self, st, frame):
        for a in st.names:
            bound = a.asname or a.name
            self.store_name(bound, self.import_binding(frame.module, st, bound), frame)

    def x_Try(self, st, frame):
        try:
            try:
                self.exec_block(st.body, frame)
            except PyExc as e:
                for h in st.handlers:
                    if self.handler_matches(h, e, frame):
                        if h.name:
                            self.store_name(h.name, ExcInstance(e.cls, ()), frame)
                        prev = getattr(frame, 'current_exc', None)
                        frame.current_exc = e
                        try:
                            self.exec_block(h.body, frame)
                        finally:
                            frame.current_exc = prev
                        break
                else:
                    raise
            else:
                self.exec_block(st.orelse, frame)
        finally:
            if st.finalbody:
                self.exec_block(st.finalbody, frame)

    def handler_matches(self, h, e, frame):
        if h.type is None:
            return True
        types = h.type.elts if isinstance(h.type, ast.Tuple) else [h.type]
        for t in types:
            nm = t.id if isinstance(t, ast.Name) else (t.attr if isinstance(t, ast.Attribute) else None)
            if nm and ExcClass.issub(e.cls, nm):
                return True
            if nm in ('BaseException',):
                return True
        return False

    def x_With(self, st, frame):
        raise Unsupported('with statement')

    # ---- loops -----------------------------------------------------------
    def loop_ordinal(self, st, frame):
        fn = frame.func.node
        if frame.loop_ordinals is None:
            frame.loop_ordinals = {}
            loops = [n for n in _walk_no_nested(fn) if isinstance(n, (ast.For, ast.While))]
            loops.sort(key=lambda n: (n.lineno, n.col_offset))
            for k, n in enumerate(loops):
                frame.loop_ordinals[id(n)] = k
        return frame.loop_ordinals.get(id(st))

    def loop_spec(self, st, frame):
        specs = self.loop_specs.get(self.func_key(frame.func))
        if not specs:
            return None
        # keys that survive harmless edits come first: 'iter:<text>' matches a `for` whose iterable, unparsed, contains the text
        for k, v in specs.items():
            if isinstance(k, str) and k.startswith('iter:') and isinstance(st, ast.For) and k[5:] in ast.unparse(st.iter):
                return v
        return specs.get(self.loop_ordinal(st, frame))

    def x_While(self, st, frame):
        spec = self.loop_spec(st, frame)
        if spec is not None:
            return self.cutpoint_loop(st, frame, spec,
                                      cond=lambda: self.eval(st.test, frame), step=None)
        n = 0
        while True:
            c = self.eval(st.test, frame)
            if is_sym(sym.truthy(c)) and n >= 64:
                raise Unsupported('while loop with symbolic condition needs an invariant')
            if not self.ctx.branch(c):
                self.exec_block(st.orelse, frame)
                break
            n += 1
            if n > 4096:
                raise Unsupported('loop bound exceeded')
            try:
                self.exec_block(st.body, frame)
            except _Break:
                break
            except _Continue:
                continue

    def x_For(self, st, frame):
        it = self.eval(st.iter, frame)
        spec = self.loop_spec(st, frame)
        if spec is not None:
            return self.models.symbolic_for(self, st, frame, it, spec)
        if self.models.hook('map_append_for', self, st, frame, it):
            return
        items = self.live_items(it, frame)
        broke = False
        for x in items:
            self.assign(st.target, x, frame)
            try:
                self.exec_block(st.body, frame)
            except _Break:
                broke = True
                break
            except _Continue:
                continue
        if not broke:
            self.exec_block(st.orelse, frame)

    def live_items(self, it, frame):
        """items of a for statement over a CONCRETE container that the body may mutate: a dict / set whose size has changed when the
        next item is asked for raises RuntimeError (CPython checks the size before it looks for the next key, also after the last
        one); a list is walked by position over its CURRENT content"""
        if isinstance(it, (dict, set)) and not isinstance(it, frozenset):
            def gen_keys():
                n0 = len(it)
                for x in list(it):
                    if len(it) != n0:
                        raise PyExc('RuntimeError')
                    yield x
                if len(it) != n0:
                    raise PyExc('RuntimeError')
            return gen_keys()
        if isinstance(it, list):
            def gen_list():
                i = 0
                while i < len(it):
                    yield it[i]
                    i += 1
            return gen_list()
        return self.iterate(it, frame)

    def assigned_names(self, body):
        names = set()
        for n in itertools.chain.from_iterable(_walk_no_nested_stmts(body)):
            if isinstance(n, ast.Name) and isinstance(n.ctx, (ast.Store, ast.Del)):
                names.add(n.id)
        return names

    def mutated_names(self, body):
        """names of objects written through a subscript / attribute store (X[...] = v, X[...] += v, X.a = v)
        or through a mutating method call (X.append(..), X.insert(..), ...)"""
        names = set()
        for n in itertools.chain.from_iterable(_walk_no_nested_stmts(body)):
            if isinstance(n, (ast.Subscript, ast.Attribute)) and isinstance(n.ctx, (ast.Store, ast.Del)):
                b = n.value
                while isinstance(b, (ast.Subscript, ast.Attribute)):
                    b = b.value
                if isinstance(b, ast.Name):
                    names.add(b.id)
            if isinstance(n, ast.Call) and isinstance(n.func, ast.Attribute) and n.func.attr in (
                    'append', 'insert', 'extend', 'pop', 'remove', 'update', 'setdefault', 'sort', 'clear'):
                b = n.func.value
                while isinstance(b, (ast.Subscript, ast.Attribute)):
                    b = b.value
                if isinstance(b, ast.Name):
                    names.add(b.id)
        return names

    def cutpoint_loop(self, st, frame, spec, cond, step=None, pre_body=None):
        """Cut-point rule.  choice 0: establish the invariant, then continue after
        the loop from an arbitrary state satisfying inv && !cond.
        choice 1: arbitrary iteration -- assume inv && cond, run the body, prove
        inv again (and the variant decreased), then end the path."""
        ctx = self.ctx
        name = '%s/loop#%s' % (frame.func.qual, self.loop_ordinal(st, frame))
        env = LoopEnv(self, frame)
        env.node = st
        if step is not None:
            hid = sorted(n for n in step[0] if n.startswith(('__it_', '__idx_')))
            env.index_name = hid[0] if hid else None
        ginit = spec.ghost_init(env) if callable(spec.ghost_init) else (spec.ghost_init or {})
        for g, v in ginit.items():
            ctx.ghost[g] = v
        if spec.lemmas is not None:
            from .verify import discharge
            for lname, lf in spec.lemmas(env):
                if lname.startswith('trusted:'):
                    # instance of a trusted library contract (e.g. the np.interp cell axiom at a given value)
                    ctx.trust('instance assumed at a loop entry: ' + lname[8:])
                    ctx.assume(lf)
                    continue
                ctx.prove(name + '/lemma:' + lname, lf, 'lemma')
                ob = ctx.obligations[-1]
                from .verify import _EXPLORE_ONLY
                if _EXPLORE_ONLY['on']:
                    continue
                if getattr(ctx, 'prefer', None):
                    ob.meta['prefer'] = ctx.prefer
                if getattr(ctx, 'cli_timeout_s', None):
                    ob.meta['cli_timeout_s'] = ctx.cli_timeout_s
                discharge(ob)
                if ob.status == 'unsat' and is_sym(lf):
                    ctx.pc.append(lf)
        self._prove_inv(name + '/inv-init', spec.inv(env), 'inv-init', pop=True)
        which = ctx.choose(2, name)
        for g, v in ginit.items():
            ctx.ghost[g] = self.havoc_like(v, 'ghost_' + (g if isinstance(g, str) else '_'.join(str(x) for x in g)))
        # havoc everything the loop assigns
        mods = self.assigned_names(st.body)
        if step is not None:
            mods |= step[0]
        aliased = sorted(self.mutated_names(st.body) & self.assigned_names(st.body))
        if aliased and spec.havoc is None:
            # `h = outer[...]; h[...] = v` inside the loop: the store goes through a name bound IN the loop, i.e. possibly to an
            # alias of an outer object that the name-based havoc below would miss.  Sound only when the specification takes over
            # the havoc of whatever those names may alias (LoopSpec.havoc).
            raise Unsupported('cut-point loop stores through %s, bound inside the loop (possible alias of an outer object): LoopSpec.havoc required' % ', '.join(aliased))
        for nm in sorted(mods):
            if nm in frame.locals:
                frame.locals[nm] = self.havoc_like(frame.locals[nm], nm)
        for nm in sorted(self.mutated_names(st.body) - mods):
            try:
                obj = self.load_name(nm, frame)
            except PyExc:
                continue
            if hasattr(obj, 'havoc') and not isinstance(obj, (list, dict)):
                old_get = obj.buf.get if hasattr(obj, 'buf') else None
                obj.havoc(self)           # arrays written in the loop: arbitrary content, same identity
                fr = spec.modifies.get(nm)
                if fr is not None and old_get is not None:
                    # frame: elements outside the declared write set keep their value
                    q = tuple(z3.Int('fr_%s_%d' % (nm, k)) for k in range(len(obj.buf.shape)))
                    outside = sym.Not(fr(env, q))
                    ctx.assume(z3.ForAll(list(q), sym.Implies(outside, sym.eq(obj.buf.get(q), old_get(q)))))
                    if which == 1:
                        obj.buf.guards = getattr(obj.buf, 'guards', []) + [(name, lambda idx, fr=fr: fr(env, idx))]
            elif isinstance(obj, (list, dict, Obj)):
                raise Unsupported('loop mutates %s (a %s) -- needs an abstract container for a cut-point loop' % (nm, type(obj).__name__))
        if spec.havoc is not None:
            spec.havoc(env)
        ctx.assume(self._inv_formula(spec.inv(env)))
        if which == 1:
            c = cond()
            ctx.assume(sym.truthy(c))
            if not ctx.feasible():
                raise PathEnd('loop body unreachable')
            variant0 = spec.decreases(env) if spec.decreases else None
            if pre_body:
                pre_body()
            try:
                self.exec_block(st.body, frame)
            except _Continue:
                pass
            except _Break:
                raise Unsupported('break inside a cut-point loop')
            if step is not None:
                step[1]()
            if spec.ghost_step is not None:
                ctx.ghost.update(spec.ghost_step(env))
            if spec.keep_lemmas is not None:
                self._prove_inv(name + '/keep-lemma', [('lemma:' + n, f) for n, f in spec.keep_lemmas(env)], 'lemma')
            self._prove_inv(name + '/inv-keep', spec.inv(env), 'inv-keep')
            if variant0 is not None:
                v1 = spec.decreases(env)
                ctx.prove(name + '/term', sym.And(sym.ge(variant0, 0) if not spec.variant_real else sym.ge(variant0, 0),
                                                  sym.le(v1, sym.sub(variant0, spec.variant_step))), 'term')
            raise PathEnd('inductive step checked')
        else:
            c = cond()
            ctx.assume(sym.Not(sym.truthy(c)))
            self.exec_block(st.orelse, frame)

    @staticmethod
    def _inv_formula(inv):
        if isinstance(inv, (list, tuple)):
            return sym.And(*[f for _, f in inv])
        return inv

    def _prove_inv(self, name, inv, kind, pop=False):
        """an invariant given as a list of named conjuncts is proved conjunct by conjunct, each proved conjunct being
        available to the following ones (staged); a single formula is one obligation"""
        ctx = self.ctx
        if not isinstance(inv, (list, tuple)):
            ctx.prove(name, inv, kind)
            return
        from .verify import discharge, _EXPLORE_ONLY
        n0 = len(ctx.pc)
        for cn, f in inv:
            k = 'lemma' if cn.startswith('lemma:') else kind
            ctx.prove('%s:%s' % (name, cn[6:] if cn.startswith('lemma:') else cn), f, k)
            ob = ctx.obligations[-1]
            if _EXPLORE_ONLY['on']:
                continue
            if getattr(ctx, 'prefer', None):
                ob.meta['prefer'] = ctx.prefer
            if getattr(ctx, 'cli_timeout_s', None):
                ob.meta['cli_timeout_s'] = ctx.cli_timeout_s
            discharge(ob)
            if ob.status == 'unsat' and is_sym(f):
                ctx.pc.append(f)
        if pop:
            del ctx.pc[n0:]

    def havoc_like(self, v, name):
        ctx = self.ctx
        if is_sym(v):
            if z3.is_int(v):
                return ctx.fresh(name, 'Int')
            if z3.is_real(v):
                return ctx.fresh(name, 'Real')
            if z3.is_bool(v):
                return ctx.fresh(name, 'Bool')
        if isinstance(v, bool):
            return ctx.fresh(name, 'Bool')
        if isinstance(v, int):
            return ctx.fresh(name, 'Int')
        if isinstance(v, (Fraction, float)):
            return ctx.fresh(name, 'Real')
        if isinstance(v, tuple):
            return tuple(self.havoc_like(x, name) for x in v)
        if hasattr(v, 'havoc_like'):
            return v.havoc_like(self, name)
        if isinstance(v, str) or getattr(v, 'is_recarr', False):
            # a local the loop rebinds (a key, a view of a record): unknown at the loop head -- any USE before it is bound again
            # is unsupported (Opaque never satisfies a clause)
            return Opaque('loop-modified %s' % name)
        raise Unsupported('cannot havoc loop-modified variable %s of type %s' % (name, type(v).__name__))

    # ---- iteration -------------------------------------------------------
    def iterate(self, v, frame=None):
        if isinstance(v, (list, tuple)):
            return list(v)
        if isinstance(v, str):
            return list(v)
        if isinstance(v, dict):
            return list(v.keys())
        if isinstance(v, (range, set, frozenset)):
            return list(v)
        if isinstance(v, GenResult):
            return list(v.items)
        r = self.models.iterate(self, v)
        if r is not None:
            return r
        raise Unsupported('iteration over %s' % type(v).__name__)

    # ---- expressions -----------------------------------------------------
    def eval(self, e, frame):
        m = getattr(self, 'e_' + type(e).__name__, None)
        if m is None:
            raise Unsupported('expression %s' % type(e).__name__)
        return m(e, frame)

    def e_Constant(self, e, frame):
        v = e.value
        if isinstance(v, float):
            seg = None
            try:
                seg = ast.get_source_segment(frame.module.text, e)
            except Exception:
                pass
            if seg:
                try:
                    return sym.lit_float(seg.replace('_', ''))
                except Exception:
                    pass
            return Fraction(v)
        return v

    def e_Name(self, e, frame):
        cb = getattr(frame, 'classbody', None)
        if cb is not None:
            v = self.class_getattr(cb, mangle(e.id, cb.name))
            if v is not None:
                return v
        return self.load_name(e.id, frame)

    def e_Attribute(self, e, frame):
        return self.getattr(self.eval(e.value, frame), e.attr, frame)

    def e_Tuple(self, e, frame):
        out = []
        for x in e.elts:
            if isinstance(x, ast.Starred):
                out.extend(self.iterate(self.eval(x.value, frame)))
            else:
                out.append(self.eval(x, frame))
        return tuple(out)

    def e_List(self, e, frame):
        return list(self.e_Tuple(e, frame))

    def e_Set(self, e, frame):
        return set(self.e_Tuple(e, frame))

    def e_Dict(self, e, frame):
        d = {}
        for k, v in zip(e.keys, e.values):
            if k is None:
                d.update(self.eval(v, frame))
            else:
                d[self.eval(k, frame)] = self.eval(v, frame)
        return d

    def e_JoinedStr(self, e, frame):
        parts = []
        for v in e.values:
            if isinstance(v, ast.Constant):
                parts.append(v.value)
            else:
                x = self.eval(v.value, frame)
                if is_sym(x) or isinstance(x, (Obj, Opaque)):
                    return Opaque('f-string')
                parts.append(format(x, self.eval(v.format_spec, frame) if v.format_spec else ''))
        return ''.join(parts)

    def e_IfExp(self, e, frame):
        if self.ctx.branch(self.eval(e.test, frame)):
            return self.eval(e.body, frame)
        return self.eval(e.orelse, frame)

    def e_BoolOp(self, e, frame):
        isand = isinstance(e.op, ast.And)
        v = None
        for i, x in enumerate(e.values):
            v = self.eval(x, frame)
            if i == len(e.values) - 1:
                return v
            t = self.ctx.branch(self.truth(v))
            if isand and not t:
                return v if not is_sym(v) else False
            if not isand and t:
                return v if not is_sym(v) else True
        return v

    def truth(self, v):
        if is_sym(v):
            return sym.truthy(v)
        if isinstance(v, (Obj, FuncRef, ClassRef, ModRef, Builtin)):
            return True
        if isinstance(v, Opaque):
            raise Unsupported('truth value of opaque %s' % v.origin)
        t = self.models.truth(self, v)
        if t is not None:
            return t
        return bool(v)

    def e_UnaryOp(self, e, frame):
        v = self.eval(e.operand, frame)
        if isinstance(e.op, ast.Not):
            return sym.Not(self.truth(v))
        r = self.models.unaryop(self, e.op, v)
        if r is not NotImplemented:
            return r
        if isinstance(e.op, ast.USub):
            return sym.neg(v)
        if isinstance(e.op, ast.UAdd):
            return v
        if isinstance(e.op, ast.Invert):
            if sym.is_boolkind(v):
                return sym.Not(v)
            return sym.sub(sym.neg(v), 1)
        raise Unsupported('unary op')

    def e_BinOp(self, e, frame):
        return self.binop(e.op, self.eval(e.left, frame), self.eval(e.right, frame))

    def binop(self, op, a, b):
        r = self.models.binop(self, op, a, b)
        if r is not NotImplemented:
            return r
        if isinstance(a, Opaque) or isinstance(b, Opaque):
            raise Unsupported('arithmetic on opaque value %r %r' % (a, b))
        if isinstance(op, ast.Add):
            if isinstance(a, (str, list, tuple, bytes)) and not is_sym(b):
                return a + b
            return sym.add(a, b)
        if isinstance(op, ast.Sub):
            if isinstance(a, (set, frozenset)):
                return a - b
            return sym.sub(a, b)
        if isinstance(op, ast.Mult):
            if isinstance(a, (str, list, tuple, bytes)) or isinstance(b, (str, list, tuple, bytes)):
                if is_sym(a) or is_sym(b):
                    raise Unsupported('sequence repetition with symbolic count')
                return a * b
            return sym.mul(a, b)
        if isinstance(op, ast.Div):
            if self.ctx.branch(sym.eq(b, 0)):
                raise PyExc('ZeroDivisionError')
            if is_sym(b) and not isinstance(a, (str,)) :
                # a / b with symbolic divisor: q with q*b == a (keeps the query polynomial)
                q = self.ctx.fresh('quot', 'Real')
                fact = sym.eq(sym.mul(q, sym.to_real(b)), sym.to_real(a))
                self.ctx.assume(fact)
                self.ctx.ghost.setdefault('quotients', []).append((q, sym.to_real(a), sym.to_real(b), fact))
                return q
            return sym.truediv(a, b)
        if isinstance(op, ast.FloorDiv):
            if self.ctx.branch(sym.eq(b, 0)):
                raise PyExc('ZeroDivisionError')
            return sym.floordiv(a, b)
        if isinstance(op, ast.Mod):
            if isinstance(a, str):
                return self.models.str_format(self, a, b)
            if self.ctx.branch(sym.eq(b, 0)):
                raise PyExc('ZeroDivisionError')
            return sym.mod(a, b)
        if isinstance(op, ast.Pow):
            return self.models.power(self, a, b)
        if isinstance(op, ast.BitXor):
            if sym.is_boolkind(a) and sym.is_boolkind(b):
                return sym.ne(a, b)
        if isinstance(op, ast.BitAnd):
            if sym.is_boolkind(a) and sym.is_boolkind(b):
                return sym.And(a, b)
            if isinstance(a, (set, frozenset)):
                return a & b
        if isinstance(op, ast.BitOr):
            if sym.is_boolkind(a) and sym.is_boolkind(b):
                return sym.Or(a, b)
            if isinstance(a, (set, frozenset)):
                return a | b
        if not is_sym(a) and not is_sym(b) and isinstance(a, int) and isinstance(b, int):
            import operator
            tbl = {ast.BitXor: operator.xor, ast.BitAnd: operator.and_, ast.BitOr: operator.or_,
                   ast.LShift: operator.lshift, ast.RShift: operator.rshift}
            if type(op) in tbl:
                return tbl[type(op)](a, b)
        raise Unsupported('binary op %s' % type(op).__name__)

    def e_Compare(self, e, frame):
        left = self.eval(e.left, frame)
        res = True
        for op, r in zip(e.ops, e.comparators):
            right = self.eval(r, frame)
            c = self.compare(op, left, right)
            res = sym.And(res, c) if (sym.is_boolkind(c) and sym.is_boolkind(res)) else c
            if len(e.ops) > 1 and not is_sym(res) and not res:
                return False
            left = right
        return res

    def compare(self, op, a, b):
        r = self.models.compare(self, op, a, b)
        if r is not NotImplemented:
            return r
        if isinstance(op, (ast.Is, ast.IsNot)):
            if a is None or b is None or isinstance(a, (bool, Obj, ClassRef)) or isinstance(b, (bool, Obj, ClassRef)):
                same = a is b
            elif is_sym(a) or is_sym(b):
                same = False if (a is None or b is None) else sym.eq(a, b)
            else:
                same = a is b or (type(a) is type(b) and isinstance(a, (int, str)) and a == b)
            return same if isinstance(op, ast.Is) else sym.Not(same)
        if isinstance(op, (ast.In, ast.NotIn)):
            r = self.contains(b, a)
            return r if isinstance(op, ast.In) else sym.Not(r)
        if isinstance(a, Opaque) or isinstance(b, Opaque):
            raise Unsupported('comparison with opaque value %r %r' % (a, b))
        if isinstance(op, ast.Eq):
            return self.equals(a, b)
        if isinstance(op, ast.NotEq):
            return sym.Not(self.equals(a, b))
        if isinstance(a, (tuple, list)) and isinstance(b, (tuple, list)):
            return self.lexcmp(op, list(a), list(b))
        f = {ast.Lt: sym.lt, ast.LtE: sym.le, ast.Gt: sym.gt, ast.GtE: sym.ge}[type(op)]
        if isinstance(a, str) and isinstance(b, str):
            return {ast.Lt: a < b, ast.LtE: a <= b, ast.Gt: a > b, ast.GtE: a >= b}[type(op)]
        return f(a, b)

    def lexcmp(self, op, a, b):
        if not a or not b:
            la, lb = len(a), len(b)
            return {ast.Lt: la < lb, ast.LtE: la <= lb, ast.Gt: la > lb, ast.GtE: la >= lb}[type(op)]
        strict = {ast.Lt: sym.lt, ast.LtE: sym.lt, ast.Gt: sym.gt, ast.GtE: sym.gt}[type(op)]
        return sym.Or(strict(a[0], b[0]), sym.And(sym.eq(a[0], b[0]), self.lexcmp(op, a[1:], b[1:])))

    def equals(self, a, b):
        if isinstance(a, (tuple, list)) and isinstance(b, (tuple, list)):
            if type(a) is not type(b) or len(a) != len(b):
                return False
            return sym.And(*[self.equals(x, y) for x, y in zip(a, b)])
        if isinstance(a, (Obj, ClassRef, FuncRef)) or isinstance(b, (Obj, ClassRef, FuncRef)):
            return a is b
        if isinstance(a, dict) and isinstance(b, dict):
            return a == b
        return sym.eq(a, b)

    def abstract_key_find(self, d, k):
        """the key of the concrete dictionary d that equals k, or None.  Concrete keys are looked up by value; an ABSTRACT key
        (AbsStr, AbsVal: equality is a formula) is the very object already used as a key, or is compared with every abstract key
        of the same kind by a BRANCH on the equality formula (both outcomes are explored)"""
        ab = lambda x: type(x).__name__ in ('AbsStr', 'AbsVal', 'PaddedStr')
        if not ab(k) and not any(ab(k2) for k2 in d):
            try:
                return k if k in d else None
            except TypeError:
                raise Unsupported('unhashable key')
        for k2 in d:
            if k2 is k:
                return k2
        for k2 in list(d):
            if ab(k) and ab(k2) and type(k) is type(k2):
                f = self.models.hook('compare', self, ast.Eq(), k, k2)
                if f is None:
                    raise Unsupported('dictionary keyed by abstract values that may be equal')
                if f is True or (f is not False and self.ctx.branch(f)):
                    return k2
            elif (ab(k) and isinstance(k2, (str, bytes))) or (ab(k2) and isinstance(k, (str, bytes))):
                raise Unsupported('abstract string looked up among concrete dictionary keys')
        return None

    def contains(self, container, x):
        r = self.models.contains(self, container, x)
        if r is not None:
            return r
        if isinstance(container, dict):
            if is_sym(x):
                raise Unsupported('symbolic dict key')
            return self.abstract_key_find(container, x) is not None
        if isinstance(container, (list, tuple, set, frozenset)):
            return sym.Or(*[self.equals(x, y) for y in container])
        if isinstance(container, str):
            if isinstance(x, str):
                return x in container
        raise Unsupported('membership in %s' % type(container).__name__)

    def e_Lambda(self, e, frame):
        fn = ast.FunctionDef(name='<lambda>', args=e.args, body=[ast.Return(value=e.body, lineno=e.lineno, col_offset=0)],
                             decorator_list=[], lineno=e.lineno, col_offset=e.col_offset)
        return FuncRef(frame.module, fn, closure=frame, qual=frame.func.qual + '.<lambda>')

    def e_Call(self, e, frame):
        if isinstance(e.func, ast.Name) and e.func.id == 'super' and not e.args and 'super' not in frame.locals:
            # zero-argument super(): proxy for the next class after the owner of the current method
            fr = frame
            while fr is not None and fr.func.owner is None:
                fr = fr.parent
            if fr is None:
                raise Unsupported('super() outside a method')
            a = fr.func.node.args
            first = (a.posonlyargs + a.args)[0].arg
            return SuperProxy(fr.func.owner, fr.locals[first])
        if isinstance(e.func, ast.Name) and e.func.id == 'super' and len(e.args) == 2 and 'super' not in frame.locals:
            c, inst = self.eval(e.args[0], frame), self.eval(e.args[1], frame)
            if isinstance(c, ClassRef):
                return SuperProxy(c, inst)
        if isinstance(e.func, ast.Name) and e.func.id == 'eval' and 'eval' not in frame.locals and 1 <= len(e.args) <= 3 and not e.keywords:
            # eval(<text>[, globals[, locals]]) of a CONCRETE expression text: the text is parsed and evaluated like source --
            # in the calling frame, or in a frame made of the given dictionaries
            src = self.eval(e.args[0], frame)
            if not isinstance(src, str):
                raise Unsupported('eval of a non-constant expression text')
            try:
                tree = ast.parse(src.strip(), mode='eval')
            except SyntaxError:
                raise PyExc('SyntaxError')
            if len(e.args) == 1:
                return self.eval(tree.body, frame)
            env = {}
            for a in e.args[1:]:
                d = self.eval(a, frame)
                if d is None:
                    continue
                if not isinstance(d, dict):
                    raise Unsupported('eval with a non-dict namespace')
                env.update(d)
            fr = Frame(frame.func, dict(env), None)
            fr.globals_decl = set()
            fr.eval_namespace = True
            return self.eval(tree.body, fr)
        f = self.eval(e.func, frame)
        args = []
        for a in e.args:
            if isinstance(a, ast.Starred):
                args.extend(self.iterate(self.eval(a.value, frame)))
            else:
                args.append(self.eval(a, frame))
        kwargs = {}
        for k in e.keywords:
            if k.arg is None:
                kwargs.update(self.eval(k.value, frame))
            else:
                kwargs[k.arg] = self.eval(k.value, frame)
        return self.call(f, args, kwargs, e)

    def e_Yield(self, e, frame):
        v = self.eval(e.value, frame) if e.value is not None else None
        if self.yields is None:
            raise Unsupported('yield outside generator run')
        hook = getattr(self, 'yield_hook', None)
        if hook is not None:
            hook(v)
        self.yields.append(v)
        return None

    def e_Starred(self, e, frame):
        raise Unsupported('starred')

    def comp_iter(self, gens, frame, body):
        """run a comprehension concretely"""
        cframe = Frame(frame.func, {}, frame)
        cframe.globals_decl = frame.globals_decl

        def rec(i):
            if i == len(gens):
                body(cframe)
                return
            g = gens[i]
            it = self.eval(g.iter, cframe if i else frame)
            for x in self.iterate(it, frame):
                self.assign(g.target, x, cframe)
                if all(self.ctx.branch(self.truth(self.eval(c, cframe))) for c in g.ifs):
                    rec(i + 1)
        rec(0)

    def e_ListComp(self, e, frame):
        r = self.models.symbolic_comprehension(self, e, frame)
        if r is not None:
            return r
        out = []
        self.comp_iter(e.generators, frame, lambda f: out.append(self.eval(e.elt, f)))
        return out

    def e_GeneratorExp(self, e, frame):
        return self.e_ListComp(e, frame)

    def e_SetComp(self, e, frame):
        return set(self.e_ListComp(e, frame))

    def e_DictComp(self, e, frame):
        out = {}

        def body(f):
            out[self.eval(e.key, f)] = self.eval(e.value, f)
        self.comp_iter(e.generators, frame, body)
        return out

    def eval_index(self, s, frame):
        if isinstance(s, ast.Slice):
            return slice(self.eval(s.lower, frame) if s.lower else None,
                         self.eval(s.upper, frame) if s.upper else None,
                         self.eval(s.step, frame) if s.step else None)
        if isinstance(s, ast.Tuple):
            return tuple(self.eval_index(x, frame) for x in s.elts)
        return self.eval(s, frame)

    def e_Subscript(self, e, frame):
        obj = self.eval(e.value, frame)
        idx = self.eval_index(e.slice, frame)
        return self.getitem(obj, idx)

    def e_Slice(self, e, frame):
        return self.eval_index(e, frame)

    def getitem(self, obj, idx):
        r = self.models.getitem(self, obj, idx)
        if r is not NotImplemented:
            return r
        if isinstance(obj, (list, tuple, str, bytes)):
            if isinstance(idx, slice):
                if any(is_sym(x) for x in (idx.start, idx.stop, idx.step)):
                    raise Unsupported('symbolic slice of concrete sequence')
                return obj[idx]
            if is_sym(idx):
                # symbolic index into a concrete sequence: case split
                n = len(obj)
                for j in range(n):
                    if self.ctx.branch(sym.Or(sym.eq(idx, j), sym.eq(idx, j - n))):
                        return obj[j]
                raise PyExc('IndexError')
            try:
                return obj[idx]
            except IndexError:
                raise PyExc('IndexError')
            except TypeError:
                raise PyExc('TypeError')
        if isinstance(obj, dict):
            if is_sym(idx):
                for k in obj:
                    if not isinstance(k, str) and self.ctx.branch(sym.eq(idx, k)):
                        return obj[k]
                raise PyExc('KeyError')
            kk = self.abstract_key_find(obj, idx)
            if kk is not None and kk is not idx:
                return obj[kk]
            try:
                if idx in obj:
                    return obj[idx]
            except TypeError:
                raise Unsupported('unhashable key')
            miss = getattr(obj, 'missing', None)
            if miss is not None:
                return miss(idx)
            raise PyExc('KeyError', idx)
        if isinstance(obj, Opaque):
            return Opaque(obj.origin + '[]')
        if isinstance(obj, Obj) and obj.cls is not None:
            gi = self.class_getattr(obj.cls, '__getitem__')
            if isinstance(gi, FuncRef):
                return self.call_function(gi.bind(obj), [idx], {})
        raise Unsupported('subscript of %s' % type(obj).__name__)

    def setitem(self, obj, idx, v):
        r = self.models.setitem(self, obj, idx, v)
        if r is not NotImplemented:
            return
        if isinstance(obj, list):
            if is_sym(idx):
                raise Unsupported('symbolic list index store')
            try:
                obj[idx] = v
            except IndexError:
                raise PyExc('IndexError')
            return
        if isinstance(obj, dict):
            if is_sym(idx):
                raise Unsupported('symbolic dict key store')
            kk = self.abstract_key_find(obj, idx)
            obj[idx if kk is None else kk] = v
            return
        if isinstance(obj, Opaque):
            return
        raise Unsupported('item assignment on %s' % type(obj).__name__)


class SuperProxy:
    def __init__(self, owner, instance):
        self.owner, self.instance = owner, instance


class GenResult:
    def __init__(self, items):
        self.items = items


class ExcInstance:
    def __init__(self, cls, args):
        self.cls = cls
        self.args = args


class BoundModel:
    """a trusted method bound to a value:  fn(interp, recv, args, kwargs)"""

    def __init__(self, fn, recv, trusted=None):
        self.fn, self.recv, self.trusted = fn, recv, trusted

    def __call__(self, interp, args, kwargs):
        if self.trusted:
            interp.ctx.trust(self.trusted)
        return self.fn(interp, self.recv, args, kwargs)


class LoopEnv:
    """view of the local variables for loop invariants: env['name'] / env.name"""

    def __init__(self, interp, frame):
        self.interp = interp
        self.frame = frame

    def __getitem__(self, k):
        return self.interp.load_name(k, self.frame)

    def __setitem__(self, k, v):
        self.frame.locals[k] = v

    def __contains__(self, k):
        return k in self.frame.locals

    def eval(self, node):
        """value of an expression of the loop (e.g. an operand of its condition, `env.node.test`) in the current state: lets an
        invariant speak about WHAT the loop compares instead of naming the locals that happen to hold it"""
        return self.interp.eval(node, self.frame)

    def __getattr__(self, k):
        if k in ('interp', 'frame', 'index_name', 'node'):
            raise AttributeError(k)
        return self.interp.load_name(k, self.frame)

    @property
    def it(self):
        """the iteration counter of THIS loop (range loop: the value the loop variable takes next; array / zip / enumerate
        loop: the number of elements consumed) -- independent of how the loop variable is called in the source"""
        return self.interp.load_name(self.index_name, self.frame)

    @property
    def ghost(self):
        return self.interp.ctx.ghost

    @property
    def ctx(self):
        return self.interp.ctx


class LoopSpec:
    def __init__(self, inv, decreases=None, havoc=None, variant_real=False, variant_step=1,
                 ghost_init=None, ghost_step=None, modifies=None, lemmas=None, keep_lemmas=None):
        # keep_lemmas: lambda env -> [(name, formula)] proved (staged) at the end of the loop body, before the invariant
        self.keep_lemmas = keep_lemmas
        # lemmas: lambda env -> [(name, formula)] proved one after the other at loop entry; each proved lemma is
        # available to the following ones and to inv-init (a lemma that cannot be proved is simply not used)
        self.lemmas = lemmas
        # modifies: {array name: lambda env, idx_tuple: condition} -- the loop writes that array only at
        # indices satisfying the condition (proved at every store in the body; elements outside keep their value)
        self.modifies = modifies or {}
        self.ghost_init = ghost_init
        self.ghost_step = ghost_step
        self.inv = inv
        self.decreases = decreases
        self.havoc = havoc
        self.variant_real = variant_real
        self.variant_step = variant_step


def _is_generator(fn):
    for n in _walk_no_nested(fn):
        if isinstance(n, (ast.Yield, ast.YieldFrom)):
            return True
    return False


def _walk_no_nested(fn):
    """all nodes of a function body, not descending into nested defs/lambdas/classes"""
    stack = list(fn.body)
    while stack:
        n = stack.pop(0)
        yield n
        for c in ast.iter_child_nodes(n):
            if isinstance(c, (ast.FunctionDef, ast.Lambda, ast.ClassDef, ast.AsyncFunctionDef)):
                continue
            stack.append(c)


def _walk_no_nested_stmts(body):
    for st in body:
        holder = ast.Module(body=[st], type_ignores=[])
        yield _walk_no_nested(holder)
