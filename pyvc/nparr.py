"""numpy arrays for the symbolic executor (trusted model of the numpy operations the
verified functions use; every entry point records a `numpy.*` label in the trusted base).

Representation: an `SArr` is a *view* (shape + index map) onto a `Buf` whose content is a
functional closure  idx-tuple -> term.  Basic indexing returns views that share the Buf,
arithmetic / fancy indexing / astype / copy / append return fresh Bufs, augmented
assignment and item assignment write the Buf -- the numpy view-vs-copy table made
executable, which is what the frame obligations of C05/C16 need.
"""
import ast
import itertools
from fractions import Fraction
import z3

from . import sym, models
from .sym import PyExc, Unsupported, is_sym
from .exec import BoundModel, Builtin, Obj, Opaque, Frame

_ids = itertools.count()
_CUR = {'I': None}     # interpreter of the current path (for obligations raised inside array writes)

T_NUMPY = 'numpy: element-wise semantics, basic-index views share memory, arithmetic/fancy-index/astype/copy/append allocate (view-vs-copy table)'
A_NONAN = 'A-NONAN: inf/nan are not modelled; element-wise division assumes finite results'


class Buf:
    def __init__(self, shape, get, tag='buf'):
        self.shape = tuple(shape)
        self.get = get            # idx tuple -> term
        self.id = next(_ids)
        self.tag = tag
        self.writes = 0
        self.get0 = get           # content at creation (for frame obligations)

    def snapshot(self):
        return self.get


class SArr:
    is_sarr = True

    def __init__(self, shape, get=None, kind='f', buf=None, imap=None, inv=None, attrs=None, tag='arr', mask=None):
        self.shape = tuple(shape)
        self.kind = kind
        if buf is None:
            buf = Buf(self.shape, get, tag)
            imap = lambda idx: idx
            inv = lambda bidx: (True, bidx)
        self.buf = buf
        self.imap = imap          # view idx -> base idx
        self.inv = inv            # base idx -> (in_view condition, view idx)
        self.attrs = attrs if attrs is not None else {}
        self.tag = tag
        self.mask = mask          # None or SArr of bool (numpy.ma)

    # -- element access -----------------------------------------------------
    def get(self, *idx):
        if len(idx) == 1 and isinstance(idx[0], tuple):
            idx = idx[0]
        return self.buf.get(self.imap(tuple(idx)))

    @property
    def ndim(self):
        return len(self.shape)

    @property
    def size(self):
        r = 1
        for s in self.shape:
            r = sym.mul(r, s)
        return r

    def frozen(self):
        """the content AS IT IS NOW, as an array of its own: a derived array (a + 1, a.astype(..), where(..), a value being
        stored) must not see later writes to the buffer it was computed from.  Buffer versions are persistent closures, so a
        snapshot is just the current version."""
        snap, imap = self.buf.get, self.imap
        r = SArr(self.shape, (lambda snap, imap: (lambda q: snap(imap(tuple(q)))))(snap, imap), self.kind, attrs=dict(self.attrs), tag=self.tag)
        if self.mask is not None:
            r.mask = self.mask.frozen()
        if hasattr(self, 'cls'):
            r.cls = self.cls
        return r

    def fresh_like(self, get, kind=None, shape=None, tag=None):
        return SArr(self.shape if shape is None else shape, get, kind or self.kind, tag=tag or self.tag)

    def idx_vars(self, prefix='i'):
        return tuple(z3.Int('%s%d_%d' % (prefix, k, next(_ids))) for k in range(self.ndim))

    def in_range(self, idx):
        return sym.And(*[sym.And(sym.ge(i, 0), sym.lt(i, n)) for i, n in zip(idx, self.shape)])

    def write(self, idx, val):
        """a[idx] = val for a full integer index"""
        b = self.buf
        old = b.get
        bidx = self.imap(tuple(idx))
        for gname, g in getattr(b, 'guards', []):
            _CUR['I'].ctx.prove(gname + '/frame:write-inside-modifies', g(bidx), 'frame')
        co = getattr(b, 'coerce', None)
        if co is not None:
            val = co(val)
        b.get = lambda q: _ite(sym.And(*[sym.eq(x, y) for x, y in zip(q, bidx)]), val, old(q))
        b.writes += 1

    def write_where(self, cond_fn, val_fn):
        """for every view index v with cond_fn(v): a[v] = val_fn(v)"""
        b = self.buf
        old = b.get
        inv = self.inv
        for gname, g in getattr(b, 'guards', []):
            qq = tuple(z3.Int('wg_%d_%d' % (k, next(_ids))) for k in range(len(b.shape)))
            inview, vv = inv(qq)
            cond = sym.Implies(sym.And(inview, cond_fn(vv), *[sym.And(sym.ge(x, 0), sym.lt(x, n)) for x, n in zip(qq, b.shape)]), g(qq))
            _CUR['I'].ctx.prove(gname + '/frame:write-inside-modifies', z3.ForAll(list(qq), cond) if is_sym(cond) else cond, 'frame')

        co = getattr(b, 'coerce', None)

        def newget(q):
            inview, v = inv(q)
            c = sym.And(inview, cond_fn(v))
            nv = val_fn(v)
            return _ite(c, co(nv) if co is not None else nv, old(q))
        b.get = newget
        b.writes += 1

    def model_value(self, model):
        shp = [_mv(model, x) for x in self.shape]
        out = {'shape': shp}
        try:
            tot = 1
            for x in shp:
                if not isinstance(x, int):
                    return out
                tot *= x
            if tot <= 96:
                def rec(prefix, dims):
                    if not dims:
                        return _mv(model, self.get(tuple(prefix)))
                    return [rec(prefix + [i], dims[1:]) for i in range(dims[0])]
                out['values'] = rec([], shp)
        except Exception as e:
            out['values_error'] = str(e)
        return out

    def havoc(self, I):
        srt = {'f': z3.RealSort(), 'i': z3.IntSort(), 'b': z3.BoolSort()}.get(self.kind, z3.RealSort())
        f = z3.Function('havoc_arr_%d' % next(_ids), *([z3.IntSort()] * max(1, self.buf_ndim()) + [srt]))
        self.buf.get = lambda q: f(*[sym.to_z3(x) for x in q]) if q else f(z3.IntVal(0))
        self.buf.writes += 1

    def havoc_like(self, I, name):
        a = sym_array('%s_%d' % (name, next(_ids)), self.shape, self.kind if self.kind in 'fib' else 'f')
        return a

    def buf_ndim(self):
        return len(self.buf.shape)


def _mv(model, v):
    from .verify import model_value
    if hasattr(v, 'model_value') and not isinstance(v, SArr):
        return v.model_value(model)
    return model_value(model, v)


def _scalar(v):
    return True


def _tuple_eq_concrete(a, b):
    return all((not is_sym(x)) and (not is_sym(y)) and x == y for x, y in zip(a, b))


def _ite(c, a, b):
    if hasattr(a, 'ite_with') or hasattr(b, 'ite_with'):
        return (a if hasattr(a, 'ite_with') else b).ite_with(c, a, b)
    return sym.ite(c, a, b)


def sort_of(kind):
    return {'f': z3.RealSort(), 'i': z3.IntSort(), 'b': z3.BoolSort()}[kind]


def sym_array(name, shape, kind='f', attrs=None):
    """array of unknown content: uninterpreted function of the index"""
    nd = max(len(shape), 1)
    f = z3.Function(name, *([z3.IntSort()] * nd + [sort_of(kind)]))

    def get(idx):
        if not idx:
            return f(z3.IntVal(0))
        return f(*[sym.to_z3(i) for i in idx])
    a = SArr(shape, get, kind, attrs=attrs, tag=name)
    a.fn = f
    return a


# ---------------------------------------------------------------------------
# indexing
# ---------------------------------------------------------------------------

def norm_index(a, idx):
    if not isinstance(idx, tuple):
        idx = (idx,)
    # expand Ellipsis
    n_real = sum(1 for x in idx if x is not None and x is not Ellipsis)
    out = []
    for x in idx:
        if x is Ellipsis:
            out.extend([slice(None)] * (a.ndim - n_real))
        else:
            out.append(x)
    n_real2 = sum(1 for x in out if x is not None)
    out.extend([slice(None)] * (a.ndim - n_real2))
    if sum(1 for x in out if x is not None) > a.ndim:
        raise PyExc('IndexError')
    return out


def basic_index(I, a, idx):
    """ints / slices / None / Ellipsis -> view sharing the buffer"""
    items = norm_index(a, idx)
    specs = []      # per source axis: ('fix', i) | ('ax', start, step, length)
    newshape = []
    layout = []     # for each output axis: source axis number or None (newaxis)
    ax = 0
    for it in items:
        if it is None:
            newshape.append(1)
            layout.append(None)
            continue
        n = a.shape[ax]
        if isinstance(it, slice):
            step = 1 if it.step is None else it.step
            if is_sym(step):
                raise Unsupported('symbolic slice step')
            from .arrays import sym_slice_indices, range_len
            if any(is_sym(x) for x in (it.start, it.stop, n)):
                start, stop, step = sym_slice_indices(I, it, n)
            else:
                start, stop, step = slice(it.start, it.stop, it.step).indices(n)
            ln = range_len(start, stop, step)
            specs.append(('ax', start, step, ln))
            layout.append(ax)
            newshape.append(ln)
        else:
            i = it
            if isinstance(i, SArr):
                raise Unsupported('mixed fancy/basic index')
            i2 = sym.ite(sym.lt(i, 0), sym.add(i, n), i)
            if is_sym(i2) or is_sym(n):
                if I is not None and not getattr(I, 'pure', False):
                    if I.ctx.branch(sym.Or(sym.lt(i2, 0), sym.ge(i2, n))):
                        raise PyExc('IndexError')
            elif i2 < 0 or i2 >= n:
                raise PyExc('IndexError')
            specs.append(('fix', i2))
        ax += 1
    src_imap, src_inv = a.imap, a.inv

    def imap(v):
        out = []
        k = 0
        vi = [x for x, l in zip(v, layout) if l is not None]
        for sp in specs:
            if sp[0] == 'fix':
                out.append(sp[1])
            else:
                out.append(sym.add(sp[1], sym.mul(vi[k], sp[2])))
                k += 1
        return src_imap(tuple(out))

    def inv(q):
        c0, s = src_inv(q)
        conds = [c0]
        vi = []
        for sp, x in zip(specs, s):
            if sp[0] == 'fix':
                conds.append(sym.eq(x, sp[1]))
            else:
                start, step, ln = sp[1], sp[2], sp[3]
                d = sym.sub(x, start)
                if step in (1, -1):
                    k = d if step == 1 else sym.neg(d)
                else:
                    conds.append(sym.eq(sym.mod(d, step), 0))
                    k = sym.floordiv(d, step)
                conds.append(sym.And(sym.ge(k, 0), sym.lt(k, ln)))
                vi.append(k)
        v = []
        k = 0
        for l in layout:
            if l is None:
                v.append(0)
            else:
                v.append(vi[k])
                k += 1
        return sym.And(*conds), tuple(v)
    r = SArr(tuple(newshape), kind=a.kind, buf=a.buf, imap=imap, inv=inv, attrs={}, tag=a.tag + '[view]')
    if a.mask is not None:
        r.mask = basic_index(I, a.mask, idx)
    return r


def is_basic(idx):
    items = idx if isinstance(idx, tuple) else (idx,)
    for x in items:
        if isinstance(x, (SArr, list)):
            return False
    return True


def getitem(I, a, idx):
    I.ctx.trust(T_NUMPY)
    if is_basic(idx):
        v = basic_index(I, a, idx)
        if v.ndim == 0 and idx is not Ellipsis:
            return v.get()
        return v
    if isinstance(idx, SArr) and idx.kind == 'b':
        # boolean mask selection: fresh array of unknown length (only used for messages)
        return Opaque('bool-mask selection')
    if isinstance(idx, SArr) and idx.kind == 'i' and a.ndim == 1 and idx.ndim == 1:
        src, idx = a.frozen(), idx.frozen()
        n = a.shape[0]
        # numpy: negative entries count from the end; an entry outside [-n, n) raises IndexError
        oob = SArr(idx.shape, lambda q: sym.Or(sym.lt(idx.get(q), sym.neg(n)), sym.ge(idx.get(q), n)), 'b', tag='oob')
        if not getattr(I, 'pure', False) and I.ctx.branch(reduce_bool(I, oob, 'any')):
            raise PyExc('IndexError')
        norm = lambda x: sym.ite(sym.lt(x, 0), sym.add(x, n), x)
        r = SArr(idx.shape, lambda q: src.get(norm(idx.get(q[0]))), a.kind, tag='take')
        if a.mask is not None:
            m = a.mask.frozen()
            r.mask = SArr(idx.shape, lambda q: m.get(norm(idx.get(q[0]))), 'b', tag='take-mask')
        return r
    if isinstance(idx, SArr) and idx.kind == 'i' and idx.ndim == 1:
        idx = (idx,)
    if isinstance(idx, list) and idx and all(sym.is_intkind(x) for x in idx):
        idx = (from_list(I, idx, 'i'),)
    if isinstance(idx, tuple):
        idx = tuple(from_list(I, x, 'i') if isinstance(x, list) and x and all(sym.is_intkind(v) for v in x) else x for x in idx)
        items = norm_index(a, idx)
        arrs = [k for k, x in enumerate(items) if isinstance(x, SArr)]
        if len(arrs) == 1 and items[arrs[0]].kind == 'i' and items[arrs[0]].ndim == 1 and all(
                isinstance(x, slice) for k, x in enumerate(items) if k != arrs[0]) and len(items) == a.ndim:
            # ONE index array among slices: numpy keeps the axis in place, out[.., i, ..] = a[.., idx[i], ..]
            I.ctx.trust('numpy indexing with one 1-D integer array among slices: the axis stays in place, negative entries count from the end, '
                        'IndexError if an entry is out of range')
            ax = arrs[0]
            ia = items[ax].frozen()
            n = a.shape[ax]
            oob = SArr(ia.shape, lambda q: sym.Or(sym.lt(ia.get(q), sym.neg(n)), sym.ge(ia.get(q), n)), 'b', tag='oob')
            if I.ctx.branch(reduce_bool(I, oob, 'any')):
                raise PyExc('IndexError')
            # the other axes first (a view), then the gather (values read now: a fresh array)
            rest = tuple(slice(None) if k == ax else x for k, x in enumerate(items))
            v = basic_index(I, a, rest)
            snap, vmap = v.buf.get, v.imap
            norm = lambda x: sym.ite(sym.lt(x, 0), sym.add(x, n), x)
            shp = tuple(ia.shape[0] if k == ax else sdim for k, sdim in enumerate(v.shape))
            r = SArr(shp, lambda q: snap(vmap(tuple(norm(ia.get(q[ax])) if k == ax else x for k, x in enumerate(q)))), a.kind, tag='take-axis')
            if a.mask is not None:
                raise Unsupported('index array on a masked array')
            return r
    raise Unsupported('fancy indexing')


def setitem(I, a, idx, val):
    I.ctx.trust(T_NUMPY)
    if a.mask is not None and not getattr(a.mask, '_in_setitem', False) and not (isinstance(idx, SArr) and idx.kind == 'b'):
        # assignment into a MASKED array also assigns the mask: the value's mask, or "not masked" for plain values
        # (numpy.ma.MaskedArray.__setitem__; a plain ndarray target keeps data only)
        vm = val.mask.frozen() if isinstance(val, SArr) and val.mask is not None else False
        a.mask._in_setitem = True
        try:
            setitem(I, a.mask, idx, vm)
        finally:
            a.mask._in_setitem = False
    if isinstance(idx, SArr) and idx.kind == 'b':
        m = idx
        if isinstance(val, SArr):
            raise Unsupported('mask assignment of array')
        a.write_where(lambda v: m.get(v), lambda v: val)
        return True
    if is_basic(idx):
        v = basic_index(I, a, idx)
        if isinstance(val, SArr):
            if val.buf is a.buf:
                # the value is a view of the target's own buffer (e.g. the store that ends `a[i] += x`): it is read
                # as it stands before this store
                og, vm = val.buf.get, val.imap
                val = SArr(val.shape, (lambda og, vm: (lambda q: og(vm(tuple(q)))))(og, vm), val.kind, tag='frozen')
            _check_assignable(I, val.shape, v.shape)
            vv = broadcast_to(val.frozen(), v.shape)
            v.write_where(lambda q: True, lambda q: vv.get(q))
        elif isinstance(val, (list, tuple)):
            vv = from_list(I, list(val))
            v.write_where(lambda q: True, lambda q: vv.get(q))
        else:
            v.write_where(lambda q: True, lambda q: val)
        return True
    raise Unsupported('fancy index assignment')


def _check_assignable(I, src, dst):
    """numpy raises ValueError when a value cannot be broadcast to the shape it is assigned to: trailing axes must agree or
    be 1 in the value; extra leading axes of the value must be 1"""
    if I is None or getattr(I, 'pure', False):
        return
    src, dst = list(src), list(dst)
    while len(src) > len(dst):
        s0 = src.pop(0)
        if is_sym(s0):
            if I.ctx.branch(sym.ne(s0, 1)):
                raise PyExc('ValueError')
        elif s0 != 1:
            raise PyExc('ValueError')
    off = len(dst) - len(src)
    for k, s_ in enumerate(src):
        d_ = dst[off + k]
        if not is_sym(s_) and s_ == 1:
            continue
        if is_sym(s_) or is_sym(d_):
            bad = sym.And(sym.ne(s_, d_), sym.ne(s_, 1))
            if is_sym(bad):
                if I.ctx.branch(bad):
                    raise PyExc('ValueError')
            elif bad:
                raise PyExc('ValueError')
        elif s_ != d_:
            raise PyExc('ValueError')


def broadcast_to(a, shape):
    if len(a.shape) == len(shape):
        ones_ = [(not is_sym(s_)) and s_ == 1 and not ((not is_sym(t_)) and t_ == 1) for s_, t_ in zip(a.shape, shape)]
        if any(ones_):
            a = a.frozen()
        ones = [(not is_sym(s)) and s == 1 and not ((not is_sym(t)) and t == 1) for s, t in zip(a.shape, shape)]
        if not any(ones):
            return a
        return SArr(shape, lambda q: a.get(tuple(0 if o else x for o, x in zip(ones, q))), a.kind, tag='bcast')
    if len(a.shape) < len(shape):
        d = len(shape) - len(a.shape)
        a = a.frozen()
        return broadcast_to(SArr((1,) * d + a.shape, lambda q: a.get(q[d:]), a.kind, tag='bcast'), shape)
    raise Unsupported('broadcast to lower rank')


def from_list(I, items, kind=None):
    if items and all(isinstance(x, (list, tuple)) for x in items):
        rows = [list(r) for r in items]
        m = len(rows[0])
        k = kind or _kind_of(rows[0][0])
        return SArr((len(rows), m), lambda q: _select2(rows, q), k, tag='array(list)')
    if items and all(isinstance(x, SArr) for x in items):
        # equal-shape arrays stacked along a new leading axis (numpy.array([a, b]))
        first = items[0]
        if any(x.ndim != first.ndim for x in items):
            raise Unsupported('array of arrays of different rank')
        if I is not None:
            for x in items[1:]:
                for s0, s1 in zip(first.shape, x.shape):
                    if is_sym(s0) or is_sym(s1):
                        if I.ctx.branch(sym.ne(s0, s1)):
                            raise Unsupported('array of arrays of different shape (ragged)')
                    elif s0 != s1:
                        raise Unsupported('array of arrays of different shape (ragged)')
        snaps = [(x.buf.get, x.imap) for x in items]
        kinds = [x.kind for x in items]
        k = kind or ('O' if 'O' in kinds else ('f' if 'f' in kinds else ('i' if 'i' in kinds else 'b')))
        conv = (lambda v: v)
        if 'f' in kinds and k == 'f':
            conv = sym.to_real
        vals = [(lambda g, m: (lambda rest: g(m(tuple(rest)))))(g, m) for g, m in snaps]
        return SArr((len(items),) + tuple(first.shape), lambda q: conv(_select([v(q[1:]) for v in vals], q[0])), k, tag='array(list of arrays)')
    k = kind or (_kind_of(items[0]) if items else 'f')
    if any(sym.is_realkind(x) for x in items if not hasattr(x, 'sec')):
        k = 'f' if k in ('i', 'f') else k
    vals = list(items)
    return SArr((len(vals),), lambda q: _select(vals, q[0]), k, tag='array(list)')


def _select(vals, i):
    if not is_sym(i):
        return vals[i]
    r = vals[-1]
    for j in range(len(vals) - 2, -1, -1):
        r = _ite(sym.eq(i, j), vals[j], r)
    return r


def _select2(rows, q):
    i, j = q
    if not is_sym(i):
        return _select(rows[i], j)
    r = _select(rows[-1], j)
    for k in range(len(rows) - 2, -1, -1):
        r = _ite(sym.eq(i, k), _select(rows[k], j), r)
    return r


def _kind_of(x):
    if hasattr(x, 'sec'):
        return 'O'
    if sym.is_boolkind(x):
        return 'b'
    if sym.is_intkind(x):
        return 'i'
    return 'f'


# ---------------------------------------------------------------------------
# element-wise operations
# ---------------------------------------------------------------------------

_BIN = {ast.Add: sym.add, ast.Sub: sym.sub, ast.Mult: sym.mul, ast.Div: sym.truediv,
        ast.FloorDiv: sym.floordiv, ast.Mod: sym.mod}
_CMP = {ast.Lt: sym.lt, ast.LtE: sym.le, ast.Gt: sym.gt, ast.GtE: sym.ge, ast.Eq: sym.eq, ast.NotEq: sym.ne}


def result_shape(a, b):
    if not isinstance(b, SArr):
        return a.shape
    if not isinstance(a, SArr):
        return b.shape
    if len(a.shape) != len(b.shape):
        return a.shape if len(a.shape) > len(b.shape) else b.shape
    out = []
    for s, t in zip(a.shape, b.shape):
        if (not is_sym(s)) and s == 1:
            out.append(t)
        else:
            out.append(s)
    return tuple(out)


def elementwise(I, f, a, b, kind=None):
    shape = result_shape(a, b)
    aa = broadcast_to(a.frozen(), shape) if isinstance(a, SArr) else None
    bb = broadcast_to(b.frozen(), shape) if isinstance(b, SArr) else None
    ga = (lambda q: aa.get(q)) if aa is not None else (lambda q: a)
    gb = (lambda q: bb.get(q)) if bb is not None else (lambda q: b)
    k = kind
    if k is None:
        ka = a.kind if isinstance(a, SArr) else _kind_of(a)
        kb = b.kind if isinstance(b, SArr) else _kind_of(b)
        k = 'O' if 'O' in (ka, kb) else ('f' if 'f' in (ka, kb) else ('i' if 'i' in (ka, kb) else 'b'))
    r = SArr(shape, lambda q: f(ga(q), gb(q)), k, tag='elementwise')
    ma = a.mask if isinstance(a, SArr) else None
    mb = b.mask if isinstance(b, SArr) else None
    if ma is not None or mb is not None:
        if ma is not None and mb is not None:
            r.mask = elementwise(I, sym.Or, ma, mb, 'b')
        else:
            r.mask = broadcast_to(ma if ma is not None else mb, shape)
    return r


def binop(I, op, a, b):
    if not (isinstance(a, SArr) or isinstance(b, SArr)):
        return None
    I.ctx.trust(T_NUMPY)
    if isinstance(a, (list, tuple)):
        a = from_list(I, list(a))
    if isinstance(b, (list, tuple)):
        b = from_list(I, list(b))
    t = type(op)
    ka = a.kind if isinstance(a, SArr) else _kind_of(a)
    kb = b.kind if isinstance(b, SArr) else _kind_of(b)
    if 'O' in (ka, kb):
        return elementwise(I, lambda x, y: _pure(I, lambda: I.binop(op, x, y)), a, b, 'O' if t is not ast.Div else 'O')
    if t in _BIN:
        f = _BIN[t]
        kind = None
        if t is ast.Div:
            kind = 'f'
            I.ctx.trust(A_NONAN)
        return elementwise(I, f, a, b, kind)
    if t is ast.Pow:
        return elementwise(I, lambda x, y: models.power(I, x, y), a, b)
    if t in (ast.BitOr, ast.BitAnd, ast.BitXor):
        g = {ast.BitOr: sym.Or, ast.BitAnd: sym.And, ast.BitXor: sym.ne}[t]
        return elementwise(I, g, a, b, 'b')
    raise Unsupported('array op %s' % t.__name__)


def _pure(I, thunk):
    prev = getattr(I, 'pure', False)
    I.pure = True
    try:
        return thunk()
    finally:
        I.pure = prev


def compare(I, op, a, b):
    if not (isinstance(a, SArr) or isinstance(b, SArr)):
        return None
    t = type(op)
    if t in (ast.Is, ast.IsNot):
        return (a is b) if t is ast.Is else (a is not b)
    if t in (ast.In, ast.NotIn):
        return None
    if isinstance(a, (list, tuple)):
        a = from_list(I, list(a))
    if isinstance(b, (list, tuple)):
        b = from_list(I, list(b))
    ka = a.kind if isinstance(a, SArr) else _kind_of(a)
    kb = b.kind if isinstance(b, SArr) else _kind_of(b)
    if 'O' in (ka, kb):
        return elementwise(I, lambda x, y: _pure(I, lambda: I.compare(op, x, y)), a, b, 'b')
    return elementwise(I, _CMP[t], a, b, 'b')


def unaryop(I, op, v):
    if not isinstance(v, SArr):
        return None
    v = v.frozen()
    if isinstance(op, ast.USub):
        return SArr(v.shape, lambda q: sym.neg(v.get(q)), v.kind, tag='neg')
    if isinstance(op, ast.Invert) and v.kind == 'b':
        return SArr(v.shape, lambda q: sym.Not(v.get(q)), 'b', tag='not')
    if isinstance(op, ast.UAdd):
        return v
    raise Unsupported('unary array op')


def inplace_op(I, op, cur, rhs):
    if not isinstance(cur, SArr):
        return None
    I.ctx.trust(T_NUMPY)
    t = type(op)
    if t not in _BIN:
        raise Unsupported('in-place array op')
    f = _BIN[t]
    old = cur.buf.get       # snapshot of the buffer before the write
    imap = cur.imap
    rr = broadcast_to(rhs, cur.shape) if isinstance(rhs, SArr) else None
    if rr is not None and rr.buf is cur.buf:
        # operand aliases the target: freeze its pre-state content
        oldrr_get = rr.buf.get
        rr = SArr(rr.shape, (lambda rmap: (lambda q: oldrr_get(rmap(q))))(rr.imap), rr.kind, tag='frozen')
    cur.write_where(lambda v: True, lambda v: f(old(imap(v)), rr.get(v) if rr is not None else rhs))
    return cur


def reduce_bool(I, a, how):
    """a.all() / a.any() as a fresh Bool with defining axioms"""
    b = I.ctx.fresh(how, 'Bool')
    q = a.idx_vars('r')
    w = tuple(I.ctx.fresh('w') for _ in range(a.ndim))
    if a.mask is not None:
        raise Unsupported('masked reduce')
    if how == 'all':
        body = sym.Implies(a.in_range(q), a.get(q))
        I.ctx.assume(sym.Implies(b, z3.ForAll(list(q), body) if is_sym(body) else body))
        I.ctx.assume(sym.Implies(sym.Not(b), sym.And(a.in_range(w), sym.Not(a.get(w)))))
    else:
        body = sym.Implies(a.in_range(q), sym.Not(a.get(q)))
        I.ctx.assume(sym.Implies(sym.Not(b), z3.ForAll(list(q), body) if is_sym(body) else body))
        I.ctx.assume(sym.Implies(b, sym.And(a.in_range(w), a.get(w))))
    return b


def astype(I, a, t):
    t = dtype_kind(t)
    a = a.frozen()
    if t == a.kind:
        return SArr(a.shape, lambda q: a.get(q), a.kind, tag='astype', mask=a.mask)
    if t == 'i':
        I.ctx.trust('numpy.astype(int): truncation toward zero')
        return SArr(a.shape, lambda q: sym.trunc(a.get(q)), 'i', tag='astype(i)', mask=a.mask)
    if t == 'f':
        return SArr(a.shape, lambda q: sym.to_real(a.get(q)), 'f', tag='astype(f)', mask=a.mask)
    raise Unsupported('astype %r' % t)


class DTypeTok:
    """numpy dtype known only by its kind"""

    def __init__(self, kind):
        self.kind = kind
        self.char = {'f': 'f', 'i': 'i', 'b': '?', 'O': 'O'}.get(kind, 'f')


def dtype_kind(t):
    if isinstance(t, DTypeTok):
        return t.kind
    if isinstance(t, str):
        t0 = t.lstrip('<>=')
        if t0[:1] in ('i', 'u') or t0.startswith('int') or t0.startswith('uint'):
            return 'i'
        if t0[:1] in ('f', 'd') or t0.startswith('float'):
            return 'f'
        if t0[:1] in ('b', '?'):
            return 'b'
        if t0[:1] in ('O',):
            return 'O'
    if isinstance(t, Builtin):
        nm = t.name.split('.')[-1]
        if nm.startswith('int') or nm.startswith('uint'):
            return 'i'
        if nm.startswith('float'):
            return 'f'
        if nm == 'bool':
            return 'b'
    raise Unsupported('dtype %r' % (t,))


def diff1(I, a):
    I.ctx.trust('numpy.diff: out[i] = a[i+1] - a[i]')
    if a.ndim != 1:
        raise Unsupported('diff of n-d array')
    a = a.frozen()
    n = sym.sub(a.shape[0], 1)
    n = sym.ite(sym.lt(n, 0), 0, n)
    if a.kind == 'O':
        return SArr((n,), lambda q: _pure(I, lambda: I.binop(ast.Sub(), a.get(sym.add(q[0], 1)), a.get(q[0]))), 'O', tag='diff')
    return SArr((n,), lambda q: sym.sub(a.get(sym.add(q[0], 1)), a.get(q[0])), a.kind, tag='diff')


def concat1(I, parts):
    """np.concatenate / np.append of 1-D pieces (scalars allowed): fresh buffer"""
    I.ctx.trust('numpy.concatenate/append: pieces laid end to end in a fresh array')
    ps = []
    for p in parts:
        if isinstance(p, SArr):
            if p.ndim != 1:
                raise Unsupported('concatenate of n-d pieces')
            ps.append((p.shape[0], (lambda pp: (lambda k: pp.get(k)))(p), p.kind))
        elif isinstance(p, (list, tuple)):
            pl = list(p)
            ps.append((len(pl), (lambda l: (lambda k: _select(l, k)))(pl), _kind_of(pl[0]) if pl else 'f'))
        else:
            ps.append((1, (lambda v: (lambda k: v))(p), _kind_of(p)))
    total = 0
    offs = []
    for ln, _, _ in ps:
        offs.append(total)
        total = sym.add(total, ln)
    kinds = [k for _, _, k in ps]
    kind = 'O' if 'O' in kinds else ('f' if 'f' in kinds else 'i')

    def get(q):
        i = q[0]
        r = ps[-1][1](sym.sub(i, offs[-1]))
        for (ln, g, _), o in list(zip(ps, offs))[-2::-1]:
            r = _ite(sym.lt(i, sym.add(o, ln)), g(sym.sub(i, o)), r)
        return r
    # freeze: content is captured now (fresh buffer)
    return SArr((total,), _freeze(get), kind, tag='concat')


def _freeze(get):
    return get


def copy_of(I, a):
    g = a.buf.get
    imap = a.imap
    r = SArr(a.shape, lambda q: g(imap(q)), a.kind, tag='copy')
    if a.mask is not None:
        r.mask = copy_of(I, a.mask)
    return r


def interp(I, x, xp, fp, left=None, right=None):
    """np.interp(x, xp, fp, left, right): REQUIRES xp strictly increasing (otherwise the
    result is documented to be meaningless); ENSURES piece-wise linear value on the
    containing cell, left/right (default fp[0]/fp[-1]) outside."""
    I.ctx.trust('numpy.interp: requires xp increasing; piece-wise linear on the containing cell; left/right outside')
    if not isinstance(xp, SArr):
        xp = from_list(I, list(xp))
    if not isinstance(fp, SArr):
        fp = from_list(I, list(fp))
    n = xp.shape[0]
    j = z3.Int('interp_j_%d' % next(_ids))
    inc = sym.Implies(sym.And(sym.ge(j, 0), sym.lt(j, sym.sub(n, 1))), sym.lt(xp.get(j), xp.get(sym.add(j, 1))))
    I.ctx.prove('call:numpy.interp/pre:xp-increasing', z3.ForAll([j], inc) if is_sym(inc) else inc, 'pre',
                {'callee': 'numpy.interp'})
    I.ctx.assume(z3.ForAll([j], inc) if is_sym(inc) else inc)
    cell = z3.Function('interp_cell_%d' % next(_ids), z3.RealSort(), z3.IntSort())
    lval = fp.get(0) if left is None else left
    rval = fp.get(sym.sub(n, 1)) if right is None else right

    def value(v):
        v = sym.to_real(v)
        k = cell(sym.to_z3(v))
        x0, x1 = xp.get(k), xp.get(sym.add(k, 1))
        f0, f1 = fp.get(k), fp.get(sym.add(k, 1))
        lin = sym.add(f0, sym.mul(sym.truediv(sym.sub(v, x0), sym.sub(x1, x0)), sym.sub(f1, f0)))
        last = sym.sub(n, 1)
        return sym.ite(sym.lt(v, xp.get(0)), lval,
                       sym.ite(sym.gt(v, xp.get(last)), rval,
                               sym.ite(sym.eq(v, xp.get(last)), fp.get(last), lin)))

    def cell_axiom(v):
        v = sym.to_real(v)
        k = cell(sym.to_z3(v))
        last = sym.sub(n, 1)
        inside = sym.And(sym.ge(v, xp.get(0)), sym.lt(v, xp.get(last)))
        val = value(v)
        lo = sym.min_(fp.get(k), fp.get(sym.add(k, 1)))
        hi = sym.max_(fp.get(k), fp.get(sym.add(k, 1)))
        return sym.Implies(inside, sym.And(sym.ge(k, 0), sym.lt(k, last), sym.le(xp.get(k), v), sym.lt(v, xp.get(sym.add(k, 1))),
                                           sym.ge(val, lo), sym.le(val, hi)))
    I.ctx.ghost.setdefault('interp', []).append(dict(cell=lambda v: cell(sym.to_z3(sym.to_real(v))), xp=xp, fp=fp, n=n, value=value, axiom=cell_axiom))
    if isinstance(x, SArr):
        r = SArr(x.shape, lambda q: value(x.get(q)), 'f', tag='interp')
        r.axiom = lambda q: cell_axiom(x.get(q))   # instantiate for the element under study
        qv = x.idx_vars('ia')
        ax = cell_axiom(x.get(qv))
        I.ctx.assume(z3.ForAll(list(qv), ax))
        r.cell = lambda q: cell(sym.to_z3(sym.to_real(x.get(q))))
        return r
    I.ctx.assume(cell_axiom(x))
    return value(x)


# ---------------------------------------------------------------------------
# attribute / method dispatch
# ---------------------------------------------------------------------------

def value_getattr(I, a, name):
    if isinstance(a, DTypeTok):
        if name in ('char', 'kind'):
            return a.char if name == 'char' else {'f': 'f', 'i': 'i', 'b': 'b', 'O': 'O'}.get(a.kind, 'f')
        return None
    if not isinstance(a, SArr):
        return None
    if name in a.attrs:
        return a.attrs[name]
    if name == 'dtype':
        return DTypeTok(a.kind)
    if name == 'shape':
        return a.shape
    if name == 'ndim':
        return a.ndim
    if name == 'size':
        return a.size
    if name == 'dimensions' and 'dimensions' in a.attrs:
        return a.attrs['dimensions']
    if name == 'T' and a.ndim == 2:
        return SArr((a.shape[1], a.shape[0]), kind=a.kind, buf=a.buf, imap=lambda v: a.imap((v[1], v[0])),
                    inv=lambda q: (lambda c, s: (c, (s[1], s[0])))(*a.inv(q)), tag='T')
    if name == 'mask' and a.mask is not None:
        return a.mask

    def meth(fn):
        return BoundModel(fn, a, trusted=T_NUMPY)
    if name == 'all':
        return meth(lambda I, r, args, kw: reduce_bool(I, r, 'all'))
    if name == 'any':
        return meth(lambda I, r, args, kw: reduce_bool(I, r, 'any'))
    if name == 'astype':
        return meth(lambda I, r, args, kw: astype(I, r, args[0]))
    if name == 'copy':
        return meth(lambda I, r, args, kw: copy_of(I, r))
    if name == 'view':
        def view(I, r, args, kw):
            from .exec import ClassRef
            t = args[0] if args else kw.get('type')
            if isinstance(t, ClassRef):
                v = SArr(r.shape, kind=r.kind, buf=r.buf, imap=r.imap, inv=r.inv, attrs={}, tag=r.tag, mask=r.mask)
                v.cls = t       # instance of a repository ndarray subclass: its methods are looked up in the class
                return v
            if getattr(t, 'dotted', None) == 'numpy.ndarray' or getattr(t, 'name', None) == 'numpy.ndarray':
                return SArr(r.shape, kind=r.kind, buf=r.buf, imap=r.imap, inv=r.inv, attrs={}, tag='ndarray-view')
            return r
        return meth(view)
    if name == 'tofile':
        def tofile(I, r, args, kw):
            # text/binary output of the array to an open file: no line break is written for text output with a separator
            fobj = args[0] if args else kw.get('fid')
            I.ctx.ghost[('tofile', id(fobj))] = sym.add(I.ctx.ghost.get(('tofile', id(fobj)), 0), 1)
            return None
        return meth(tofile)
    if name in ('ravel', 'flatten') and a.ndim == 1:
        return meth(lambda I, r, args, kw: r.frozen() if name == 'flatten' else r)
    if name == 'swapaxes':
        def swapaxes(I, r, args, kw):
            i, j = args[0] % r.ndim, args[1] % r.ndim

            def sw(t):
                t = list(t)
                t[i], t[j] = t[j], t[i]
                return tuple(t)
            return SArr(sw(r.shape), kind=r.kind, buf=r.buf, imap=lambda v: r.imap(sw(v)),
                        inv=lambda q: (lambda c, s_: (c, sw(s_)))(*r.inv(q)), attrs={}, tag='swapaxes', mask=None if r.mask is None else value_getattr(I, r.mask, 'swapaxes').fn(I, r.mask, args, kw))
        return meth(swapaxes)
    if name == 'take':
        def take(I, r, args, kw):
            i = args[0]
            ax = kw.get('axis', args[1] if len(args) > 1 else None)
            if ax is not None and not isinstance(i, (SArr, list, tuple)):
                # a.take(i, axis=k) with a scalar index: the axis is dropped (a copy)
                if is_sym(ax):
                    raise Unsupported('take with symbolic axis')
                ax = ax % r.ndim
                idx = tuple(i if k == ax else slice(None) for k in range(r.ndim))
                return basic_index(I, r, idx).frozen()
            if r.ndim != 1:
                raise Unsupported('take on n-d')
            i2 = sym.ite(sym.lt(i, 0), sym.add(i, r.shape[0]), i)
            if I.ctx.branch(sym.Or(sym.lt(i2, 0), sym.ge(i2, r.shape[0]))):
                raise PyExc('IndexError')
            return r.get(i2)
        return meth(take)
    if name == 'tolist':
        def tolist(I, r, args, kw):
            if r.ndim == 1 and not is_sym(r.shape[0]):
                return [r.get(i) for i in range(r.shape[0])]
            raise Unsupported('tolist of symbolic-length array')
        return meth(tolist)
    if name == 'repeat':
        def repeat(I, r, args, kw):
            k = args[0]
            ax = kw.get('axis', args[1] if len(args) > 1 else None)
            if ax is None:
                if r.ndim != 1:
                    raise Unsupported('repeat of a flattened n-d array')
                ax = 0
            if is_sym(ax):
                raise Unsupported('repeat with symbolic axis')
            ax = ax % r.ndim
            n = r.shape[ax]
            snap, imap = r.buf.get, r.imap          # values as they are now (repeat returns a fresh array)
            src = lambda q: snap(imap(tuple(q)))
            if not is_sym(n) and n == 1:
                # an axis of length 1 repeated k times: every entry along it is the single source entry
                I.ctx.trust('numpy.repeat along an axis of length 1: out[.., i, ..] = a[.., 0, ..], length k')
                if is_sym(k) and I.ctx.branch(sym.lt(k, 0)):
                    raise PyExc('ValueError')
                shp = tuple(k if d == ax else s for d, s in enumerate(r.shape))
                return SArr(shp, lambda q: src(tuple(0 if d == ax else x for d, x in enumerate(q))), r.kind, tag='repeat')
            if is_sym(k):
                raise Unsupported('repeat with symbolic count along an axis longer than 1')
            I.ctx.trust('numpy.repeat: out[i] = a[i // k] along the axis')
            shp = tuple(sym.mul(s, k) if d == ax else s for d, s in enumerate(r.shape))
            return SArr(shp, lambda q: src(tuple(sym.floordiv(x, k) if d == ax else x for d, x in enumerate(q))), r.kind, tag='repeat')
        return meth(repeat)
    if name == 'reshape':
        def reshape(I, r, args, kw):
            shp = args[0] if len(args) == 1 and isinstance(args[0], (tuple, list)) else args
            shp = tuple(shp)
            if r.ndim == 1 and len(shp) == 2 and shp[0] == -1 and not is_sym(shp[1]):
                m = shp[1]
                I.ctx.trust('numpy.reshape(-1, m): out[i, j] = a[i*m + j] (C order); requires size % m == 0')
                if I.ctx.branch(sym.ne(sym.mod(r.shape[0], m), 0)):
                    raise PyExc('ValueError')
                return SArr((sym.floordiv(r.shape[0], m), m), kind=r.kind, buf=r.buf,
                            imap=lambda v: r.imap((sym.add(sym.mul(v[0], m), v[1]),)),
                            inv=lambda q: (lambda c, s: (c, (sym.floordiv(s[0], m), sym.mod(s[0], m))))(*r.inv(q)), tag='reshape')
            raise Unsupported('reshape %r' % (shp,))
        return meth(reshape)
    if name == 'strip' or name == 'lower':
        return None
    if name in REDUCERS:
        def red(I, r, args, kw, name=name):
            axis = kw.get('axis', args[0] if args else None)
            keep = kw.get('keepdims', False)
            if axis is None and not keep:
                if name in ('min', 'max'):
                    return extremum(I, r, name)
                if name == 'mean':
                    return mean_of(I, r)
                if name == 'sum':
                    return sum_of(I, r)
            return reduce_axis(I, r, name, axis, keep)
        return meth(red)
    if name == 'filled':
        def filled(I, r, args, kw):
            fv = args[0] if args else kw.get('fill_value')
            if r.mask is None:
                return r
            r = r.frozen()
            m = r.mask
            return SArr(r.shape, lambda q: sym.ite(m.get(q), fv, r.get(q)), r.kind, tag='filled')
        return meth(filled)
    cls = getattr(a, 'cls', None)
    if cls is not None:
        v = I.class_getattr(cls, name)
        from .exec import FuncRef
        if isinstance(v, FuncRef):
            return v.bind(a)
        if v is not None:
            return v
    if name in ('units', 'calendar', 'bounds', 'long_name', 'var_desc', 'missing_value', 'fill_value', '_FillValue', 'scale_factor', 'add_offset', 'name', '_name', 'standard_name'):
        raise PyExc('AttributeError', name)   # a netCDF attribute this variable does not have
    return None


REDUCERS = ('mean', 'sum', 'min', 'max', 'std', 'var', 'prod', 'median', 'ptp')


def reduce_axis(I, a, how, axis, keepdims):
    """a.<how>(axis=k, keepdims=...): the reduction itself is an UNINTERPRETED function of the remaining indices (for min/max
    with the bound property); what is recorded -- and what contracts speak about -- is WHICH array was reduced along WHICH
    axis by WHICH reducer (ghost list 'reductions')"""
    if a.mask is not None:
        raise Unsupported('reduction of a masked array')
    if axis is None:
        axes = list(range(a.ndim))
    elif isinstance(axis, int):
        axes = [axis % a.ndim]
    elif is_sym(axis):
        raise Unsupported('symbolic axis')
    else:
        raise Unsupported('reduction over several axes')
    I.ctx.trust('numpy reductions with axis/keepdims: uninterpreted function of the remaining indices (min/max: a bound of the reduced elements)')
    snap, imap = a.buf.get, a.imap
    src_get = lambda q: snap(imap(tuple(q)))
    rest_n = a.ndim - len(axes)
    kind = 'f' if how in ('mean', 'std', 'var', 'median') else (a.kind if a.kind in 'fi' else 'f')
    f = z3.Function('%s_%d' % (how, next(_ids)), *([z3.IntSort()] * max(rest_n, 1) + [sort_of(kind)]))
    src_shape = a.shape

    def rest(q_full):
        r = [x for k, x in enumerate(q_full) if k not in axes]
        return r or [0]
    if keepdims:
        shp = tuple(1 if k in axes else s for k, s in enumerate(a.shape))
        get = lambda q: f(*[sym.to_z3(x) for x in rest(q)])
    else:
        shp = tuple(s for k, s in enumerate(a.shape) if k not in axes)
        get = lambda q: f(*[sym.to_z3(x) for x in (list(q) or [0])])
    res = SArr(shp, get, kind, tag=how)
    if how in ('min', 'max'):
        q = a.idx_vars('rd')
        cmp = sym.le if how == 'max' else sym.ge
        I.ctx.assume(z3.ForAll(list(q), sym.Implies(a.in_range(q), cmp(src_get(q), f(*[sym.to_z3(x) for x in rest(q)])))))
    I.ctx.ghost.setdefault('reductions', []).append(dict(how=how, axes=tuple(axes), keepdims=bool(keepdims), src_buf=a.buf, src_get=src_get,
                                                         src_shape=src_shape, result=res))
    if not shp:
        return res.get(())
    return res


def extremum(I, a, how):
    """a.max()/a.min(): value m with  (forall i: a[i] <= m) and (exists w: a[w] == m)"""
    I.ctx.trust('numpy.max/min: bound of all elements, attained')
    m = I.ctx.fresh(how, 'Real' if a.kind == 'f' else 'Int')
    q = a.idx_vars('m')
    w = tuple(I.ctx.fresh('w') for _ in range(a.ndim))
    cmp = sym.le if how == 'max' else sym.ge
    I.ctx.assume(z3.ForAll(list(q), sym.Implies(a.in_range(q), cmp(a.get(q), m))))
    I.ctx.assume(sym.And(a.in_range(w), sym.eq(a.get(w), m)))
    return m


def mean_of(I, a):
    if a.kind == 'O':
        # mean of timedeltas etc: abstract value between min and max -- only equality tests use it
        return a.get(tuple(I.ctx.fresh('meanidx') for _ in range(a.ndim))) if False else AbstractMean(I, a)
    I.ctx.trust('numpy.mean: abstract value (lies between min and max of the elements)')
    m = I.ctx.fresh('mean', 'Real')
    return m


class AbstractMean:
    def __init__(self, I, a):
        self.a = a


def sum_of(I, a):
    I.ctx.trust('numpy.sum: uninterpreted')
    s = I.ctx.fresh('sum', 'Real' if a.kind == 'f' else 'Int')
    # ghost record: which buffer (and which state of it) the symbol is the sum of
    I.ctx.ghost.setdefault('sums', []).append(dict(symbol=s, buf=a.buf, writes=a.buf.writes, whole=a.shape == a.buf.shape))
    return s


# ---- numpy module functions -------------------------------------------------

def _np(name, trusted=T_NUMPY):
    def deco(fn):
        models._REG['numpy.' + name] = Builtin('numpy.' + name, fn, trusted)
        return fn
    return deco


def _as_arr(I, x, kind=None):
    if isinstance(x, SArr):
        return x
    if isinstance(x, (list, tuple)):
        return from_list(I, list(x), kind)
    from .exec import GenResult
    if isinstance(x, GenResult):
        return from_list(I, list(x.items), kind)
    from .arrays import SymList
    if isinstance(x, SymList):
        return SArr((x.n,), lambda q: x.get(q[0]), kind or 'O', tag='array(symlist)')
    return x


@_np('asarray')
def _asarray(I, args, kw):
    return _as_arr(I, args[0])


@_np('array')
def _array(I, args, kw):
    x = args[0]
    dt = kw.get('dtype', args[1] if len(args) > 1 else None)
    a = _as_arr(I, x)
    if isinstance(a, SArr):
        a = copy_of(I, a) if a is x else a
        if dt is not None:
            try:
                k = dtype_kind(dt)
            except Unsupported:
                return a
            if k != a.kind and a.kind != 'O':
                return astype(I, a, dt)
        return a
    if kw.get('ndmin') == 1:
        val = a
        return SArr((1,), lambda q: val, _kind_of(val), tag='array(ndmin=1)')
    return a  # 0-d: scalar stands for itself


@_np('arange')
def _arange(I, args, kw):
    if len(args) == 1:
        lo, hi, st = 0, args[0], 1
    elif len(args) == 2:
        lo, hi, st = args[0], args[1], 1
    else:
        lo, hi, st = args
    if is_sym(st) or st != 1:
        raise Unsupported('arange step')
    n = sym.sub(hi, lo)
    n = sym.ite(sym.lt(n, 0), 0, n)
    if sym.is_realkind(n):
        n = sym.ceil_(n)
    return SArr((n,), lambda q: sym.add(lo, q[0]), 'f' if sym.is_realkind(lo) else 'i', tag='arange')


@_np('zeros')
def _zeros(I, args, kw):
    shp = args[0]
    dt = kw.get('dtype', args[1] if len(args) > 1 else 'd')
    if not isinstance(shp, (tuple, list)):
        shp = (shp,)
    rec = models.hook('zeros_struct', I, shp, dt)
    if rec is not None:
        return rec
    k = dtype_kind(dt)
    zero = {'f': Fraction(0), 'i': 0, 'b': False}.get(k, 0)
    r = SArr(tuple(shp), lambda q: zero, k, tag='zeros')
    if isinstance(dt, str) and dt.lstrip('<>=|') in ('uint8', 'u1', 'B'):
        # storing into an unsigned byte array: C conversion of the value to an integer, kept modulo 256
        I.ctx.trust('numpy uint8 store: value truncated toward zero, then modulo 256 (wrap-around)')
        r.buf.coerce = lambda v: sym.mod(sym.trunc(v), 256)
        r.attrs['itemtype'] = 'uint8'
    return r


def _ma_zeros(I, args, kw):
    a = _zeros(I, args[:1], {'dtype': kw.get('dtype', args[1] if len(args) > 1 else 'd')})
    a.mask = SArr(a.shape, lambda q: False, 'b', tag='nomask')
    a.attrs['fill_value'] = kw.get('fill_value')
    return a


models._REG['numpy.ma.zeros'] = Builtin('numpy.ma.zeros', _ma_zeros, T_NUMPY)


@_np('zeros_like')
def _zeros_like(I, args, kw):
    a = args[0]
    zero = {'f': Fraction(0), 'i': 0, 'b': False}.get(a.kind, 0)
    return SArr(a.shape, lambda q: zero, a.kind, tag='zeros_like')


@_np('diff')
def _diff(I, args, kw):
    a = _as_arr(I, args[0])
    ax = kw.get('axis', -1)
    if len(args) > 1 or 'n' in kw:
        raise Unsupported('diff with n')
    if a.ndim == 1:
        if ax not in (None, 0, -1):
            raise PyExc('AxisError')
        return diff1(I, a)
    if not isinstance(ax, int):
        raise Unsupported('diff axis')
    ax = ax % a.ndim
    I.ctx.trust('numpy.diff: out[..i..] = a[..i+1..] - a[..i..] along the axis')
    a = a.frozen()
    n = sym.sub(a.shape[ax], 1)
    n = sym.ite(sym.lt(n, 0), 0, n)
    shp = tuple(n if k == ax else s for k, s in enumerate(a.shape))
    up = lambda q: tuple(sym.add(x, 1) if k == ax else x for k, x in enumerate(q))
    return SArr(shp, lambda q: sym.sub(a.get(up(q)), a.get(q)), a.kind, tag='diff')


@_np('sum')
def _sum(I, args, kw):
    x = args[0]
    if isinstance(x, (list, tuple)) and not any(isinstance(v, SArr) for v in x):
        r = 0
        for v in x:
            r = sym.add(r, sym.ite(v, 1, 0) if sym.is_boolkind(v) else v)
        return r
    if isinstance(x, SArr) and not kw and len(args) == 1:
        return sum_of(I, x)
    raise Unsupported('numpy.sum of %s' % type(x).__name__)


@_np('prod')
def _prod(I, args, kw):
    x = args[0]
    if isinstance(x, (list, tuple)) and not kw and len(args) == 1 and not any(isinstance(v, SArr) for v in x):
        r = 1
        for v in x:
            r = sym.mul(r, v)
        return r
    raise Unsupported('numpy.prod of %s' % type(x).__name__)


@_np('cumsum')
def _cumsum(I, args, kw):
    """numpy.cumsum along one axis: a fresh array c with c[..0..] = a[..0..] and c[..i..] = c[..i-1..] + a[..i..]"""
    a = _as_arr(I, args[0])
    ax = kw.get('axis', args[1] if len(args) > 1 else None)
    if ax is None:
        if a.ndim != 1:
            raise Unsupported('cumsum of a flattened n-d array')
        ax = 0
    if is_sym(ax):
        raise Unsupported('symbolic axis')
    ax = ax % a.ndim
    I.ctx.trust('numpy.cumsum: c[..0..] = a[..0..], c[..i..] = c[..i-1..] + a[..i..] along the axis')
    snap, imap = a.buf.get, a.imap           # content at the time of the call
    aget = lambda q: snap(imap(tuple(q)))
    out = sym_array('cumsum_%d' % next(_ids), a.shape, a.kind if a.kind in 'fi' else 'f')
    q = out.idx_vars('cs')
    prevq = tuple(sym.sub(x, 1) if k == ax else x for k, x in enumerate(q))
    body = sym.Implies(out.in_range(q), sym.eq(out.get(q), sym.ite(sym.eq(q[ax], 0), aget(q), sym.add(out.get(prevq), aget(q)))))
    I.ctx.assume(z3.ForAll(list(q), body))
    return out


@_np('append')
def _append(I, args, kw):
    if kw.get('axis') not in (None, 0):
        raise Unsupported('append axis')
    return concat1(I, [args[0], args[1]])


def concat_axis(I, parts, axis):
    """np.concatenate / np.ma.concatenate of n-d pieces along one axis: pieces laid end to end in a fresh array"""
    parts = [_as_arr(I, p) for p in parts]
    nd = parts[0].ndim
    if any(p.ndim != nd for p in parts):
        raise PyExc('ValueError')
    if is_sym(axis):
        raise Unsupported('symbolic axis')
    ax = axis % nd
    if nd == 1:
        return concat1(I, parts)
    I.ctx.trust('numpy.concatenate/append: pieces laid end to end in a fresh array')
    for p in parts[1:]:
        for k in range(nd):
            if k != ax and I.ctx.branch(sym.ne(p.shape[k], parts[0].shape[k])):
                raise PyExc('ValueError')
    offs, total = [], 0
    for p in parts:
        offs.append(total)
        total = sym.add(total, p.shape[ax])
    snaps = [(p.buf.get, p.imap) for p in parts]       # content at the time of the call (fresh result buffer)

    def get(q):
        i = q[ax]
        sub = lambda o: tuple(sym.sub(x, o) if k == ax else x for k, x in enumerate(q))
        g, m = snaps[-1]
        r = g(m(sub(offs[-1])))
        for (g, m), o, p in list(zip(snaps, offs, parts))[-2::-1]:
            r = _ite(sym.lt(i, sym.add(o, p.shape[ax])), g(m(sub(o))), r)
        return r
    kinds = [p.kind for p in parts]
    kind = 'O' if 'O' in kinds else ('f' if 'f' in kinds else ('i' if 'i' in kinds else 'b'))
    shp = tuple(total if k == ax else s for k, s in enumerate(parts[0].shape))
    r = SArr(shp, get, kind, tag='concat')
    if any(p.mask is not None for p in parts):
        ms = [p.mask if p.mask is not None else SArr(p.shape, lambda q: False, 'b', tag='nomask') for p in parts]
        r.mask = concat_axis(I, ms, ax)
    return r


@_np('concatenate')
def _concatenate(I, args, kw):
    ax = kw.get('axis', args[1] if len(args) > 1 else 0)
    return concat_axis(I, list(args[0]), ax)


models._REG['numpy.ma.concatenate'] = Builtin('numpy.ma.concatenate', _concatenate, T_NUMPY)


@_np('array_equal')
def _array_equal(I, args, kw):
    a, b = _as_arr(I, args[0]), _as_arr(I, args[1])
    if a.ndim != b.ndim:
        return False
    same = sym.And(*[sym.eq(x, y) for x, y in zip(a.shape, b.shape)])
    eqs = SArr(a.shape, lambda q: sym.eq(a.get(q), b.get(q)), 'b', tag='eq')
    if a.ndim == 0:
        return sym.And(same, eqs.get(()))
    return sym.And(same, reduce_bool(I, eqs, 'all'))


@_np('interp')
def _interp(I, args, kw):
    x, xp, fp = args[:3]
    left = kw.get('left', args[3] if len(args) > 3 else None)
    right = kw.get('right', args[4] if len(args) > 4 else None)
    return interp(I, _as_arr(I, x), _as_arr(I, xp), _as_arr(I, fp), left, right)


def _ufunc1(name, f, kind=None):
    def fn(I, args, kw):
        x = args[0]
        if isinstance(x, SArr):
            x = x.frozen()
            r = SArr(x.shape, lambda q: f(x.get(q)), kind or x.kind, tag=name, mask=x.mask)
            return r
        return f(x)
    models._REG['numpy.' + name] = Builtin('numpy.' + name, fn, T_NUMPY)
    models._REG['numpy.ma.' + name] = Builtin('numpy.ma.' + name, fn, T_NUMPY)


_ufunc1('floor', lambda v: sym.to_real(sym.floor_(v)), 'f')
_ufunc1('ceil', lambda v: sym.to_real(sym.ceil_(v)), 'f')
_ufunc1('abs', sym.abs_)
_ufunc1('absolute', sym.abs_)
_ufunc1('float32', lambda v: sym.to_real(v), 'f')
_ufunc1('float64', lambda v: sym.to_real(v), 'f')
_ufunc1('int32', sym.trunc, 'i')
_LN = z3.Function('ln', z3.RealSort(), z3.RealSort())


_LOG2 = z3.Function('log2', z3.RealSort(), z3.RealSort())


@_np('log2')
def _log2(I, args, kw):
    """uninterpreted log2 (contracts supply the facts they need)"""
    x = args[0]
    if isinstance(x, SArr):
        x = x.frozen()
        return SArr(x.shape, lambda q: _LOG2(sym.to_z3(sym.to_real(x.get(q)))), 'f', tag='log2', mask=x.mask)
    if not is_sym(x):
        import math
        if x <= 0:
            raise Unsupported('log2 of a non-positive constant')
        v = math.log2(float(x))
        if v == int(v):
            return Fraction(int(v))
    return _LOG2(sym.to_z3(sym.to_real(x)))


@_np('log')
def _log(I, args, kw):
    """uninterpreted ln; for a concrete argument its sign is a known fact; contracts supply what else they need"""
    x = args[0]
    if isinstance(x, SArr):
        x = x.frozen()
        return SArr(x.shape, lambda q: _LN(sym.to_z3(sym.to_real(x.get(q)))), 'f', tag='log', mask=x.mask)
    r = _LN(sym.to_z3(sym.to_real(x)))
    if not is_sym(x):
        if x <= 0:
            raise Unsupported('log of a non-positive constant')
        I.ctx.assume(r > 0 if x > 1 else (r == 0 if x == 1 else r < 0))
    return r


@_np('round')
def _round(I, args, kw):
    x = args[0]
    nd = args[1] if len(args) > 1 else kw.get('decimals', 0)
    if nd != 0:
        raise Unsupported('round decimals')
    I.ctx.trust('numpy.round: nearest integer, ties to even')
    if isinstance(x, SArr):
        x = x.frozen()
        return SArr(x.shape, lambda q: sym.round_half_even(x.get(q)), 'f', tag='round', mask=x.mask)
    return sym.round_half_even(x)


def _ufunc2(name, f):
    def fn(I, args, kw):
        a, b = args[:2]
        if isinstance(a, SArr) or isinstance(b, SArr):
            return elementwise(I, f, a, b)
        return f(a, b)
    models._REG['numpy.' + name] = Builtin('numpy.' + name, fn, T_NUMPY)


_ufunc2('minimum', sym.min_)
_ufunc2('maximum', sym.max_)


@_np('ma.masked_invalid')
def _masked_invalid(I, args, kw):
    I.ctx.trust(A_NONAN)
    a = args[0]
    if isinstance(a, SArr):
        a = a.frozen()
        r = SArr(a.shape, lambda q: a.get(q), a.kind, tag='masked_invalid')
        r.mask = a.mask if a.mask is not None else SArr(a.shape, lambda q: False, 'b')
        return r
    return a


@_np('ma.masked_where')
def _masked_where(I, args, kw):
    c, a = args[:2]
    a = _as_arr(I, a).frozen()
    r = SArr(a.shape, lambda q: a.get(q), a.kind, tag='masked_where')
    cc = broadcast_to(c.frozen(), a.shape) if isinstance(c, SArr) else SArr(a.shape, lambda q: c, 'b')
    r.mask = cc if a.mask is None else elementwise(I, sym.Or, cc, a.mask, 'b')
    return r


def _masked_cmp(name, pred, doc):
    def fn(I, args, kw):
        x, v = _as_arr(I, args[0]).frozen(), args[1]
        if kw.get('copy', True) is not True:
            raise Unsupported('numpy.ma.%s(copy=False)' % name)
        I.ctx.trust('numpy.ma.%s: a copy masked additionally where %s' % (name, doc))
        r = SArr(x.shape, lambda q: x.get(q), x.kind, tag=name)
        cond = SArr(x.shape, lambda q: pred(x.get(q), v), 'b', tag=name + '-cond')
        r.mask = cond if x.mask is None else elementwise(I, sym.Or, cond, x.mask, 'b')
        return r
    models._REG['numpy.ma.' + name] = Builtin('numpy.ma.' + name, fn, T_NUMPY)


_masked_cmp('masked_greater', sym.gt, 'x > value')
_masked_cmp('masked_greater_equal', sym.ge, 'x >= value')
_masked_cmp('masked_less', sym.lt, 'x < value')
_masked_cmp('masked_less_equal', sym.le, 'x <= value')
_masked_cmp('masked_equal', sym.eq, 'x == value')
_masked_cmp('masked_not_equal', sym.ne, 'x != value')


@_np('ma.filled')
def _ma_filled(I, args, kw):
    a = _as_arr(I, args[0]).frozen()
    fv = args[1] if len(args) > 1 else kw.get('fill_value')
    if a.mask is None:
        return SArr(a.shape, lambda q: a.get(q), a.kind, tag='filled')
    if fv is None:
        fv = a.attrs.get('fill_value')
        if fv is None:
            raise Unsupported('numpy.ma.filled with the default fill value')
    m = a.mask
    return SArr(a.shape, lambda q: sym.ite(m.get(q), fv, a.get(q)), a.kind, tag='filled')


models._REG['numpy.ma.core.filled'] = models._REG['numpy.ma.filled']


@_np('ma.getmaskarray')
def _getmaskarray(I, args, kw):
    a = _as_arr(I, args[0])
    if a.mask is None:
        return SArr(a.shape, lambda q: False, 'b', tag='nomask')
    return a.mask.frozen()


@_np('ma.getdata')
def _getdata(I, args, kw):
    a = _as_arr(I, args[0])
    # the data of a masked array as a plain array (a view in numpy; never written through in the verified code)
    r = SArr(a.shape, kind=a.kind, buf=a.buf, imap=a.imap, inv=a.inv, attrs={}, tag='getdata')
    return r


def permute_axes(a, perm):
    """view of `a` whose axis k is axis perm[k] of `a` (numpy.transpose semantics)"""
    perm = tuple(perm)

    def to_src(v):
        out = [None] * len(perm)
        for k, p_ in enumerate(perm):
            out[p_] = v[k]
        return tuple(out)

    def from_src(s_):
        return tuple(s_[p_] for p_ in perm)
    r = SArr(tuple(a.shape[p_] for p_ in perm), kind=a.kind, buf=a.buf, imap=lambda v: a.imap(to_src(v)),
             inv=lambda q: (lambda c, s_: (c, from_src(s_)))(*a.inv(q)), attrs={}, tag='transpose')
    if a.mask is not None:
        r.mask = permute_axes(a.mask, perm)
    if hasattr(a, 'cls'):
        r.cls = a.cls
    return r


@_np('rollaxis')
def _rollaxis(I, args, kw):
    a = _as_arr(I, args[0])
    axis = kw.get('axis', args[1] if len(args) > 1 else None)
    start = kw.get('start', args[2] if len(args) > 2 else 0)
    if is_sym(axis) or is_sym(start) or axis is None:
        raise Unsupported('rollaxis with symbolic axis')
    n = a.ndim
    axis = axis % n if -n <= axis < n else None
    if axis is None or not (-n <= start <= n):
        raise PyExc('AxisError')
    if start < 0:
        start += n
    I.ctx.trust('numpy.rollaxis(a, axis, start): the axis is moved to lie before position start (a view)')
    if start > axis:
        start -= 1
    order = list(range(n))
    order.remove(axis)
    order.insert(start, axis)
    return permute_axes(a, order)


@_np('transpose')
def _transpose(I, args, kw):
    a = _as_arr(I, args[0])
    axes = kw.get('axes', args[1] if len(args) > 1 else None)
    if axes is None:
        axes = list(range(a.ndim))[::-1]
    axes = [x % a.ndim for x in axes]
    if sorted(axes) != list(range(a.ndim)):
        raise PyExc('ValueError')
    return permute_axes(a, axes)


@_np('swapaxes')
def _swapaxes(I, args, kw):
    a = _as_arr(I, args[0])
    i, j = args[1], args[2]
    if is_sym(i) or is_sym(j):
        raise Unsupported('swapaxes with symbolic axes')
    order = list(range(a.ndim))
    i, j = i % a.ndim, j % a.ndim
    order[i], order[j] = order[j], order[i]
    return permute_axes(a, order)


@_np('moveaxis')
def _moveaxis(I, args, kw):
    a = _as_arr(I, args[0])
    src, dst = args[1], args[2]
    if is_sym(src) or is_sym(dst) or not isinstance(src, int) or not isinstance(dst, int):
        raise Unsupported('moveaxis with several / symbolic axes')
    n = a.ndim
    src, dst = src % n, dst % n
    order = [k for k in range(n) if k != src]
    order.insert(dst, src)
    return permute_axes(a, order)


@_np('expand_dims')
def _expand_dims(I, args, kw):
    a = _as_arr(I, args[0])
    ax = kw.get('axis', args[1] if len(args) > 1 else None)
    if not isinstance(ax, int):
        raise Unsupported('expand_dims with several / symbolic axes')
    n = a.ndim + 1
    ax = ax % n if -n <= ax < n else None
    if ax is None:
        raise PyExc('AxisError')
    idx = tuple([slice(None)] * ax + [None] + [slice(None)] * (a.ndim - ax))
    return basic_index(I, a, idx)


@_np('atleast_1d')
def _atleast_1d(I, args, kw):
    x = args[0]
    if isinstance(x, SArr):
        if x.ndim >= 1:
            return x
        val = x.get(())
        return SArr((1,), lambda q: val, x.kind, tag='atleast_1d')
    if isinstance(x, (list, tuple)):
        return from_list(I, list(x))
    return SArr((1,), lambda q: x, _kind_of(x), tag='atleast_1d')


@_np('ndim')
def _ndim(I, args, kw):
    return args[0].ndim if isinstance(args[0], SArr) else 0


# numpy API existence facts are read from the INSTALLED numpy at run time
def numpy_missing(name):
    import numpy as np
    obj = np
    for part in name.split('.'):
        if not hasattr(obj, part):
            return True
        obj = getattr(obj, part)
    return False


def _resolve_numpy_attr(I, dotted):
    return None


# ---- hooks -----------------------------------------------------------------

models.register_hook('binop', binop)
models.register_hook('compare', compare)
models.register_hook('unaryop', unaryop)
models.register_hook('inplace_op', inplace_op)
models.register_hook('value_getattr', value_getattr)
models.register_hook('getitem', lambda I, o, i: getitem(I, o, i) if isinstance(o, SArr) else None)
models.register_hook('setitem', lambda I, o, i, v: setitem(I, o, i, v) if isinstance(o, SArr) else None)
models.register_hook('len_', lambda I, x: x.shape[0] if isinstance(x, SArr) and x.ndim else None)
models.register_hook('float_', lambda I, x: None)


def _truth(I, v):
    if isinstance(v, SArr):
        raise PyExc('ValueError')   # truth value of an array is ambiguous
    return None


models.register_hook('truth', _truth)


def _iterate(I, v):
    if isinstance(v, SArr):
        if v.ndim >= 1 and not is_sym(v.shape[0]):
            return [getitem(I, v, i) for i in range(v.shape[0])]
        raise Unsupported('iteration over a symbolic-length array needs an invariant or the map rule')
    return None


models.register_hook('iterate', _iterate)


def _zip(I, args):
    if any(isinstance(a, SArr) and a.ndim >= 1 and is_sym(a.shape[0]) for a in args):
        arrs = [_as_arr(I, a) for a in args]
        n = arrs[0].shape[0]
        for a in arrs[1:]:
            n = sym.min_(n, a.shape[0])
        return ZipArr(n, arrs)
    return None


class ZipArr:
    def __init__(self, n, arrs):
        self.n, self.arrs = n, arrs

    def get(self, i):
        return tuple(a.get(i) if a.ndim == 1 else basic_index(None, a, i) for a in self.arrs)


models.register_hook('zip_', _zip)


def _enumerate(I, x):
    if isinstance(x, SArr) and x.ndim >= 1 and is_sym(x.shape[0]):
        return EnumArr(x)
    if isinstance(x, ZipArr):
        return EnumArr(x)
    return None


class EnumArr:
    def __init__(self, a):
        self.a = a
        self.n = a.n if isinstance(a, ZipArr) else a.shape[0]

    def get(self, i):
        if isinstance(self.a, ZipArr):
            return (i, self.a.get(i))
        return (i, self.a.get(i) if self.a.ndim == 1 else basic_index(None, self.a, i))


models.register_hook('enumerate_', _enumerate)


def comprehension(I, e, frame, src):
    """[elt for tgt in <array/zip of arrays>] -> element-wise map rule:
    out[i] = elt evaluated with tgt bound to src[i]; elt must be branch-free."""
    g = e.generators[0]
    if g.ifs:
        raise Unsupported('filtered comprehension over symbolic array')
    if isinstance(src, SArr):
        n = src.shape[0]
        if src.ndim == 1:
            src = src.frozen()      # the elements as they are when the comprehension runs
        getsrc = (lambda i: src.get(i)) if src.ndim == 1 else (lambda i: basic_index(None, src, i))
    else:
        n = src.n
        getsrc = src.get
    I.ctx.trust('map rule: [f(x) for x in xs] has out[i] = f(xs[i])')

    def get(q):
        cf = Frame(frame.func, {}, frame)
        cf.globals_decl = frame.globals_decl
        I.assign(g.target, getsrc(q[0]), cf)
        return _pure(I, lambda: I.eval(e.elt, cf))
    # evaluate once on a fresh index to learn the element kind and emit library preconditions
    probe = z3.Int('map_i_%d' % next(_ids))
    I.map_index = (probe, n)
    try:
        v = get((probe,))
    finally:
        I.map_index = None
    return SArr((n,), get, _kind_of(v), tag='comprehension')


def _comp_hook(I, e, frame):
    if len(e.generators) != 1:
        return None
    g = e.generators[0]
    try:
        src = I.eval(g.iter, frame)
    except (PyExc, Unsupported):
        return None
    if isinstance(src, (ZipArr, EnumArr)) or (isinstance(src, SArr) and src.ndim >= 1 and is_sym(src.shape[0])):
        return comprehension(I, e, frame, src)
    return None


models.register_hook('symbolic_comprehension', _comp_hook)


def _map_append_for(I, st, frame, it):
    """the loop spelling of the map rule:
           L = []                                  (still empty when the loop starts)
           for tgt in <symbolic array / zip / enumerate>:
               t1 = e1; t2 = e2; ...               (plain names, branch-free expressions, L not mentioned)
               L.append(e)
       is  L = [e for tgt in ...]  with the temporaries inlined: L[i] = e evaluated with tgt bound to src[i]."""
    if isinstance(it, SArr):
        if not (it.ndim >= 1 and is_sym(it.shape[0])):
            return None
    elif not isinstance(it, (ZipArr, EnumArr)):
        return None
    if st.orelse or not st.body:
        return None
    pre, last = st.body[:-1], st.body[-1]
    call = last.value if isinstance(last, ast.Expr) else None
    if not (isinstance(call, ast.Call) and isinstance(call.func, ast.Attribute) and call.func.attr == 'append'
            and isinstance(call.func.value, ast.Name) and len(call.args) == 1 and not call.keywords):
        return None
    lname = call.func.value.id
    temps = []
    for s_ in pre:
        if not (isinstance(s_, ast.Assign) and len(s_.targets) == 1 and isinstance(s_.targets[0], ast.Name) and s_.targets[0].id != lname):
            return None
        temps.append(s_.targets[0].id)
    for node in [call.args[0]] + [s_.value for s_ in pre]:
        for n_ in ast.walk(node):
            if isinstance(n_, ast.Name) and n_.id == lname:
                return None
            if isinstance(n_, (ast.Lambda, ast.Yield, ast.YieldFrom, ast.Await, ast.NamedExpr)):
                return None
    L = frame.locals.get(lname)
    if not (isinstance(L, list) and len(L) == 0):
        return None
    if any(v is L for k, v in frame.locals.items() if k != lname):
        return None     # another name for the same list: rebinding would lose the alias
    if isinstance(it, SArr):
        n = it.shape[0]
        src = it.frozen() if it.ndim == 1 else it
        getsrc = (lambda i: src.get(i)) if it.ndim == 1 else (lambda i: basic_index(None, src, i))
    else:
        n, getsrc = it.n, it.get
    I.ctx.trust('map rule: [f(x) for x in xs] has out[i] = f(xs[i])')

    def get(q):
        cf = Frame(frame.func, {}, frame)
        cf.globals_decl = frame.globals_decl
        I.assign(st.target, getsrc(q[0]), cf)

        def run():
            I.exec_block(pre, cf)
            return I.eval(call.args[0], cf)
        return _pure(I, run)
    probe = z3.Int('map_i_%d' % next(_ids))
    I.map_index = (probe, n)
    try:
        v = get((probe,))
    finally:
        I.map_index = None
    frame.locals[lname] = SArr((n,), get, _kind_of(v), tag='map-append')
    from .exec import Opaque
    names = set(temps) | {n_.id for n_ in ast.walk(st.target) if isinstance(n_, ast.Name)}
    for nm in names:
        frame.locals[nm] = Opaque('value of %s after a map loop' % nm)
    return True


models.register_hook('map_append_for', _map_append_for)


def _symbolic_for_arr(I, st, frame, it, spec):
    """for x in <symbolic array / enumerate / zip> with an invariant"""
    if isinstance(it, SArr) and it.ndim >= 1:
        getter = (lambda i: it.get(i)) if it.ndim == 1 else (lambda i: basic_index(I, it, i))
        n = it.shape[0]
    elif isinstance(it, (ZipArr, EnumArr)):
        getter, n = it.get, it.n
    else:
        return None
    hidden = '__idx_%d' % st.lineno
    frame.locals[hidden] = 0
    # (prototype binding of the loop variable: an arbitrary row, no bounds check -- the real binding happens in pre_body)
    I.assign(st.target, _pure(I, lambda: getter(z3.Int('loop_proto_%d' % next(_ids)))), frame)

    def cond():
        return sym.lt(frame.locals[hidden], n)

    def pre_body():
        I.assign(st.target, getter(frame.locals[hidden]), frame)

    def step():
        frame.locals[hidden] = sym.add(frame.locals[hidden], 1)
    frame.loop_index_name = hidden
    I.cutpoint_loop(st, frame, spec, cond, step=({hidden}, step), pre_body=pre_body)
    return True


models.register_hook('symbolic_for', _symbolic_for_arr)


@_np('where')
def _where(I, args, kw):
    if len(args) != 3:
        raise Unsupported('np.where with one argument')
    c, a, b = args
    shape = None
    for x in (c, a, b):
        if isinstance(x, SArr):
            shape = x.shape if shape is None else result_shape(SArr(shape, lambda q: 0), x)
    if shape is None:
        return sym.ite(c, a, b)
    cc = broadcast_to(c.frozen(), shape) if isinstance(c, SArr) else None
    aa = broadcast_to(a.frozen(), shape) if isinstance(a, SArr) else None
    bb = broadcast_to(b.frozen(), shape) if isinstance(b, SArr) else None
    kinds = [x.kind if isinstance(x, SArr) else _kind_of(x) for x in (a, b)]
    kind = 'O' if 'O' in kinds else ('f' if 'f' in kinds else 'i')
    return SArr(shape, lambda q: _ite(cc.get(q) if cc is not None else c,
                                      aa.get(q) if aa is not None else a,
                                      bb.get(q) if bb is not None else b), kind, tag='where')
