"""C17 -- interpolation is linear-exact; conservative regridding conserves column mass.

B: real getinterpweights / sigma2coeff / interpSigma / interpDimension, numeric with tolerance.
P: see CONTRACTS (sigma2coeff per-element overlap, weight normalisation) when present.
"""
import itertools
from .common import *   # noqa

CONTRACTS = []


def bounded(tier, seed):
    from rtc import harness as H, ioapi as IO
    import numpy as np
    P = H.real()
    from PseudoNetCDF.coordutil import getinterpweights, sigma2coeff
    run = H.Run('C17', tier, seed, budget_s=80 if tier == 'quick' else 500)
    rng = np.random.default_rng(seed + 17)
    coords = [np.array([0., 1.]), np.array([10., 20., 30., 40.]), np.array([1., 2., 4., 8., 16.]), np.array([0., .1, .5, .55, .9, 1.]),
              np.array([40., 30., 20., 10.]), np.array([1., .9, .5, 0.])]
    for xs in coords:
        inner = np.sort(np.concatenate([xs, (xs[1:] + xs[:-1]) / 2, (xs[1:] * 3 + xs[:-1]) / 4]))
        if xs[0] > xs[-1]:
            inner = inner[::-1]
        targets = [xs.copy(), (xs[1:] + xs[:-1]) / 2, inner, xs[:1].copy(), xs[-1:].copy()]
        for nxs in targets:
            def t(xs=xs, nxs=nxs):
                w = getinterpweights(xs, nxs)
                if w.shape != (xs.size, nxs.size):
                    return 'weights shape %r' % (w.shape,)
                if (w < -1e-12).any():
                    return 'negative weight %r inside the source range' % float(w.min())
                if not np.allclose(w.sum(0), 1, rtol=0, atol=1e-12):
                    return 'weights of a target point sum to %r' % w.sum(0).tolist()
                for a, b in ((0., 1.), (2., -3.), (-7.5, 0.25)):
                    y = a + b * xs
                    ny = (w * y[:, None]).sum(0)
                    if not np.allclose(ny, a + b * nxs, rtol=1e-12, atol=1e-10):
                        return 'linear profile %r+%r*x not reproduced: %r vs %r' % (a, b, ny.tolist(), (a + b * nxs).tolist())
                if nxs.shape == xs.shape and np.array_equal(nxs, xs) and not np.allclose(w, np.eye(xs.size), atol=1e-12):
                    return 'weights for target == source are not the identity'
                return None
            run.case('C17:getinterpweights', (xs.tolist(), nxs.tolist()), t)
    # sigma grids sharing top and bottom
    grids = [np.array([1., 0.]), np.array([1., .5, 0.]), np.array([1., .9, .6, .2, 0.]), np.array([1., .98, .95, .8, .5, .25, .1, 0.]),
             np.linspace(1, 0, 9) ** 2, np.array([1., .75, .5, .25, 0.])]
    for src, dst in itertools.product(grids, grids):
        src32, dst32 = src.astype('f'), dst.astype('f')

        def t(src=src32, dst=dst32):
            c = sigma2coeff(src, dst)
            n, m = src.size - 1, dst.size - 1
            if c.shape != (n, m):
                return 'coefficient shape %r' % (c.shape,)
            if (c < -1e-6).any() or (c > 1 + 1e-6).any():
                return 'overlap fraction outside [0,1]: %r' % [float(c.min()), float(c.max())]
            if not np.allclose(c.sum(1), 1, atol=1e-5):
                return 'fractions of a source layer sum to %r (not 1)' % c.sum(1).tolist()
            # independent overlap fractions in sigma space
            exp = np.zeros((n, m))
            for i in range(n):
                for j in range(m):
                    lo, hi = max(src[i + 1], dst[j + 1]), min(src[i], dst[j])
                    exp[i, j] = max(0., hi - lo) / (src[i] - src[i + 1])
            if not np.allclose(c, exp, atol=2e-5):
                i, j = np.unravel_index(np.abs(c - exp).argmax(), c.shape)
                return 'coeff[%d,%d]=%r, overlap fraction is %r' % (i, j, float(c[i, j]), float(exp[i, j]))
            return None
        run.case('C17:sigma2coeff', (src.tolist(), dst.tolist()), t)

        def t2(src=src32, dst=dst32):
            nz = src.size - 1
            f = IO.make_ioapi(P, nt=2, nz=nz, ny=2, nx=3, seed=seed)
            f.VGLVLS = src
            f.updatemeta()
            v = f.variables['V0']
            v[:] = rng.random(v.shape) * 10 + 1
            f.variables['V1'][:] = 7.
            before = H.snapshot(f)
            g = f.interpSigma(dst, interptype='conserve')
            dps, dpd = -np.diff(src.astype('d')), -np.diff(dst.astype('d'))
            a, b = np.asarray(v[:], 'd'), np.asarray(g.variables['V0'][:], 'd')
            ma = (a * dps[None, :, None, None]).sum(1)
            mb = (b * dpd[None, :, None, None]).sum(1)
            if not np.allclose(ma, mb, rtol=2e-5):
                return 'column integral changed: %r -> %r' % (float(ma.flat[0]), float(mb.flat[0]))
            if not np.allclose(np.asarray(g.variables['V1'][:], 'd'), 7., rtol=2e-5):
                return 'constant field 7 became %r' % np.asarray(g.variables['V1'][0, :, 0, 0]).tolist()
            if len(g.dimensions['LAY']) != dst.size - 1 or not np.allclose(g.VGLVLS, dst):
                return 'target levels not set'
            return H.same_snapshot(before, H.snapshot(f))
        run.case("C17:interpSigma('conserve')", (src.tolist(), dst.tolist()), t2)

        def t3(src=src32, dst=dst32):
            nz = src.size - 1
            if nz < 2:
                return None
            f = IO.make_ioapi(P, nt=1, nz=nz, ny=2, nx=2, seed=seed)
            f.VGLVLS = src
            f.updatemeta()
            zs = (src[:-1] + src[1:]).astype('d') / 2
            f.variables['V0'][:] = (3 - 2 * zs)[None, :, None, None]
            g = f.interpSigma(dst, interptype='linear')
            nzs = (dst[:-1] + dst[1:]).astype('d') / 2
            inside = (nzs <= zs.max()) & (nzs >= zs.min())
            got = np.asarray(g.variables['V0'][0, :, 0, 0], 'd')
            if not np.allclose(got[inside], (3 - 2 * nzs)[inside], rtol=1e-5, atol=1e-6):
                return 'linear profile not reproduced by interpSigma(linear): %r vs %r' % (got.tolist(), (3 - 2 * nzs).tolist())
            return None
        run.case("C17:interpSigma('linear')", (src.tolist(), dst.tolist()), t3)
    # interpDimension along every dimension of 1-4-D variables
    for spec in H.file_specs(tier, seed)[:2]:
        f = H.make_file(P, spec)
        for d, n, _ in spec['dims']:
            if d not in f.variables or n < 2:
                continue
            x = np.asarray(f.variables[d][:], 'd')
            for nx_ in (x.copy(), (x[1:] + x[:-1]) / 2):
                def t(f=f, d=d, x=x, nx_=nx_):
                    lin = f.copy()
                    for vk, v in lin.variables.items():
                        if d in v.dimensions and vk != d and v.dtype.kind == 'f':
                            ax = list(v.dimensions).index(d)
                            shp = [1] * v.ndim
                            shp[ax] = -1
                            v[...] = np.ma.getdata(v[...]) * 0 + (2 + 3 * x).reshape(shp)
                    g = lin.interpDimension(d, nx_)
                    e = H.wf(g)
                    if e:
                        return 'ill-formed: ' + e
                    for vk, v in lin.variables.items():
                        if d in v.dimensions and vk != d and v.dtype.kind == 'f' and not np.ma.is_masked(v[...]):
                            ax = list(v.dimensions).index(d)
                            shp = [1] * v.ndim
                            shp[ax] = -1
                            exp = np.zeros(g.variables[vk].shape) + (2 + 3 * nx_).reshape(shp)
                            if not np.allclose(np.ma.getdata(g.variables[vk][...]), exp, rtol=1e-5):
                                return 'linear profile along %s of %s not reproduced' % (d, vk)
                    return None
                run.case('C17:interpDimension', (spec['seed'], d, nx_.tolist()), t)
    return run.result(
        rule='real getinterpweights (non-negative inside, columns sum to 1, linear profiles exact, identity), sigma2coeff vs independent overlap fractions, interpSigma conserve (column integral, constant field) '
             'and linear, interpDimension along every coordinate dimension; tolerance 1e-5 relative (float32 level edges)',
        bound='coordinates of 2-6 points (ascending, descending, non-uniform), targets {same, midpoints, refinement, single end points}; 6 sigma grids of 1-8 layers, all ordered pairs')


def bounded_replay(p):
    return False, p.get('what')


META = dict(
    level='exploration',
    technique='bounded run-time contract with numeric tolerance (float32); algebraic laws over reals planned as pyvc contracts',
    text='weights laws and mass conservation checked numerically on the real functions over the stated grids.',
    note='bounded only.',
    assumptions=[], explanation='')
