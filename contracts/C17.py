"""C17 -- interpolation is linear-exact; conservative regridding conserves column mass.

B: real getinterpweights / sigma2coeff / interpSigma / interpDimension, numeric with tolerance.
P: see CONTRACTS (sigma2coeff per-element overlap, weight normalisation) when present.
"""
import itertools
from .common import *   # noqa

import z3
from pyvc.nparr import sym_array, SArr
from pyvc.exec import LoopSpec

CU = 'coordutil.py'


def overlap(b, t, lay):
    """length of the overlap of [b, t] with source layer [lay, lay+1] in index space"""
    return sym.max_(0, sub(sym.min_(t, add(lay, 1)), sym.max_(b, lay)))


class Sigma2Coeff(Contract):
    parallel_paths = True   # one worker process per path (slow quantified obligations)
    prefer_solver = 'z3-4.8.12'
    """coeff[lay, li] is the length (in source-layer index space) of the overlap of target layer li with source layer lay,
    for source/target grids of ARBITRARY size; b, t are the positions np.interp assigns to the two edges of the target layer"""
    prop = 'C17'
    target = CU + '::sigma2coeff'
    max_paths = 60

    def inputs(self, ctx, I):
        n, m = ctx.fresh('nfrom'), ctx.fresh('nto')       # numbers of level EDGES
        fr = sym_array('fromvglvls', (n,), 'f')
        to = sym_array('tovglvls', (m,), 'f')
        self.n, self.m, self.fr, self.to = n, m, fr, to
        self.I = I
        return dict(fromvglvls=fr, tovglvls=to, n=n, m=m)

    def call_args(self, inp):
        return [inp['fromvglvls'], inp['tovglvls']], {}

    def requires(self, inp):
        n, m, fr, to = inp['n'], inp['m'], inp['fromvglvls'], inp['tovglvls']
        i, j = z3.Int('di'), z3.Int('dj')
        dec = lambda a, k: z3.ForAll([i, j], Implies(And(ge(i, 0), lt(i, j), lt(j, k)), gt(a.get(i), a.get(j))))
        # strictly decreasing sigma edges sharing top and bottom
        return And(ge(n, 2), ge(m, 2), dec(fr, n), dec(to, m), eq(fr.get(0), to.get(0)), eq(fr.get(sub(n, 1)), to.get(sub(m, 1))))

    # positions of the target edges in source index space, from the np.interp record
    def pos(self, ctx, k):
        g = ctx.ghost['interp'][-1]
        # the interpolation ran on the reversed arrays; edge k of the target is element m-1-k of the reversed target
        return g['value'](self.to.get(k))

    def spec(self, ctx, lay, li):
        return overlap(self.pos(ctx, li), self.pos(ctx, add(li, 1)), lay)

    def col_done(self, env, coeff, j):
        lay = z3.Int('iv_lay')
        nl = sub(self.n, 1)
        return z3.ForAll([lay], Implies(And(ge(lay, 0), lt(lay, nl)), eq(coeff.get(lay, j), self.spec(env.ctx, lay, j))))

    def inv_outer(self, env):
        coeff = env['coeff']
        k = env.it
        j, lay = z3.Int('io_j'), z3.Int('io_lay')
        nl, nt = sub(self.n, 1), sub(self.m, 1)
        done = z3.ForAll([j, lay], Implies(And(ge(j, 0), lt(j, k), ge(lay, 0), lt(lay, nl)), eq(coeff.get(lay, j), self.spec(env.ctx, lay, j))))
        untouched = z3.ForAll([j, lay], Implies(And(ge(j, k), lt(j, nt), ge(lay, 0), lt(lay, nl)), eq(coeff.get(lay, j), 0)))
        return And(ge(k, 0), le(k, nt), done, untouched)

    def inv_inner(self, env):
        coeff = env['coeff']
        li, b, t, ll, ul = env['li'], env['b'], env['t'], env['ll'], env['ul']
        L = env.it
        j, lay = z3.Int('ii_j'), z3.Int('ii_lay')
        nl, nt = sub(self.n, 1), sub(self.m, 1)
        this_done = z3.ForAll([lay], Implies(And(ge(lay, ll), lt(lay, L), lt(lay, nl)), eq(coeff.get(lay, li), overlap(b, t, lay))))
        this_zero = z3.ForAll([lay], Implies(And(ge(lay, 0), lt(lay, nl), Or(lt(lay, ll), ge(lay, L))), eq(coeff.get(lay, li), 0)))
        facts = And(ge(li, 0), lt(li, nt), eq(b, self.pos(env.ctx, li)), eq(t, self.pos(env.ctx, add(li, 1))),
                    ge(b, 0), le(t, nl), le(b, t),
                    eq(ll, sym.floor_(b)), eq(ul, sym.ceil_(t)), ge(L, ll), le(L, ul))
        return And(facts, this_done, this_zero)

    def inner_lemmas(self, env):
        """monotonicity of the piece-wise linear position function, staged for the solver"""
        g = env.ctx.ghost['interp'][-1]
        li = env['li']
        v1, v2 = self.to.get(li), self.to.get(add(li, 1))
        k1, k2 = g['cell'](v1), g['cell'](v2)
        b, t = env['b'], env['t']
        nl = sub(self.n, 1)
        xp, last = g['xp'], sub(g['n'], 1)
        in1 = And(ge(v1, xp.get(0)), lt(v1, xp.get(last)))
        in2 = And(ge(v2, xp.get(0)), lt(v2, xp.get(last)))
        return [('target-edges-decrease', gt(v1, v2)),
                ('b-is-position', eq(b, g['value'](v1))), ('t-is-position', eq(t, g['value'](v2))),
                ('trusted:numpy.interp cell axiom at the two edges of the target layer', And(g['axiom'](v1), g['axiom'](v2))),
                ('positions-in-range', And(ge(b, 0), le(b, nl), ge(t, 0), le(t, nl))),
                ('b<=t', le(b, t))]

    def inner_writes(self, env, idx):
        # the inner loop writes column li only
        return eq(idx[1], env['li'])

    @property
    def loops(self):
        return {0: LoopSpec(inv=self.inv_outer), 1: LoopSpec(inv=self.inv_inner, decreases=lambda env: sub(env['ul'], env.it), modifies={'coeff': self.inner_writes}, lemmas=self.inner_lemmas)}

    def ensures(self, inp, res, I):
        if not isinstance(res, SArr):
            return [('returns-matrix', False)]
        n, m = inp['n'], inp['m']
        lay, li = z3.Int('lay'), z3.Int('li')
        rng = And(ge(lay, 0), lt(lay, sub(n, 1)), ge(li, 0), lt(li, sub(m, 1)))
        return [('shape', And(eq(res.shape[0], sub(n, 1)), eq(res.shape[1], sub(m, 1)))),
                ('coeff[lay,li]=overlap-length', Implies(rng, eq(res.get(lay, li), self.spec(I.ctx, lay, li))))]

    def small(self, inp):
        return And(le(inp['n'], 4), le(inp['m'], 4))


CONTRACTS = [Sigma2Coeff()]


def bounded(tier, seed):
    from rtc import harness as H, ioapi as IO
    import numpy as np
    P = H.real()
    from PseudoNetCDF.coordutil import getinterpweights, sigma2coeff
    run = H.Run('C17', tier, seed, budget_s=80 if tier == 'quick' else 500)
    rng = np.random.default_rng(seed + 17)
    coords = [np.array([0., 1.]), np.array([10., 20., 30., 40.]), np.array([1., 2., 4., 8., 16.]), np.array([0., .1, .5, .55, .9, 1.]),
              np.array([40., 30., 20., 10.]), np.array([1., .9, .5, 0.])]
    for xs in coords:
        inner = np.sort(np.concatenate([xs, (xs[1:] + xs[:-1]) / 2, (xs[1:] * 3 + xs[:-1]) / 4]))
        if xs[0] > xs[-1]:
            inner = inner[::-1]
        targets = [xs.copy(), (xs[1:] + xs[:-1]) / 2, inner, xs[:1].copy(), xs[-1:].copy()]
        for nxs in targets:
            def t(xs=xs, nxs=nxs):
                w = getinterpweights(xs, nxs)
                if w.shape != (xs.size, nxs.size):
                    return 'weights shape %r' % (w.shape,)
                if (w < -1e-12).any():
                    return 'negative weight %r inside the source range' % float(w.min())
                if not np.allclose(w.sum(0), 1, rtol=0, atol=1e-12):
                    return 'weights of a target point sum to %r' % w.sum(0).tolist()
                for a, b in ((0., 1.), (2., -3.), (-7.5, 0.25)):
                    y = a + b * xs
                    ny = (w * y[:, None]).sum(0)
                    if not np.allclose(ny, a + b * nxs, rtol=1e-12, atol=1e-10):
                        return 'linear profile %r+%r*x not reproduced: %r vs %r' % (a, b, ny.tolist(), (a + b * nxs).tolist())
                if nxs.shape == xs.shape and np.array_equal(nxs, xs) and not np.allclose(w, np.eye(xs.size), atol=1e-12):
                    return 'weights for target == source are not the identity'
                return None
            run.case('C17:getinterpweights', (xs.tolist(), nxs.tolist()), t)
    # sigma grids sharing top and bottom
    grids = [np.array([1., 0.]), np.array([1., .5, 0.]), np.array([1., .9, .6, .2, 0.]), np.array([1., .98, .95, .8, .5, .25, .1, 0.]),
             np.linspace(1, 0, 9) ** 2, np.array([1., .75, .5, .25, 0.])]
    for src, dst in itertools.product(grids, grids):
        src32, dst32 = src.astype('f'), dst.astype('f')

        def t(src=src32, dst=dst32):
            c = sigma2coeff(src, dst)
            n, m = src.size - 1, dst.size - 1
            if c.shape != (n, m):
                return 'coefficient shape %r' % (c.shape,)
            if (c < -1e-6).any() or (c > 1 + 1e-6).any():
                return 'overlap fraction outside [0,1]: %r' % [float(c.min()), float(c.max())]
            if not np.allclose(c.sum(1), 1, atol=1e-5):
                return 'fractions of a source layer sum to %r (not 1)' % c.sum(1).tolist()
            # independent overlap fractions in sigma space
            exp = np.zeros((n, m))
            for i in range(n):
                for j in range(m):
                    lo, hi = max(src[i + 1], dst[j + 1]), min(src[i], dst[j])
                    exp[i, j] = max(0., hi - lo) / (src[i] - src[i + 1])
            if not np.allclose(c, exp, atol=2e-5):
                i, j = np.unravel_index(np.abs(c - exp).argmax(), c.shape)
                return 'coeff[%d,%d]=%r, overlap fraction is %r' % (i, j, float(c[i, j]), float(exp[i, j]))
            return None
        run.case('C17:sigma2coeff', (src.tolist(), dst.tolist()), t)

        def t2(src=src32, dst=dst32):
            nz = src.size - 1
            f = IO.make_ioapi(P, nt=2, nz=nz, ny=2, nx=3, seed=seed)
            f.VGLVLS = src
            f.updatemeta()
            v = f.variables['V0']
            v[:] = rng.random(v.shape) * 10 + 1
            f.variables['V1'][:] = 7.
            before = H.snapshot(f)
            g = f.interpSigma(dst, interptype='conserve')
            dps, dpd = -np.diff(src.astype('d')), -np.diff(dst.astype('d'))
            a, b = np.asarray(v[:], 'd'), np.asarray(g.variables['V0'][:], 'd')
            ma = (a * dps[None, :, None, None]).sum(1)
            mb = (b * dpd[None, :, None, None]).sum(1)
            if not np.allclose(ma, mb, rtol=2e-5):
                return 'column integral changed: %r -> %r' % (float(ma.flat[0]), float(mb.flat[0]))
            if not np.allclose(np.asarray(g.variables['V1'][:], 'd'), 7., rtol=2e-5):
                return 'constant field 7 became %r' % np.asarray(g.variables['V1'][0, :, 0, 0]).tolist()
            if len(g.dimensions['LAY']) != dst.size - 1 or not np.allclose(g.VGLVLS, dst):
                return 'target levels not set'
            return H.same_snapshot(before, H.snapshot(f))
        run.case("C17:interpSigma('conserve')", (src.tolist(), dst.tolist()), t2)

        def t3(src=src32, dst=dst32):
            nz = src.size - 1
            if nz < 2:
                return None
            f = IO.make_ioapi(P, nt=1, nz=nz, ny=2, nx=2, seed=seed)
            f.VGLVLS = src
            f.updatemeta()
            zs = (src[:-1] + src[1:]).astype('d') / 2
            f.variables['V0'][:] = (3 - 2 * zs)[None, :, None, None]
            g = f.interpSigma(dst, interptype='linear')
            nzs = (dst[:-1] + dst[1:]).astype('d') / 2
            inside = (nzs <= zs.max()) & (nzs >= zs.min())
            got = np.asarray(g.variables['V0'][0, :, 0, 0], 'd')
            if not np.allclose(got[inside], (3 - 2 * nzs)[inside], rtol=1e-5, atol=1e-6):
                return 'linear profile not reproduced by interpSigma(linear): %r vs %r' % (got.tolist(), (3 - 2 * nzs).tolist())
            return None
        run.case("C17:interpSigma('linear')", (src.tolist(), dst.tolist()), t3)
    # interpSigma onto a grid defined for ANOTHER model top (vgtop given, 0 included): the source levels are first re-expressed relative
    # to the new top through pressure (p = sigma * (101325 - top) + top); so the result equals interpolating a file that already carries
    # the converted levels and the new top
    for V, W in ((5000., 0.), (5000., 10000.), (0., 5000.), (5000., 5000.), (10000., 0.)):
        for itype in ('conserve', 'linear'):
            def t5(V=V, W=W, itype=itype):
                src = np.array([1., .98, .9, .7, .4, 0.], 'f')
                conv = ((src.astype('d') * (101325. - V) + V - W) / (101325. - W)).astype('f')
                dst = conv[[0, 2, 4, 5]].copy() if itype == 'conserve' else ((conv[:-1] + conv[1:]) / 2).astype('f')
                f1 = IO.make_ioapi(P, nt=1, nz=5, ny=2, nx=2, seed=seed)
                f1.VGLVLS, f1.VGTOP = src, np.float32(V)
                f1.updatemeta()
                f2 = IO.make_ioapi(P, nt=1, nz=5, ny=2, nx=2, seed=seed)
                f2.VGLVLS, f2.VGTOP = conv, np.float32(W)
                f2.updatemeta()
                g1 = f1.interpSigma(dst, vgtop=W, interptype=itype)
                g2 = f2.interpSigma(dst, vgtop=W, interptype=itype)
                a, b = np.asarray(g1.variables['V0'][...], 'd'), np.asarray(g2.variables['V0'][...], 'd')
                if a.shape != b.shape or not np.allclose(a, b, rtol=2e-4, atol=1e-6):
                    return 'interpSigma(vgtop=%r, %s) on a file with VGTOP=%r differs from interpolating the file with the levels already converted: %r vs %r' % (W, itype, V, a[0, :, 0, 0].tolist(), b[0, :, 0, 0].tolist())
                return None
            run.case('C17:interpSigma with another model top', (V, W, itype), t5)
    # interpDimension along every dimension of 1-4-D variables
    for spec in H.file_specs(tier, seed)[:2]:
        f = H.make_file(P, spec)
        for d, n, _ in spec['dims']:
            if d not in f.variables or n < 2:
                continue
            x = np.asarray(f.variables[d][:], 'd')
            for nx_ in (x.copy(), (x[1:] + x[:-1]) / 2):
                def t(f=f, d=d, x=x, nx_=nx_):
                    lin = f.copy()
                    for vk, v in lin.variables.items():
                        if d in v.dimensions and vk != d and v.dtype.kind == 'f':
                            ax = list(v.dimensions).index(d)
                            shp = [1] * v.ndim
                            shp[ax] = -1
                            v[...] = np.ma.getdata(v[...]) * 0 + (2 + 3 * x).reshape(shp)
                    g = lin.interpDimension(d, nx_)
                    e = H.wf(g)
                    if e:
                        return 'ill-formed: ' + e
                    for vk, v in lin.variables.items():
                        if d in v.dimensions and vk != d and v.dtype.kind == 'f' and not np.ma.is_masked(v[...]):
                            ax = list(v.dimensions).index(d)
                            shp = [1] * v.ndim
                            shp[ax] = -1
                            exp = np.zeros(g.variables[vk].shape) + (2 + 3 * nx_).reshape(shp)
                            if not np.allclose(np.ma.getdata(g.variables[vk][...]), exp, rtol=1e-5):
                                return 'linear profile along %s of %s not reproduced' % (d, vk)
                    return None
                run.case('C17:interpDimension', (spec['seed'], d, nx_.tolist()), t)
    # integer-typed variables: the weighted sum is formed in floating point and stored once; a linear profile whose interpolated values
    # are whole numbers comes back exactly, a constant field stays constant
    for dt in ('i2', 'i4', 'i8'):
        for pos in (0, 1):
            def t_int(dt=dt, pos=pos):
                f = P.PseudoNetCDFFile()
                f.createDimension('z', 5)
                f.createDimension('x', 3)
                z = np.arange(5.)
                f.createVariable('z', 'd', ('z',), values=z)
                dims = ('z', 'x') if pos == 0 else ('x', 'z')
                prof = (1 + 2 * np.arange(5)).astype(dt)           # 1, 3, 5, 7, 9
                a = prof[:, None] + np.zeros((5, 3), dt) if pos == 0 else prof[None, :] + np.zeros((3, 5), dt)
                f.createVariable('lin', dt, dims, values=a.astype(dt))
                f.createVariable('const', dt, dims, values=np.full(a.shape, 7, dt))
                g = f.interpDimension('z', (z[1:] + z[:-1]) / 2)
                want = np.array([2, 4, 6, 8])
                got = np.asarray(g.variables['lin'][...])
                got1 = got[:, 0] if pos == 0 else got[0, :]
                if got1.shape != want.shape or not np.array_equal(got1, want):
                    return 'integer (%s) linear profile 1,3,5,7,9 at the midpoints: %r expected %r' % (dt, got1.tolist(), want.tolist())
                c = np.asarray(g.variables['const'][...])
                if not (c == 7).all():
                    return 'integer (%s) constant field 7 became %r' % (dt, np.unique(c).tolist())
                return None
            run.case('C17:interpDimension of integer variables', (dt, pos), t_int)
    # interpvars (the functional form: weights (new, old) from getinterpweights applied along a named dimension of every variable),
    # float and integer variables, the dimension first or last
    from PseudoNetCDF.core._functions import interpvars
    from PseudoNetCDF.coordutil import getinterpweights as giw
    for dt in ('f', 'd', 'i2', 'i4', 'i8'):
        for pos in (0, 1):
            def t_iv(dt=dt, pos=pos):
                f = P.PseudoNetCDFFile()
                f.createDimension('z', 5)
                f.createDimension('x', 3)
                z = np.arange(5.)
                dims = ('z', 'x') if pos == 0 else ('x', 'z')
                prof = (1 + 2 * np.arange(5)).astype(dt)
                a = prof[:, None] + np.zeros((5, 3), dt) if pos == 0 else prof[None, :] + np.zeros((3, 5), dt)
                f.createVariable('lin', dt, dims, values=a.astype(dt))
                f.createVariable('const', dt, dims, values=np.full(a.shape, 7, dt))
                f.createVariable('other', dt, ('x',), values=np.arange(3).astype(dt))
                w = giw(z, (z[1:] + z[:-1]) / 2)
                g = interpvars(f, w.T, 'z')
                want = np.array([2, 4, 6, 8])
                got = np.asarray(g.variables['lin'][...])
                got1 = got[:, 0] if pos == 0 else got[0, :]
                if got1.shape != want.shape or not np.allclose(got1, want):
                    return 'interpvars, %s variable: linear profile 1,3,5,7,9 at the midpoints gives %r, expected %r' % (dt, got1.tolist(), want.tolist())
                if not np.allclose(np.asarray(g.variables['const'][...]), 7):
                    return 'interpvars, %s variable: constant field 7 became %r' % (dt, np.unique(np.asarray(g.variables['const'][...])).tolist())
                if len(g.dimensions['z']) != 4:
                    return 'interpvars: dimension z has length %d, expected 4' % len(g.dimensions['z'])
                return None
            run.case('C17:interpvars', (dt, pos), t_iv)
    # interpDimension with a coordinate VARIABLE that has a value in every column (coordkey=...): source / target columns
    # fixed or varying from column to column, increasing or decreasing
    rs = np.random.default_rng(seed + 17)
    zs = np.array([0., 1., 2.5, 4., 7.])
    shp_s, shp_t = (2, 5, 3, 4), (2, 4, 3, 4)
    slope, icpt = rs.uniform(-2, 2, (2, 1, 3, 4)), rs.uniform(-5, 5, (2, 1, 3, 4))
    terrain = rs.uniform(0, 1, (2, 1, 3, 4))
    frac = np.array([.1, .35, .6, .9])[None, :, None, None]
    src_fix = zs[None, :, None, None] + np.zeros(shp_s)
    src_var = zs[None, :, None, None] * (1 + terrain) + np.zeros(shp_s)
    tgt_fix = 7. * frac + np.zeros(shp_t)
    tgt_var = np.sort(7. * np.clip(frac + rs.uniform(-.08, .08, shp_t), 0, 1), axis=1)
    for label, sz, tz in (('source varies, target fixed', src_var, tgt_fix), ('source varies, target varies', src_var, tgt_var * (1 + terrain)),
                          ('source fixed, target fixed', src_fix, tgt_fix), ('source fixed, target varies', src_fix, tgt_var),
                          ('decreasing, source fixed, target varies', 1000. - 100 * src_fix, 1000. - 100 * tgt_var), ('target = source', src_var, src_var)):
        def t4(sz=sz, tz=tz):
            dk4 = ('time', 'layer', 'latitude', 'longitude')

            def mk(z):
                f = P.PseudoNetCDFFile()
                for dk, dl in zip(dk4, z.shape):
                    f.createDimension(dk, dl)
                f.createVariable('z', 'd', dk4, values=z.copy())
                return f
            f = mk(sz)
            f.createVariable('lin', 'd', dk4, values=slope * sz + icpt)
            f.createVariable('const', 'd', dk4, values=np.zeros(sz.shape) - 1.5)
            out = f.interpDimension('layer', mk(tz).variables['z'], coordkey='z')
            if not np.allclose(out.variables['z'][:], tz, rtol=1e-9, atol=1e-9):
                return 'the coordinate variable does not land on the target values'
            if not np.allclose(out.variables['lin'][:], slope * tz + icpt, rtol=1e-9, atol=1e-9):
                bad = np.argwhere(~np.isclose(out.variables['lin'][:], slope * tz + icpt, rtol=1e-9, atol=1e-9))[0]
                return 'linear profile not reproduced in column %r' % (tuple(int(x) for x in bad),)
            if not np.allclose(out.variables['const'][:], -1.5):
                return 'constant field not reproduced'
            return None
        run.case('C17:interpDimension with an N-d coordinate variable (%s)' % label, label, t4)
    # extrapolate=True reaches the per-column weights as well: targets beyond the ends of a column continue the end segment
    # (same law as with a 1-D coordinate: a linear profile is reproduced beyond the ends)
    fr_out = np.array([-.3, .2, .7, 1.25])[None, :, None, None]
    for label, sz, tz in (('source varies', src_var, (7. * fr_out + np.zeros(shp_t)) * (1 + terrain)), ('source fixed', src_fix, 7. * fr_out + np.zeros(shp_t)),
                          ('decreasing', 1000. - 100 * src_fix, 1000. - 700 * fr_out + np.zeros(shp_t))):
        def t5(sz=sz, tz=tz):
            dk4 = ('time', 'layer', 'latitude', 'longitude')

            def mk(z):
                f = P.PseudoNetCDFFile()
                for dk, dl in zip(dk4, z.shape):
                    f.createDimension(dk, dl)
                f.createVariable('z', 'd', dk4, values=z.copy())
                return f
            f = mk(sz)
            f.createVariable('lin', 'd', dk4, values=slope * sz + icpt)
            out = f.interpDimension('layer', mk(tz).variables['z'], coordkey='z', extrapolate=True)
            got, want = np.ma.filled(out.variables['lin'][:], np.nan), slope * tz + icpt
            if not np.allclose(got, want, rtol=1e-9, atol=1e-9):
                bad = np.argwhere(~np.isclose(got, want, rtol=1e-9, atol=1e-9))[0]
                return 'extrapolate=True: linear profile not continued beyond the ends of column %r (got %r, want %r)' % (
                    tuple(int(x) for x in bad), float(got[tuple(bad)]), float(want[tuple(bad)]))
            # the same request with a 1-D coordinate (reference behaviour of the option)
            g = P.PseudoNetCDFFile()
            g.createDimension('layer', 5)
            g.createVariable('layer', 'd', ('layer',), values=sz[0, :, 0, 0].copy())
            g.createVariable('lin', 'd', ('layer',), values=2 * sz[0, :, 0, 0] - 1)
            o1 = g.interpDimension('layer', tz[0, :, 0, 0].copy(), extrapolate=True)
            if not np.allclose(np.ma.filled(o1.variables['lin'][:], np.nan), 2 * tz[0, :, 0, 0] - 1, rtol=1e-9, atol=1e-9):
                return 'extrapolate=True with a 1-D coordinate: linear profile not continued beyond the ends'
            return None
        run.case('C17:interpDimension with an N-d coordinate variable, extrapolate=True (%s)' % label, label, t5)
    return run.result(
        rule='real getinterpweights (non-negative inside, columns sum to 1, linear profiles exact, identity), sigma2coeff vs independent overlap fractions, interpSigma conserve (column integral, constant field) '
             'and linear, interpDimension along every coordinate dimension; tolerance 1e-5 relative (float32 level edges)',
        bound='coordinates of 2-6 points (ascending, descending, non-uniform), targets {same, midpoints, refinement, single end points}; 6 sigma grids of 1-8 layers, all ordered pairs')


def bounded_replay(p):
    return False, p.get('what')


META = dict(
    level='other',
    technique='loop invariants over symbolic-size arrays proved by pyvc/z3 for sigma2coeff (nested cut-point loops, frame conditions, staged lemmas); bounded numeric checks for the sum laws',
    text='Proved for source/target sigma grids of any size: every element of the matrix returned by sigma2coeff is the length of the overlap of the target layer with the source '
         'layer in source-index space (nested loop invariants; the inner loop writes only its own column; termination by variant). Bounded (float32): non-negativity / partition of unity / '
         'linear exactness / identity of getinterpweights, overlap fractions against an independent computation, column mass and constant fields under interpSigma, interpDimension.',
    note='A-REAL; np.interp is a trusted contract (piece-wise linear on the bracketing cell, value between the bracketing samples; its monotonicity precondition is an obligation); the sum laws '
         '(rows sum to one, mass conservation) need induction over sums and are bounded only.',
    assumptions=[sym.A_REAL],
    explanation='mixed: discharged proof obligations for sigma2coeff + bounded numeric exploration for the sum laws and the scipy-based weights')
