"""C05 -- isolation: inputs are never modified, results never alias, closing is local.

P: frame conditions (nothing reachable from the receiver is written) on the query
functions getTimes and val2idx for arbitrary files, and the handle type-state of
class netcdf (close / __del__ are safe from every state).
B: deep snapshots around every catalogue operation, alias test by overwriting the
result, and all open/close/del/gc interleavings over three disk-backed files.
"""
import z3
from .common import *   # noqa
from pyvc.nparr import sym_array, SArr
from . import C16 as _C16

F = 'core/_files.py'


class Val2IdxFrame(_C16.Val2Idx):
    """same symbolic execution as C16, only the frame clause is claimed here"""
    prop = 'C05'

    def ensures(self, inp, res, I):
        return [(nm, f) for nm, f in _C16.Val2Idx.ensures(self, inp, res, I) if nm.startswith('frame:')]

    def on_raise(self, inp, exc, I):
        return [('frame:coordinate-unchanged[raise]', _C16.frame_same(inp['x'], self.x0, inp['n']))]


def buf_same(arr, get0, shape):
    q = [z3.Int('fr_%d' % k) for k in range(len(shape))]
    rng = And(*[And(ge(i, 0), lt(i, n)) for i, n in zip(q, shape)])
    return z3.ForAll(q, Implies(rng, eq(arr.buf.get(tuple(q)), get0(tuple(q)))))


class GetTimesFrame(Contract):
    """getTimes on a TFLAG file with ARBITRARY flag values (including the -635 sentinel)
    must not write the TFLAG variable"""
    prop = 'C05'
    target = F + '::PseudoNetCDFFile.getTimes'
    name = 'getTimes[TFLAG]/frame'
    ignore = ('call:datetime',)     # invalid flags make getTimes raise, which is allowed here

    def inputs(self, ctx, I):
        n, nv = ctx.fresh('ntimes'), ctx.fresh('nvars')
        tflag = sym_array('TFLAG', (n, nv, 2), 'i')
        f = pnc_file(I, variables={'TFLAG': tflag}, dimensions={'TSTEP': dim_obj(I, 'TSTEP', n)})
        self.t0 = tflag.buf.get
        return dict(self=f, n=n, nv=nv, tflag=tflag)

    def call_args(self, inp):
        return [inp['self']], {}

    def requires(self, inp):
        return And(ge(inp['n'], 1), ge(inp['nv'], 1))

    def frame(self, inp):
        return buf_same(inp['tflag'], self.t0, inp['tflag'].shape)

    def ensures(self, inp, res, I):
        return [('frame:TFLAG-unchanged', self.frame(inp))]

    def on_raise(self, inp, exc, I):
        return [('frame:TFLAG-unchanged[raise %s]' % exc, self.frame(inp))]

    def small(self, inp):
        return And(le(inp['n'], 2), le(inp['nv'], 1))

    def concretize(self, model, inp):
        return dict(n=model_value(model, inp['n']), nv=model_value(model, inp['nv']), tflag=inp['tflag'].model_value(model))

    def replay(self, c):
        import numpy as np
        P = import_real()
        n, nv = c['n'], c['nv']
        cands = []
        if isinstance(c['tflag'], dict) and 'values' in c['tflag']:
            cands.append(np.array(c['tflag']['values'], 'i').reshape(n, nv, 2))
        cands.append(np.array([[[-635, 0]], [[2000001, 0]]], 'i'))
        last = None
        for t in cands:
            f = P.PseudoNetCDFFile()
            f.createDimension('TSTEP', t.shape[0]); f.createDimension('VAR', t.shape[1]); f.createDimension('DATE-TIME', 2)
            f.createVariable('TFLAG', 'i', ('TSTEP', 'VAR', 'DATE-TIME'), values=t.copy())
            try:
                f.getTimes()
            except Exception as e:
                pass
            after = np.asarray(f.variables['TFLAG'][:])
            ok = np.array_equal(after, t)
            last = (ok, dict(before=t[:, 0, :].tolist(), after=after[:, 0, :].tolist()))
            if not ok:
                return last
        return last


class NetcdfClose(Contract):
    """class netcdf: close() and __del__() must respect the handle type-state of the
    underlying netCDF4.Dataset from EVERY state (open or already closed)"""
    prop = 'C05'

    def __init__(self, meth):
        self.meth = meth
        self.target = F + '::netcdf.' + meth
        self.name = 'netcdf.%s[any handle state]' % meth

    def inputs(self, ctx, I):
        s = self_obj(I, F, 'netcdf', {})
        self.st0 = ctx.fresh('isopen', 'Bool')
        s.ghost['isopen'] = self.st0
        return dict(self=s)

    def ensures(self, inp, res, I):
        s = inp['self']
        evs = [e for e in I.ctx.events if e[0] == 'nc_close']
        return [('handle-closed-afterwards', Not(sym.truthy(s.ghost['isopen'])) if sym.is_sym(s.ghost['isopen']) else (s.ghost['isopen'] is False)),
                ('closed-at-most-once', len(evs) <= 1)]

    def on_raise(self, inp, exc, I):
        return [('never-raises[%s]' % exc, False)]

    def concretize(self, model, inp):
        return dict(isopen=model_value(model, self.st0), method=self.meth)

    def replay(self, c):
        """close A, open B (libnetcdf recycles A's id), drop A -> B must stay readable"""
        import gc, os, tempfile, shutil, netCDF4
        import numpy as np
        P = import_real()
        from PseudoNetCDF.core._files import netcdf
        d = tempfile.mkdtemp()
        try:
            paths = []
            for nm in ('a.nc', 'b.nc'):
                p = os.path.join(d, nm)
                ds = netCDF4.Dataset(p, 'w', format='NETCDF3_CLASSIC')
                ds.createDimension('x', 3)
                ds.createVariable('v', 'f', ('x',))[:] = [1, 2, 3]
                ds.close()
                paths.append(p)
            A = netcdf(paths[0])
            A.close()
            B = netcdf(paths[1])
            if self.meth == '__del__':
                del A
                gc.collect()
            else:
                A.close()
            try:
                ok = np.array_equal(B.variables['v'][:], [1, 2, 3])
                detail = 'B readable'
            except Exception as e:
                ok, detail = False, 'B unreadable after %s of closed A: %s' % (self.meth, e)
            return ok, dict(history='open A; A.close(); open B; %s A; read B' % ('del' if self.meth == '__del__' else 'close'), outcome=detail)
        finally:
            shutil.rmtree(d, ignore_errors=True)


CONTRACTS = [GetTimesFrame(), NetcdfClose('close'), NetcdfClose('__del__')] + \
            [Val2IdxFrame(m, d, b) for m, d, b in (('bounds', 'ascending', None), ('bounds', 'descending', None),
                                                   ('nearest', 'ascending', None), ('bounds', 'ascending', 'nx2'))]


class CopyVariable(Contract):
    """copyVariable(var, key): the new variable is registered under key, has the dimensions, attributes and (with data) the
    element values of the source, and owns a FRESH buffer: writing it can never change the source"""
    prop = 'C05'
    target = F + '::PseudoNetCDFFile.copyVariable'

    def __init__(self, rank, withdata=True):
        self.rank, self.withdata = rank, withdata
        self.name = 'copyVariable[rank %d,%s]' % (rank, 'with data' if withdata else 'structure only')

    def inputs(self, ctx, I):
        from pyvc import frontend
        names = ['t', 'z', 'y'][:self.rank]
        self.lens = {d: ctx.fresh('len_' + d) for d in names}
        f = pnc_file(I, dimensions={d: dim_obj(I, d, n) for d, n in self.lens.items()})
        src = sym_array('srcvar', tuple(self.lens[d] for d in names), 'f')
        mod = frontend.load('core/_variables.py')
        node, _ = mod.find('PseudoNetCDFVariable')
        src.cls = I.classref(mod, node)
        src.attrs.update(dimensions=tuple(names), _ncattrs=('units', 'long_name'), units='ppb', long_name='source')
        self.src = src
        self.src0 = src.buf.get
        return dict(self=f, var=src, key='copied', withdata=self.withdata)

    def requires(self, inp):
        return And(*[ge(n, 0) for n in self.lens.values()])

    def ensures(self, inp, res, I):
        if not isinstance(res, SArr):
            return [('returns-variable', False)]
        src = inp['var']
        q = tuple(z3.Int('cv_%d' % i) for i in range(self.rank))
        rng = And(*[And(ge(i, 0), lt(i, n)) for i, n in zip(q, src.shape)]) if self.rank else True
        out = [('registered-under-key', inp['self'].attrs['variables'].get('copied') is res),
               ('fresh-buffer (no aliasing of the source)', res.buf is not src.buf),
               ('dimensions-copied', res.attrs.get('dimensions') == src.attrs['dimensions']),
               ('shape', And(*[eq(a, b) for a, b in zip(res.shape, src.shape)]) if self.rank else True),
               ('attribute-names-in-order', tuple(res.attrs.get('_ncattrs', ())) == ('units', 'long_name')),
               ('attribute-values', res.attrs.get('units') == 'ppb' and res.attrs.get('long_name') == 'source'),
               ('source-data-unchanged', z3.ForAll(list(q), Implies(rng, eq(src.buf.get(q), self.src0(q)))) if self.rank else True)]
        if self.withdata and self.rank:
            out.append(('element-values-copied', Implies(rng, eq(res.get(q), src.get(q)))))
        return out


CONTRACTS += [CopyVariable(1), CopyVariable(3), CopyVariable(2, False)]


# ---------------------------------------------------------------------------
# isolation of whole operations, for files of arbitrary size: the operation contracts of C02 / C03 / C04 / C06 are re-run
# with the C05 post-condition only -- the result is a new file, its variables own fresh buffers (writing the result can
# never change an input) and every input is unchanged (values, masks, dimension lengths, variable objects)
# ---------------------------------------------------------------------------

_ISOLATION = ('is-a-new-file', 'fresh-buffer', 'fresh-buffers', 'input-unchanged', 'inputs-unchanged', 'fresh buffer', 'source unchanged', 'the source is unchanged',
              'input keeps its variables and dimensions')


def _isolation_variant(base, label):
    class ISO(base):
        prop = 'C05'

        def ensures(self, inp, res, I):
            cl = [c_ for c_ in base.ensures(self, inp, res, I) if any(c_[0] == k or c_[0].endswith('-' + k) or c_[0].endswith(k) for k in _ISOLATION)]
            return cl or [('isolation clauses present', False)]

        def on_raise(self, inp, exc, I):
            return []          # whether the call may raise is not an isolation question

        def replay(self, c):
            # the base replay checks more than isolation: only its isolation findings (result is the receiver, an input changed,
            # a write into the result reached an input) count here; anything else is not an isolation verdict
            if base.__name__ != 'SimpleOp':
                return None
            r = base.replay(self, c)
            if r is None or r[0]:
                return r
            iso = [m for m in (r[1].get('failed') or []) if 'receiver itself' in m or 'input variable' in m]
            return (False, dict(r[1], failed=iso)) if iso else None
    ISO.__name__ = 'ISO_' + base.__name__
    ISO.__doc__ = 'isolation of %s: new file, fresh buffers, inputs unchanged (files of arbitrary size)' % label
    return ISO


def _isolation_contracts():
    from . import C02, C03, C04, C06
    S, A, K = _isolation_variant(C02.SliceBasic, 'sliceDimensions'), _isolation_variant(C03.ApplyAlong, 'applyAlongDimensions'), _isolation_variant(C04.Stack, 'stack')
    B, M = _isolation_variant(C06.Pncbo, 'pncbo'), _isolation_variant(C06.MaskMethod, 'mask')
    out = [S('int'), S('slice'), S('reversed'), S('index-array'), A([('t', 'mean')]), A([('t', 'max'), ('y', 'max')]), K(2), K(3), B('*'), M(('greater', 'less_equal'))]
    from . import C01
    O, R = _isolation_variant(C01.SimpleOp, 'copy / subset / rename / removeSingleton'), _isolation_variant(C01.ReorderDims, 'reorderDimensions')
    out += [O(k) for k in C01.SimpleOp.OPS] + [R(('x', 'y', 't')), R(('y', 'x', 't'))]
    for c in out:
        c.name = 'isolation of ' + c.name
    return out


CONTRACTS += _isolation_contracts()


def bounded(tier, seed):
    from rtc import harness as H, ops
    import numpy as np
    P = H.real()
    run = H.Run('C05', tier, seed, budget_s=45 if tier == 'quick' else 600)
    # --- 1. every catalogue operation leaves its inputs unchanged, result does not alias --------
    for si, spec in enumerate(H.file_specs(tier, seed)):
        for nm, ok, ap in ops.OPS:
            f = H.make_file(P, spec)
            try:
                if not ok(f):
                    continue
            except Exception:
                continue
            before = H.snapshot(f)
            res = {}

            def t_frame():
                res['g'] = ap(P, f)
                return H.same_snapshot(before, H.snapshot(f))
            if not run.case('C05:input-unchanged:' + nm, (si, nm), t_frame):
                continue
            g = res.get('g')
            if g is None or g is f:
                continue

            def t_alias():
                for vk, v in g.variables.items():
                    try:
                        if v.ndim == 0:
                            v[...] = 7
                        else:
                            v[...] = 12345
                        m = np.ma.getmaskarray(v[...])
                        if m is not np.ma.nomask and hasattr(v, 'mask') and np.ndim(v.mask):
                            v.mask[...] = True
                    except (ValueError, TypeError):
                        pass
                return H.same_snapshot(before, H.snapshot(f))
            run.case('C05:result-not-aliased:' + nm, (si, nm), t_alias)
    # time queries on IOAPI-style files, including the -635 sentinel date
    for dates in ([2019365, 2020001, 2020002], [-635, 2000001, 2000002], [2000001, -635, -635]):
        f = P.PseudoNetCDFFile()
        f.createDimension('TSTEP', 3); f.createDimension('VAR', 2); f.createDimension('DATE-TIME', 2)
        tf = np.zeros((3, 2, 2), 'i')
        tf[:, :, 0] = np.array(dates)[:, None]
        tf[:, :, 1] = np.array([0, 10000, 20000])[:, None]
        f.createVariable('TFLAG', 'i', ('TSTEP', 'VAR', 'DATE-TIME'), values=tf)
        f.TSTEP = 10000
        before = H.snapshot(f)
        for b in (False, True):
            def tq(f=f, b=b, before=before):
                try:
                    f.getTimes(bounds=b)
                except Exception:
                    pass
                return H.same_snapshot(before, H.snapshot(f))
            run.case('C05:input-unchanged:getTimes on TFLAG', (dates, b), tq)
    # chained masks on already-masked receivers, argument files of binary operators
    for si, spec in enumerate(H.file_specs(tier, seed)):
        f0 = H.make_file(P, spec)
        f = f0.mask(less=0)
        before = H.snapshot(f)
        dv = [k for k, v in f.variables.items() if v.ndim > 0 and k not in f.dimensions and v.dtype.kind == 'f']
        for k in dv:
            v = f.variables[k]
            w = np.ma.filled(v[...] > 20, False)
            run.case('C05:input-unchanged:mask(where) on masked receiver', (si, k),
                     lambda: (f.mask(where=w, dims=v.dimensions), H.same_snapshot(before, H.snapshot(f)))[1])
            run.case('C05:input-unchanged:mask(greater) on masked receiver', (si, k),
                     lambda: (f.mask(greater=10), H.same_snapshot(before, H.snapshot(f)))[1])
        g = H.make_file(P, spec)
        bg = H.snapshot(g)
        for opn, op in (('+', lambda a, b: a + b), ('/', lambda a, b: a / b), ('<', lambda a, b: a < b)):
            run.case('C05:argument-unchanged:f %s g' % opn, (si, opn),
                     lambda: (op(f, g), H.same_snapshot(bg, H.snapshot(g)) or H.same_snapshot(before, H.snapshot(f)))[1])
    # --- 2. handle life cycle over disk-backed files -----------------------------------------------
    import gc, os, tempfile, shutil, itertools, netCDF4
    from PseudoNetCDF.core._files import netcdf
    d = tempfile.mkdtemp(prefix='verif_c05_')
    try:
        paths = []
        for i in range(3):
            p = os.path.join(d, 'f%d.nc' % i)
            ds = netCDF4.Dataset(p, 'w', format='NETCDF3_CLASSIC')
            ds.createDimension('x', 3)
            ds.createVariable('v', 'f', ('x',))[:] = [i, i + 1, i + 2]
            ds.close()
            paths.append(p)
        steps = ['open0', 'open1', 'open2', 'close0', 'close1', 'del0', 'del1', 'gc']
        L = 5 if tier == 'quick' else 6
        count = 0
        for hist in itertools.product(steps, repeat=L):
            # only histories in which something is closed/dropped before something else is opened
            if not any(h.startswith(('close', 'del')) for h in hist[:-1]):
                continue
            count += 1
            if tier == 'quick' and count % 7:
                continue
            if run.out_of_time():
                break

            def t_hist(hist=hist):
                objs = {}
                for h in hist:
                    k = int(h[-1]) if h[-1].isdigit() else None
                    if h.startswith('open'):
                        if k not in objs:
                            objs[k] = netcdf(paths[k])
                    elif h.startswith('close'):
                        if k in objs:
                            objs[k].close()
                    elif h.startswith('del'):
                        objs.pop(k, None)
                    else:
                        gc.collect()
                    gc.collect()
                    for j, o in objs.items():
                        if o.isopen():
                            try:
                                v = o.variables['v'][:]
                            except Exception as e:
                                return 'after %r: open file %d unreadable: %s' % (h, j, e)
                            if not np.array_equal(v, [j, j + 1, j + 2]):
                                return 'after %r: file %d returns %r' % (h, j, v)
                return None
            cid = 'C05:handles:' + ','.join(hist)
            # class of the history (for known-finding matching): kinds of steps only
            run.case('C05:handles:close/drop/gc never invalidates another open file', hist, t_hist)
        # queries on a DISK-BACKED receiver with packed variables (scale_factor / add_offset) and a fill value: save / dump / time decoding
        # leave what the receiver presents unchanged (values, dtype, mask), the netCDF4 modes of its variables included
        import netCDF4
        pk = os.path.join(d, 'packed.nc')
        ds = netCDF4.Dataset(pk, 'w', format='NETCDF4_CLASSIC')
        ds.createDimension('time', 3)
        ds.createDimension('x', 4)
        tv = ds.createVariable('time', 'd', ('time',))
        tv.units = 'hours since 2020-01-01 00:00:00'
        tv[:] = [0, 1, 2]
        pv = ds.createVariable('T', 'i2', ('time', 'x'), fill_value=-32768)
        pv.scale_factor, pv.add_offset, pv.units = np.float32(0.01), np.float32(273.15), 'K'
        pv[:] = np.ma.masked_array(np.arange(12.).reshape(3, 4) * 1.5 + 260., mask=[[0, 0, 1, 0]] * 3)
        ds.close()
        for how in ('save NETCDF4_CLASSIC', 'save NETCDF3_CLASSIC', 'getTimes', 'repr'):
            def t_q(how=how):
                from PseudoNetCDF import pncopen
                f = pncopen(pk, format='netcdf')
                try:
                    before = {k: np.ma.asarray(f.variables[k][...]).copy() for k in ('time', 'T')}
                    if how.startswith('save'):
                        f.save(os.path.join(d, 'packed_out_%s.nc' % how.split()[1]), format=how.split()[1], verbose=0).close()
                    elif how == 'getTimes':
                        f.getTimes()
                    else:
                        repr(f)
                    for k, a in before.items():
                        b = np.ma.asarray(f.variables[k][...])
                        if b.dtype != a.dtype:
                            return 'after %s the receiver presents %s as %s, before as %s' % (how, k, b.dtype, a.dtype)
                        if not np.array_equal(np.ma.getmaskarray(a), np.ma.getmaskarray(b)) or not np.allclose(a.filled(0), b.filled(0)):
                            return 'after %s the values / mask the receiver presents for %s changed (%r -> %r)' % (how, k, a.ravel()[:3].tolist(), b.ravel()[:3].tolist())
                finally:
                    f.close()
                return None
            run.case('C05:query on a disk-backed file with packed variables leaves it unchanged', how, t_q)
    finally:
        shutil.rmtree(d, ignore_errors=True)
    return run.result(
        rule='(a) every operation of rtc/ops.py on every generated file: deep snapshot of the inputs before/after, then every variable of the '
             'result overwritten and inputs compared again; (b) interleavings of open/close/del/gc over 3 netCDF files, every still-open file read after each step',
        bound='files as in C01; histories of length %d over 8 step kinds (quick: every 7th)' % L)


def bounded_replay(p):
    return False, p.get('what')


META = dict(
    level='other',
    technique='frame conditions (single functions and five whole operations) and handle type-state proved by pyvc (z3); bounded run-time snapshots for the remaining operations and numpy-level aliasing',
    text='Proved for files of ANY size: sliceDimensions (4 selector kinds), applyAlongDimensions, stack (2, 3 files), pncbo, mask, copy, subsetVariables, renameVariable, renameDimension, removeSingleton and reorderDimensions return a NEW file whose variables own fresh buffers and leave every '
         'input unchanged (values, masks, dimension lengths). Proved for all inputs: getTimes does not write the TFLAG variable, val2idx does not write the coordinate variable (any '
         'coordinate, any query), netcdf.close/__del__ close the libnetcdf handle at most once from every handle state. Bounded: '
         'snapshot/alias checks of every catalogue operation and enumerated open/close/del/gc interleavings.',
    note='numpy view-vs-copy table and the netCDF4 handle protocol are trusted contracts; garbage-collector schedules are replaced by '
         'the state-based obligation "__del__ is safe in every handle state".',
    assumptions=[sym.A_REAL],
    explanation='mixed proof (frame/type-state obligations) + bounded exploration (aliasing at numpy level, handle interleavings)')
