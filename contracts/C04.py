"""C04 -- stacking concatenates in order and inverts splitting (bounded)."""
import itertools
from .common import *   # noqa

CONTRACTS = []


def compositions(n, kmax):
    """all ways to write n as an ordered sum of 1..kmax positive parts"""
    out = []

    def rec(rest, parts):
        if rest == 0:
            out.append(list(parts))
            return
        if len(parts) == kmax:
            return
        for p in range(1, rest + 1):
            rec(rest - p, parts + [p])
    rec(n, [])
    return out


def bounded(tier, seed):
    from rtc import harness as H
    import numpy as np
    import os, tempfile, shutil
    P = H.real()
    run = H.Run('C04', tier, seed, budget_s=90 if tier == 'quick' else 600)
    for si, spec in enumerate(H.file_specs(tier, seed)):
        f = H.make_file(P, spec)
        for d, n, unl in spec['dims']:
            # split / stack inverse
            for parts in compositions(n, 3):
                bounds = np.cumsum([0] + parts)

                def t(f=f, d=d, parts=parts, bounds=bounds):
                    pieces = [f.sliceDimensions(**{d: slice(int(a), int(b))}) for a, b in zip(bounds[:-1], bounds[1:])]
                    snaps = [H.snapshot(p) for p in pieces]
                    g = pieces[0].stack(pieces[1:], d) if len(pieces) > 1 else pieces[0].stack([], d)
                    r = H.wf(g)
                    if r:
                        return 'ill-formed: ' + r
                    e = H.same_snapshot(H.snapshot(f), H.snapshot(g), dim_order=False)
                    if e:
                        return 'stack(split(f)) != f: ' + e
                    for p, s0 in zip(pieces, snaps):
                        e = H.same_snapshot(s0, H.snapshot(p))
                        if e:
                            return 'input piece modified: ' + e
                    # slicing the stacked file at a piece's extent reproduces the piece
                    for (a, b), p in zip(zip(bounds[:-1], bounds[1:]), pieces):
                        h = g.sliceDimensions(**{d: slice(int(a), int(b))})
                        e = H.same_snapshot(H.snapshot(p), H.snapshot(h), dim_order=False)
                        if e:
                            return 'slice(stack)[%d:%d] != piece: %s' % (a, b, e)
                    return None
                run.case('C04:stack(split(f))=f', (si, d, parts), t)
            # concatenation of 2..4 different files in argument order
            for k in (2, 3) if tier == 'quick' else (2, 3, 4):
                def t(spec=spec, d=d, k=k):
                    fs = []
                    for j in range(k):
                        sp = dict(spec, seed=spec['seed'] * 10 + j)
                        fs.append(H.make_file(P, sp))
                    g = fs[0].stack(fs[1:], d)
                    r = H.wf(g)
                    if r:
                        return 'ill-formed: ' + r
                    if len(g.dimensions[d]) != sum(len(x.dimensions[d]) for x in fs):
                        return 'stacked dimension length %d' % len(g.dimensions[d])
                    for vk, v in fs[0].variables.items():
                        if d in v.dimensions:
                            ax = list(v.dimensions).index(d)
                            exp = np.ma.concatenate([x.variables[vk][...] for x in fs], axis=ax)
                        else:
                            exp = v[...]
                        e = H.arr_equal(g.variables[vk][...], exp)
                        if e:
                            return 'variable %s: %s' % (vk, e)
                    return None
                run.case('C04:stack=concatenate in argument order', (si, d, k), t)

                def t2(spec=spec, d=d, k=k):
                    from PseudoNetCDF.core._functions import stack_files
                    fs = [H.make_file(P, dict(spec, seed=spec['seed'] * 10 + j)) for j in range(k)]
                    g = stack_files(fs, d)
                    for vk, v in fs[0].variables.items():
                        if d in v.dimensions:
                            ax = list(v.dimensions).index(d)
                            exp = np.ma.concatenate([x.variables[vk][...] for x in fs], axis=ax)
                        else:
                            exp = v[...]
                        e = H.arr_equal(g.variables[vk][...], exp)
                        if e:
                            return 'stack_files variable %s: %s' % (vk, e)
                    return None
                run.case('C04:stack_files (legacy functional form)', (si, d, k), t2)
    # multi-file open helpers
    tmp = tempfile.mkdtemp(prefix='verif_c04_')
    try:
        spec = H.file_specs(tier, seed)[0]
        paths = []
        files = []
        for j in range(3):
            g = H.make_file(P, dict(spec, seed=70 + j))
            p = os.path.join(tmp, 'part%d.nc' % j)
            g.save(p, format='NETCDF4_CLASSIC', verbose=0).close()
            paths.append(p)
            files.append(g)

        def t_mf():
            from PseudoNetCDF import pncmfopen
            m = pncmfopen(paths, stackdim='t', format='netcdf')
            for vk, v in files[0].variables.items():
                if 't' in v.dimensions:
                    ax = list(v.dimensions).index('t')
                    exp = np.ma.concatenate([x.variables[vk][...] for x in files], axis=ax)
                    e = H.arr_equal(m.variables[vk][...], exp)
                    if e:
                        return 'pncmfopen variable %s: %s' % (vk, e)
            return None
        run.case('C04:pncmfopen delegates to stack in argument order', tuple(paths), t_mf)
    finally:
        shutil.rmtree(tmp, ignore_errors=True)
    return run.result(
        rule='stack(split(f)) = f field by field for every composition of every dimension into 1..3 consecutive pieces; slice(stack) = piece; stack / stack_files / pncmfopen of '
             '2..4 different files = numpy.ma.concatenate in argument order',
        bound='files of the C01 space, every dimension, every composition into <= 3 pieces, 2-4 stacked files')


def bounded_replay(p):
    return False, p.get('what')


META = dict(
    level='exploration',
    technique='bounded run-time contract (split/stack inverse, concatenation oracle numpy.ma.concatenate)',
    text='stack(split(f)) = f, slice(stack) = piece and stack = numpy.ma.concatenate in argument order, checked on the real functions over the stated bound.',
    note='bounded only; concatenation equality is numpy semantics.',
    assumptions=['numpy.ma.concatenate semantics (oracle)'],
    explanation='')
