"""C04 -- stacking concatenates in order and inverts splitting (bounded)."""
import itertools
import os
from .common import *   # noqa

import z3
from pyvc.nparr import sym_array, SArr
from pyvc import frontend

F = 'core/_files.py'


class Stack(Contract):
    """self.stack(other, 't') for N files (N = 2 or 3) whose stack dimension t has ARBITRARY lengths and a shared dimension y of
    arbitrary length; variables v(t, y), u(t), w(y):
      * len(t) of the result is the sum of the lengths, y is kept, flags kept;
      * v and u are the pieces laid end to end IN ARGUMENT ORDER: result[i] = piece_p[i - offset_p] for offset_p <= i < offset_p + len_p;
      * w (no stack dimension) is the first file's; attributes carried; fresh buffers; every input unchanged."""
    prop = 'C04'
    target = F + '::PseudoNetCDFFile.stack'
    max_paths = 120

    def __init__(self, n, other_is_list=True):
        self.n, self.other_is_list = n, other_is_list
        self.name = 'stack[%d files,%s]' % (n, 'list' if other_is_list else 'single file argument')

    def inputs(self, ctx, I):
        mod = frontend.load('core/_variables.py')
        node, _ = mod.find('PseudoNetCDFVariable')
        cls = I.classref(mod, node)
        self.ny = ctx.fresh('ny')
        self.nt, self.files, self.vars, self.pre = [], [], [], []
        for p in range(self.n):
            nt = ctx.fresh('nt%d' % p)

            def var(name, dims, shape):
                a = sym_array('%s%d' % (name, p), shape, 'f')
                a.cls = cls
                a.attrs.update(dimensions=dims, _ncattrs=('units',), units='ppb')
                return a
            vs = dict(v=var('v', ('t', 'y'), (nt, self.ny)), u=var('u', ('t',), (nt,)), w=var('w', ('y',), (self.ny,)))
            f = pnc_file(I, dimensions={'t': dim_obj(I, 't', nt, unlimited=True), 'y': dim_obj(I, 'y', self.ny)}, variables=vs,
                         attrs=dict(title='file%d' % p))
            self.nt.append(nt)
            self.files.append(f)
            self.vars.append(vs)
            self.pre.append({k: a.buf.get for k, a in vs.items()})
        other = self.files[1:] if self.other_is_list else self.files[1]
        return dict(self=self.files[0], other=other, stackdim='t')

    def requires(self, inp):
        return And(ge(self.ny, 1), *[ge(n, 0) for n in self.nt])

    def small(self, inp):
        return And(le(self.ny, 2), *[le(n, 2) for n in self.nt])

    def piece(self, key, i, rest):
        """element i (along t) of the pieces laid end to end, from the entry state of the inputs"""
        off = 0
        offs = []
        for n in self.nt:
            offs.append(off)
            off = add(off, n)
        r = self.pre[-1][key]((sub(i, offs[-1]),) + rest)
        for p in range(self.n - 2, -1, -1):
            r = sym.ite(lt(i, add(offs[p], self.nt[p])), self.pre[p][key]((sub(i, offs[p]),) + rest), r)
        return r

    def ensures(self, inp, res, I):
        if not hasattr(res, 'attrs') or 'variables' not in res.attrs:
            return [('returns-file', False)]
        dims, vs = res.attrs['dimensions'], res.attrs['variables']
        total = 0
        for n in self.nt:
            total = add(total, n)
        out = [('is-a-new-file', all(res is not f for f in self.files)),
               ('dimensions', sorted(dims.keys()) == ['t', 'y']), ('variables', sorted(vs.keys()) == ['u', 'v', 'w']),
               ('file-attributes-of-the-first-file', res.attrs.get('title') == 'file0')]
        if sorted(dims.keys()) != ['t', 'y'] or sorted(vs.keys()) != ['u', 'v', 'w']:
            return out
        V, U, W = vs['v'], vs['u'], vs['w']
        i, j = z3.Int('i'), z3.Int('j')
        out += [('length(t) = sum of the lengths', eq(dims['t'].attrs['_len'], total)), ('length(y) kept', eq(dims['y'].attrs['_len'], self.ny)),
                ('unlimited-flags-kept', And(eq(dims['t'].attrs['_unlimited'], True), eq(dims['y'].attrs['_unlimited'], False))),
                ('shapes', And(eq(V.shape[0], total), eq(V.shape[1], self.ny), eq(U.shape[0], total), eq(W.shape[0], self.ny))),
                ('v = pieces end to end in argument order', Implies(And(ge(i, 0), lt(i, total), ge(j, 0), lt(j, self.ny)), eq(V.get(i, j), self.piece('v', i, (j,))))),
                ('u = pieces end to end in argument order', Implies(And(ge(i, 0), lt(i, total)), eq(U.get(i), self.piece('u', i, ())))),
                ('w = first file', Implies(And(ge(j, 0), lt(j, self.ny)), eq(W.get(j), self.pre[0]['w']((j,))))),
                ('variable-attributes-carried', all(x.attrs.get('units') == 'ppb' and tuple(x.attrs.get('dimensions', ())) == d
                                                   for x, d in ((V, ('t', 'y')), (U, ('t',)), (W, ('y',))))),
                ('fresh-buffers', all(x.buf is not a.buf for x in (V, U, W) for vs_ in self.vars for a in vs_.values()))]
        unchanged = []
        for p in range(self.n):
            unchanged.append(Implies(And(ge(i, 0), lt(i, self.nt[p]), ge(j, 0), lt(j, self.ny)),
                                     And(eq(self.vars[p]['v'].buf.get((i, j)), self.pre[p]['v']((i, j))), eq(self.vars[p]['u'].buf.get((i,)), self.pre[p]['u']((i,))),
                                         eq(self.vars[p]['w'].buf.get((j,)), self.pre[p]['w']((j,))))))
            unchanged.append(eq(self.files[p].attrs['dimensions']['t'].attrs['_len'], self.nt[p]))
            unchanged.append(self.files[p].attrs['variables'].get('v') is self.vars[p]['v'])
        out.append(('inputs-unchanged', And(*unchanged)))
        # corollary (split/stack inverse): if the inputs are CONSECUTIVE pieces of one array F, the result is F
        Fv = z3.Function('whole_v', z3.IntSort(), z3.IntSort(), z3.RealSort())
        a, b = z3.Int('sp_a'), z3.Int('sp_b')
        hyp, off = [], 0
        for p in range(self.n):
            hyp.append(z3.ForAll([a, b], Implies(And(ge(a, 0), lt(a, self.nt[p]), ge(b, 0), lt(b, self.ny)),
                                                 eq(self.pre[p]['v']((a, b)), Fv(sym.to_z3(add(off, a)), b)))))
            off = add(off, self.nt[p])
        out.append(('corollary: stacking consecutive pieces of an array reproduces the array',
                    Implies(And(*hyp), Implies(And(ge(i, 0), lt(i, total), ge(j, 0), lt(j, self.ny)), eq(V.get(i, j), Fv(i, j))))))
        return out

    # -- replay on the real function -----------------------------------------------------------------------------------
    def concretize(self, model, inp):
        from pyvc.verify import model_value
        return dict(n=self.n, other_is_list=self.other_is_list, ny=model_value(model, self.ny), nt=[model_value(model, x) for x in self.nt])

    def concretize_without_model(self, inp):
        return dict(n=self.n, other_is_list=self.other_is_list, ny=2, nt=[2, 0, 3][:self.n])

    def replay(self, c):
        import numpy as np
        P = import_real()
        ny, nts = int(c['ny']), [int(x) for x in c['nt']]
        if not (1 <= ny <= 30 and all(0 <= x <= 30 for x in nts)):
            return None
        rng = np.random.default_rng(4)
        fs, data = [], []
        for p, nt in enumerate(nts):
            f = P.PseudoNetCDFFile()
            f.createDimension('t', nt).setunlimited(True)
            f.createDimension('y', ny)
            f.title = 'file%d' % p
            d = dict(v=rng.random((nt, ny)), u=rng.random(nt), w=rng.random(ny))
            for k_, dims in (('v', ('t', 'y')), ('u', ('t',)), ('w', ('y',))):
                f.createVariable(k_, 'd', dims, values=d[k_].copy(), units='ppb')
            fs.append(f)
            data.append(d)
        try:
            g = fs[0].stack(fs[1:] if c['other_is_list'] else fs[1], 't')
        except Exception as e:
            return False, dict(raised=type(e).__name__, message=str(e)[:200], nt=nts, ny=ny)
        bad = []
        if len(g.dimensions['t']) != sum(nts) or len(g.dimensions['y']) != ny or not g.dimensions['t'].isunlimited():
            bad.append('dimensions')
        for k_ in ('v', 'u'):
            exp = np.concatenate([d[k_] for d in data], axis=0)
            got = np.asarray(g.variables[k_][...])
            if got.shape != exp.shape or not np.array_equal(got, exp):
                bad.append('%s is not the concatenation in argument order' % k_)
        if not np.array_equal(np.asarray(g.variables['w'][...]), data[0]['w']):
            bad.append('w is not the first file\'s')
        for f, d in zip(fs, data):
            for k_ in d:
                if not np.array_equal(np.asarray(f.variables[k_][...]), d[k_]):
                    bad.append('input modified')
        if getattr(g, 'title', None) != 'file0' or getattr(g.variables['v'], 'units', None) != 'ppb':
            bad.append('attributes')
        return (not bad), dict(nt=nts, ny=ny, failed=bad)


CONTRACTS = [Stack(2), Stack(3), Stack(2, other_is_list=False)]

GRD = '_getreader.py'


class OpenRecorder(Contract):
    """summary of pncopen used while verifying the multi-file opener: returns a distinct file object per call and records the
    order of the calls (what pncopen itself does is C15's business)"""
    prop = 'C04'
    target = GRD + '::pncopen'

    def apply(self, I, func, args, kwargs):
        from pyvc.exec import Obj
        calls = I.ctx.ghost.setdefault('opened', [])
        f = Obj(None, {}, tag='opened#%d' % len(calls))
        f.attrs['stack'] = I_native_stack(I, f)
        calls.append((args[0], f, dict(kwargs), tuple(args[1:])))
        return f


def I_native_stack(I, me):
    from pyvc import models

    def stack(I2, a, kw):
        I2.ctx.ghost.setdefault('stacked', []).append((me, list(a), dict(kw)))
        from pyvc.exec import Opaque
        r = Opaque('stack-result')
        I2.ctx.ghost['stack_result'] = r
        return r
    return models.native(stack)


class MultiFileOpen(Contract):
    """pncmfopen(paths, stackdim=d): every path is opened exactly once, in ARGUMENT order, with the given keywords; the first
    file stacks the others, in argument order, along d; that result is returned"""
    prop = 'C04'
    target = GRD + '::pncmfopen'
    uses = [OpenRecorder()]

    def __init__(self, n, repeat=False):
        self.n, self.repeat = n, repeat
        self.name = 'pncmfopen[%d paths%s]' % (n, ', the first one named again at the end' if repeat else '')

    def inputs(self, ctx, I):
        from pyvc.arrays import AbsStr
        self.paths = [AbsStr(ctx.fresh('path%d' % i)) for i in range(self.n)]
        if self.repeat:
            # the same path (the very same string) listed twice: it is opened twice and stacked twice
            self.paths[-1] = self.paths[0]
        self.dim = AbsStr(ctx.fresh('stackdim'))
        return dict(paths=list(self.paths), stackdim=self.dim, kwds=dict(format='netcdf'))

    def call_args(self, inp):
        return [inp['paths']], dict(stackdim=inp['stackdim'], **inp['kwds'])

    def ensures(self, inp, res, I):
        opened = I.ctx.ghost.get('opened', [])
        stacked = I.ctx.ghost.get('stacked', [])
        ok_open = len(opened) == self.n and all(o[0] is p for o, p in zip(opened, self.paths))
        out = [('every path opened once, in argument order', ok_open),
               ('keywords passed to every open', all(o[2] == dict(format='netcdf') and o[3] == () for o in opened))]
        if not ok_open or len(stacked) != 1:
            return out + [('stacked exactly once', len(stacked) == 1)]
        me, a, kw = stacked[0]
        others = a[0] if a else kw.get('other')
        return out + [('stacked exactly once', True),
                      ('the first file stacks', me is opened[0][1]),
                      ('the other files in argument order', isinstance(others, list) and len(others) == self.n - 1 and all(x is o[1] for x, o in zip(others, opened[1:]))),
                      ('along the given dimension', (kw.get('stackdim') if 'stackdim' in kw else (a[1] if len(a) > 1 else None)) is self.dim),
                      ('returns the stacked file', res is I.ctx.ghost.get('stack_result'))]


    def concretize(self, model, inp):
        # which of the abstract paths the counter-model makes equal (same number = same path)
        from pyvc.verify import model_value
        ids = [str(model_value(model, p.sid)) for p in self.paths]
        return dict(n=self.n, repeat=self.repeat, same_as=[ids.index(x) for x in ids])

    def concretize_without_model(self, inp):
        return dict(n=self.n, repeat=self.repeat)

    def replay(self, c):
        """real files whose alphabetical order differs from the argument order, through the real pncmfopen"""
        import numpy as np
        import tempfile, shutil, netCDF4
        import_real()
        from PseudoNetCDF import pncmfopen
        names = ['piece_9.nc', 'piece_10.nc', 'a_last.nc', 'zz.nc'][:max(2, int(c['n']))]
        n = len(names)
        base = [0, 1, 0][:n] if c.get('repeat') else list(range(n))
        # the path equalities of the counter-model first (a model may also make paths equal without need), then the instance as stated
        cands = [x for x in (c.get('same_as'), base) if x]
        out = None
        for same in cands:
            d = tempfile.mkdtemp(prefix='verif_c04_')
            try:
                paths, exp = [], []
                for k, nm in enumerate(names):
                    if k < len(same) and same[k] < k:
                        paths.append(paths[same[k]])
                        exp += exp[2 * same[k]:2 * same[k] + 2]
                        continue
                    p = os.path.join(d, nm)
                    ds = netCDF4.Dataset(p, 'w', format='NETCDF3_CLASSIC')
                    ds.createDimension('t', None)
                    ds.createVariable('t', 'd', ('t',))[:] = [10. * k, 10. * k + 1]
                    ds.close()
                    paths.append(p)
                    exp += [10. * k, 10. * k + 1]
                try:
                    got = np.asarray(pncmfopen(paths, stackdim='t', format='netcdf').variables['t'][:]).tolist()
                except Exception as e:
                    return False, dict(paths=[os.path.basename(p) for p in paths], raised=type(e).__name__, message=str(e)[:160])
                r = (got == exp, dict(paths=[os.path.basename(p) for p in paths], stacked_t=got, expected=exp))
                if not r[0]:
                    return r
                out = out or r
            finally:
                shutil.rmtree(d, ignore_errors=True)
        return out


CONTRACTS += [MultiFileOpen(2), MultiFileOpen(4), MultiFileOpen(3, repeat=True)]


def compositions(n, kmax):
    """all ways to write n as an ordered sum of 1..kmax positive parts"""
    out = []

    def rec(rest, parts):
        if rest == 0:
            out.append(list(parts))
            return
        if len(parts) == kmax:
            return
        for p in range(1, rest + 1):
            rec(rest - p, parts + [p])
    rec(n, [])
    return out


def bounded(tier, seed):
    from rtc import harness as H
    import numpy as np
    import os, tempfile, shutil
    P = H.real()
    run = H.Run('C04', tier, seed, budget_s=90 if tier == 'quick' else 600)
    for si, spec in enumerate(H.file_specs(tier, seed)):
        f = H.make_file(P, spec)
        for d, n, unl in spec['dims']:
            # split / stack inverse
            for parts in compositions(n, 3):
                bounds = np.cumsum([0] + parts)

                def t(f=f, d=d, parts=parts, bounds=bounds):
                    pieces = [f.sliceDimensions(**{d: slice(int(a), int(b))}) for a, b in zip(bounds[:-1], bounds[1:])]
                    snaps = [H.snapshot(p) for p in pieces]
                    g = pieces[0].stack(pieces[1:], d) if len(pieces) > 1 else pieces[0].stack([], d)
                    r = H.wf(g)
                    if r:
                        return 'ill-formed: ' + r
                    e = H.same_snapshot(H.snapshot(f), H.snapshot(g), dim_order=False)
                    if e:
                        return 'stack(split(f)) != f: ' + e
                    for p, s0 in zip(pieces, snaps):
                        e = H.same_snapshot(s0, H.snapshot(p))
                        if e:
                            return 'input piece modified: ' + e
                    # slicing the stacked file at a piece's extent reproduces the piece
                    for (a, b), p in zip(zip(bounds[:-1], bounds[1:]), pieces):
                        h = g.sliceDimensions(**{d: slice(int(a), int(b))})
                        e = H.same_snapshot(H.snapshot(p), H.snapshot(h), dim_order=False)
                        if e:
                            return 'slice(stack)[%d:%d] != piece: %s' % (a, b, e)
                    return None
                run.case('C04:stack(split(f))=f', (si, d, parts), t)
            # concatenation of 2..4 different files in argument order
            for k in (2, 3) if tier == 'quick' else (2, 3, 4):
                def t(spec=spec, d=d, k=k):
                    fs = []
                    for j in range(k):
                        sp = dict(spec, seed=spec['seed'] * 10 + j)
                        fs.append(H.make_file(P, sp))
                    g = fs[0].stack(fs[1:], d)
                    r = H.wf(g)
                    if r:
                        return 'ill-formed: ' + r
                    if len(g.dimensions[d]) != sum(len(x.dimensions[d]) for x in fs):
                        return 'stacked dimension length %d' % len(g.dimensions[d])
                    for vk, v in fs[0].variables.items():
                        if d in v.dimensions:
                            ax = list(v.dimensions).index(d)
                            exp = np.ma.concatenate([x.variables[vk][...] for x in fs], axis=ax)
                        else:
                            exp = v[...]
                        e = H.arr_equal(g.variables[vk][...], exp)
                        if e:
                            return 'variable %s: %s' % (vk, e)
                    return None
                run.case('C04:stack=concatenate in argument order', (si, d, k), t)

                def t2(spec=spec, d=d, k=k):
                    from PseudoNetCDF.core._functions import stack_files
                    fs = [H.make_file(P, dict(spec, seed=spec['seed'] * 10 + j)) for j in range(k)]
                    g = stack_files(fs, d)
                    for vk, v in fs[0].variables.items():
                        if d in v.dimensions:
                            ax = list(v.dimensions).index(d)
                            exp = np.ma.concatenate([x.variables[vk][...] for x in fs], axis=ax)
                        else:
                            exp = v[...]
                        e = H.arr_equal(g.variables[vk][...], exp)
                        if e:
                            return 'stack_files variable %s: %s' % (vk, e)
                    return None
                run.case('C04:stack_files (legacy functional form)', (si, d, k), t2)
    # multi-file open helpers
    # stack_files with coordinate keys: a COORDINATE variable without the stacked dimension (named in coordkeys, explicitly or through
    # getCoords) that differs between the files comes from the FIRST file, like every other variable without that dimension
    def lev_file(j):
        f = P.PseudoNetCDFFile()
        f.createDimension('time', 2)
        f.createDimension('lev', 3)
        f.createVariable('time', 'd', ('time',), values=np.arange(2.) + 2 * j, units='hours since 2000-01-01')
        f.createVariable('lev', 'd', ('lev',), values=np.array([1000., 850., 500.]) - 100. * j, units='hPa', note='file %d' % j)
        f.createVariable('aux', 'd', ('lev',), values=np.array([1., 2., 3.]) * (j + 1), units='1')
        f.createVariable('T', 'f', ('time', 'lev'), values=(np.arange(6.).reshape(2, 3) + 10 * j).astype('f'), units='K')
        return f
    for ck in (None, ['time', 'lev'], ['lev'], []):
        def t_ck(ck=ck):
            import warnings
            from PseudoNetCDF.core._functions import stack_files
            fs = [lev_file(j) for j in range(3)]
            if ck is None:
                for x in fs:
                    x.setCoords(['time', 'lev'])
            with warnings.catch_warnings():
                warnings.simplefilter('ignore')
                g = stack_files(fs, 'time') if ck is None else stack_files(fs, 'time', coordkeys=ck)
            for vk in ('lev', 'aux'):
                if not np.array_equal(np.asarray(g.variables[vk][...]), np.asarray(fs[0].variables[vk][...])):
                    return 'variable %s (no stacked dimension) is %r, the first file has %r' % (vk, np.asarray(g.variables[vk][...]).tolist(), np.asarray(fs[0].variables[vk][...]).tolist())
            if getattr(g.variables['lev'], 'note', None) != 'file 0':
                return 'attributes of lev come from %r, not from the first file' % getattr(g.variables['lev'], 'note', None)
            exp = np.concatenate([np.asarray(x.variables['T'][...]) for x in fs], axis=0)
            if not np.array_equal(np.asarray(g.variables['T'][...]), exp):
                return 'stacked variable T differs from the concatenation'
            return None
        run.case('C04:stack_files with coordinate keys', repr(ck), t_ck)
    # variables of other kinds: fixed-width text (bytes and unicode), integers of several widths, booleans -- the stacked variable keeps
    # the element type of the pieces and every value; a text variable without the stacked dimension equals the first file's
    def typed_file(n, off):
        f = P.PseudoNetCDFFile()
        f.createDimension('site', n)
        f.createDimension('k', 2)
        ids = ['KDEN', 'KLAX', 'KJFK', 'KORD', 'KATL', 'KSEA', 'KBOS']
        f.createVariable('site_id', 'S4', ('site',), values=np.array([ids[(off + i) % 7] for i in range(n)], dtype='S4'))
        f.createVariable('label', 'U3', ('site',), values=np.array(['s%02d' % (off + i) for i in range(n)], dtype='U3'))
        f.createVariable('kind', 'S5', ('k',), values=np.array(['urban', 'rural'], dtype='S5'))
        f.createVariable('count', 'i2', ('site', 'k'), values=(np.arange(n * 2).reshape(n, 2) + 1000 * off).astype('i2'))
        f.createVariable('big', 'i8', ('site',), values=(np.arange(n) + 2 ** 40 + off).astype('i8'))
        f.createVariable('flag', '?', ('site',), values=(np.arange(n) + off) % 2 == 0)
        # masked variables whose fill value is ZERO (given as fill_value, or as missing_value only)
        mz = np.ma.masked_array(np.arange(n, dtype='f') + 1 + off, mask=[(i + off // 10) % 2 == 0 for i in range(n)])
        f.createVariable('mfill0', 'f', ('site',), values=mz, fill_value=0.)
        v_ = f.createVariable('mmiss0', 'f', ('site',), values=mz.copy())
        v_.missing_value = 0.
        return f
    for lens in ((2, 3), (1, 1, 4), (3,)):
        def t_typed(lens=lens):
            fs = [typed_file(n, 10 * j) for j, n in enumerate(lens)]
            g = fs[0].stack(fs[1:], 'site')
            for vk in ('site_id', 'label', 'count', 'big', 'flag'):
                ax = 0
                exp = np.concatenate([np.asarray(x.variables[vk][...]) for x in fs], axis=ax)
                got = np.asarray(g.variables[vk][...])
                if got.dtype != exp.dtype:
                    return 'variable %s: element type %s, the pieces have %s' % (vk, got.dtype, exp.dtype)
                if got.shape != exp.shape or not np.array_equal(got, exp):
                    return 'variable %s: values differ from the concatenation of the pieces (%r ... expected %r ...)' % (vk, got.ravel()[:3].tolist(), exp.ravel()[:3].tolist())
            for vk in ('mfill0', 'mmiss0'):
                exp = np.ma.concatenate([x.variables[vk][...] for x in fs], axis=0)
                got = np.ma.asarray(g.variables[vk][...])
                if not np.array_equal(np.ma.getmaskarray(got), np.ma.getmaskarray(exp)):
                    return 'variable %s (fill value 0): mask of the stacked variable %r, the pieces have %r' % (vk, np.ma.getmaskarray(got).astype(int).tolist(), np.ma.getmaskarray(exp).astype(int).tolist())
                if not np.array_equal(np.ma.getdata(got)[~np.ma.getmaskarray(exp)], np.ma.getdata(exp)[~np.ma.getmaskarray(exp)]):
                    return 'variable %s (fill value 0): unmasked values differ' % vk
            k0, k1 = np.asarray(fs[0].variables['kind'][...]), np.asarray(g.variables['kind'][...])
            if k1.dtype != k0.dtype or not np.array_equal(k0, k1):
                return 'variable kind (no stacked dimension) differs from the first file: %r vs %r' % (k1.tolist(), k0.tolist())
            return None
        run.case('C04:stack of text / integer / boolean variables', lens, t_typed)
    tmp = tempfile.mkdtemp(prefix='verif_c04_')
    try:
        spec = H.file_specs(tier, seed)[0]
        paths = []
        files = []
        # names whose ALPHABETICAL order differs from the argument order (unpadded numbering, a deliberate reversal)
        for j, nm in enumerate(('piece_9.nc', 'piece_10.nc', 'a_last.nc')):
            g = H.make_file(P, dict(spec, seed=70 + j))
            p = os.path.join(tmp, nm)
            g.save(p, format='NETCDF4_CLASSIC', verbose=0).close()
            paths.append(p)
            files.append(g)

        def t_mf():
            from PseudoNetCDF import pncmfopen
            m = pncmfopen(paths, stackdim='t', format='netcdf')
            for vk, v in files[0].variables.items():
                if 't' in v.dimensions:
                    ax = list(v.dimensions).index('t')
                    exp = np.ma.concatenate([x.variables[vk][...] for x in files], axis=ax)
                    e = H.arr_equal(m.variables[vk][...], exp)
                    if e:
                        return 'pncmfopen variable %s: %s' % (vk, e)
            return None
        run.case('C04:pncmfopen delegates to stack in argument order', tuple(os.path.basename(p) for p in paths), t_mf)

        def t_mf_repeat():
            # the same path named more than once is stacked as often as it is named
            from PseudoNetCDF import pncmfopen
            order = [0, 1, 0, 2, 1]
            m = pncmfopen([paths[i] for i in order], stackdim='t', format='netcdf')
            for vk, v in files[0].variables.items():
                if 't' in v.dimensions:
                    ax = list(v.dimensions).index('t')
                    exp = np.ma.concatenate([files[i].variables[vk][...] for i in order], axis=ax)
                    e = H.arr_equal(m.variables[vk][...], exp)
                    if e:
                        return 'pncmfopen with repeated paths, variable %s: %s' % (vk, e)
            if len(m.dimensions['t']) != sum(len(files[i].dimensions['t']) for i in order):
                return 'stacked dimension has length %d, the named files add up to %d' % (len(m.dimensions['t']), sum(len(files[i].dimensions['t']) for i in order))
            return None
        run.case('C04:pncmfopen with a path named more than once', 'order 0,1,0,2,1', t_mf_repeat)

        def t_mfd():
            # open_mfdataset is a classmethod of the READER class (cls(path) opens each file)
            from PseudoNetCDF.core._files import netcdf
            m = netcdf.open_mfdataset(*paths, stackdim='t')
            for vk, v in files[0].variables.items():
                if 't' in v.dimensions:
                    ax = list(v.dimensions).index('t')
                    exp = np.ma.concatenate([x.variables[vk][...] for x in files], axis=ax)
                    e = H.arr_equal(m.variables[vk][...], exp)
                    if e:
                        return 'open_mfdataset variable %s: %s' % (vk, e)
            return None
        run.case('C04:open_mfdataset stacks in argument order', tuple(os.path.basename(p) for p in paths), t_mfd)
    finally:
        shutil.rmtree(tmp, ignore_errors=True)
    return run.result(
        rule='stack(split(f)) = f field by field for every composition of every dimension into 1..3 consecutive pieces; slice(stack) = piece; stack / stack_files / pncmfopen of '
             '2..4 different files = numpy.ma.concatenate in argument order',
        bound='files of the C01 space, every dimension, every composition into <= 3 pieces, 2-4 stacked files; 1-3 files with S4 / U3 / S5 text, int16, int64 and boolean variables')


def bounded_replay(p):
    return False, p.get('what')


META = dict(
    level='other',
    technique='stack proved by pyvc for 2 and 3 files of arbitrary sizes (numpy.ma.concatenate as trusted end-to-end model), with the split/stack inverse as a '
              'corollary of the contract; pncmfopen proved to open every list entry (a path named twice is opened twice) and stack them in argument order (modular: pncopen / stack as recording summaries); '
              'masks, attributes of pieces, stack_files / open_mfdataset and slice(stack) by bounded run-time contract',
    text='Proved for 2 or 3 files whose stack dimension has ANY lengths (including 0) and a shared dimension of any length: the stacked length is the sum, every element of '
         'every variable with the dimension is the corresponding piece element in ARGUMENT ORDER, variables without it come from the first file, attributes and flags '
         'carried, fresh buffers, all inputs unchanged; corollary: stacking consecutive pieces of one array reproduces the array; pncmfopen (2 and 4 paths, arbitrary path '
         'strings): every path is opened once in argument order and the first file stacks the others in argument order along the given dimension. Bounded: stack(split(f)) = f over all '
         'compositions, slice(stack) = piece, concatenation oracle, masked variables, stack_files and pncmfopen.',
    note='numpy.ma.concatenate is a trusted model (pieces end to end); more than 3 files, masks and the multi-file openers are bounded only.',
    assumptions=['numpy.ma.concatenate lays the pieces end to end along the axis (trusted model; also the oracle of the bounded part)'],
    explanation='mixed: discharged obligations for PseudoNetCDFFile.stack + bounded split/stack exploration')
