"""C01 -- every operation yields a structurally well-formed file.

P-part: the pure-Python book-keeping the invariant rests on (dimension objects,
attribute lists, copyDimension) under contract.
B-part: wf(result) as run-time post-condition on the real operations over all
operation sequences of length <= 2 (quick) / 3 (thorough) from the catalogue rtc/ops.py.
"""
import itertools
from .common import *   # noqa
from pyvc.exec import Obj

F = 'core/_files.py'
D = 'core/_dimensions.py'


class DimInit(Contract):
    prop = 'C01'
    target = D + '::PseudoNetCDFDimension.__init__'
    result_sort = 'Int'

    def inputs(self, ctx, I):
        s = self_obj(I, D, 'PseudoNetCDFDimension', {})
        return dict(self=s, group=None, name='x', size=ctx.fresh('size'))

    def requires(self, inp):
        return ge(inp['size'], 0)

    def ensures(self, inp, res, I):
        a = inp['self'].attrs
        return [('length-stored', eq(a.get('_len'), inp['size'])), ('starts-limited', a.get('_unlimited') is False),
                ('name-stored', a.get('_name') == 'x')]


class DimLen(Contract):
    prop = 'C01'
    target = D + '::PseudoNetCDFDimension.__len__'

    def inputs(self, ctx, I):
        return dict(self=self_obj(I, D, 'PseudoNetCDFDimension', dict(_len=ctx.fresh('len'), _unlimited=ctx.fresh('u', 'Bool'), _name='x')))

    def ensures(self, inp, res, I):
        return [('len', eq(res, inp['self'].attrs['_len']))]


class DimUnlimited(Contract):
    prop = 'C01'
    target = D + '::PseudoNetCDFDimension.setunlimited'

    def inputs(self, ctx, I):
        return dict(self=self_obj(I, D, 'PseudoNetCDFDimension', dict(_len=ctx.fresh('len'), _unlimited=ctx.fresh('u', 'Bool'), _name='x')),
                    unlimited=ctx.fresh('flag', 'Bool'))

    def ensures(self, inp, res, I):
        a = inp['self'].attrs
        return [('flag-set', eq(a['_unlimited'], inp['unlimited'])), ('length-kept', a['_len'] is not None)]


class IsUnlimited(Contract):
    prop = 'C01'
    target = D + '::PseudoNetCDFDimension.isunlimited'
    result_sort = 'Bool'

    def inputs(self, ctx, I):
        return dict(self=self_obj(I, D, 'PseudoNetCDFDimension', dict(_len=ctx.fresh('len'), _unlimited=ctx.fresh('u', 'Bool'), _name='x')))

    def ensures(self, inp, res, I):
        return [('flag', eq(res, inp['self'].attrs['_unlimited']))]


class SetAttr(Contract):
    """PseudoNetCDFFile.__setattr__: public names are listed exactly once and retrievable"""
    prop = 'C01'
    target = F + '::PseudoNetCDFFile.__setattr__'

    def __init__(self, key, already):
        self.akey, self.already = key, already
        self.name = '__setattr__[%s,%s]' % (key, 'listed' if already else 'new')

    def inputs(self, ctx, I):
        pre = ('title', self.akey) if self.already else ('title',)
        pre = tuple(k for k in pre if not (k[:1] == '_' or k in ('dimensions', 'variables', 'groups'))) if not self.already else pre
        f = pnc_file(I, attrs={k: 'old' for k in pre})
        self.pre = f.attrs['_ncattrs']
        return dict(self=f, k=self.akey, v=ctx.fresh('v'))

    def ensures(self, inp, res, I):
        a = inp['self'].attrs
        k = self.akey
        public = not (k[:1] == '_' or k in ('dimensions', 'variables', 'groups'))
        lst = a['_ncattrs']
        out = [('value-stored', k in a and eq(a[k], inp['v']))]
        if public:
            out += [('listed-once', lst.count(k) == 1), ('others-kept', [x for x in lst if x != k] == [x for x in self.pre if x != k])]
        else:
            out += [('private-not-listed', lst == self.pre)]
        return out


class DelAttr(Contract):
    prop = 'C01'
    target = F + '::PseudoNetCDFFile.__delattr__'

    def inputs(self, ctx, I):
        f = pnc_file(I, attrs=dict(title='t', history='h', note='n'))
        return dict(self=f, k='history')

    def ensures(self, inp, res, I):
        a = inp['self'].attrs
        return [('unlisted', 'history' not in a['_ncattrs']), ('removed', 'history' not in a),
                ('others-kept', a['_ncattrs'] == ('title', 'note') and 'title' in a and 'note' in a)]


class CopyDimension(Contract):
    """copyDimension: length = dimlen or len(dim); unlimited = given flag or the source's flag"""
    prop = 'C01'
    target = F + '::PseudoNetCDFFile.copyDimension'
    uses = []

    def __init__(self, with_len, with_flag):
        self.with_len, self.with_flag = with_len, with_flag
        self.name = 'copyDimension[dimlen=%s,unlimited=%s]' % ('given' if with_len else 'None', 'given' if with_flag else 'None')

    def inputs(self, ctx, I):
        f = pnc_file(I)
        src = self_obj(I, D, 'PseudoNetCDFDimension', dict(_len=ctx.fresh('srclen'), _unlimited=ctx.fresh('srcunl', 'Bool'), _name='x', name='x'))
        inp = dict(self=f, dim=src, key='y')
        if self.with_len:
            inp['dimlen'] = ctx.fresh('dimlen')
        if self.with_flag:
            inp['unlimited'] = ctx.fresh('unl', 'Bool')
        return inp

    def requires(self, inp):
        r = ge(inp['dim'].attrs['_len'], 0)
        if self.with_len:
            r = And(r, ge(inp['dimlen'], 0))
        return r

    def ensures(self, inp, res, I):
        f, src = inp['self'], inp['dim']
        d = f.attrs['dimensions'].get('y')
        if not isinstance(d, Obj):
            return [('dimension-created', False)]
        explen = inp['dimlen'] if self.with_len else src.attrs['_len']
        expunl = inp['unlimited'] if self.with_flag else src.attrs['_unlimited']
        return [('dimension-created', res is d), ('length', eq(d.attrs['_len'], explen)),
                ('unlimited-flag', eq(d.attrs['_unlimited'], expunl)),
                ('source-untouched', And(src.attrs['_len'] is not None, src.attrs['_name'] == 'x'))]


CONTRACTS = [DimInit(), DimLen(), DimUnlimited(), IsUnlimited(),
             SetAttr('title', True), SetAttr('newattr', False), SetAttr('_private', False), SetAttr('variables', False),
             DelAttr()] + [CopyDimension(a, b) for a in (False, True) for b in (False, True)]


import z3
V = 'core/_variables.py'


class VariableNew(Contract):
    """allocation lemma: a variable created without values= has, for every axis, the length of the
    parent's dimension of that name, carries the dimension names in order, and owns a fresh zero buffer"""
    prop = 'C01'

    def __init__(self, cls, rank):
        self.cls, self.rank = cls, rank
        self.target = V + '::%s.__new__' % cls
        self.name = '%s.__new__[rank %d]' % (cls, rank)

    def inputs(self, ctx, I):
        from pyvc import frontend
        names = ['t', 'z', 'y', 'x'][:self.rank]
        self.lens = {d: ctx.fresh('len_' + d) for d in ['t', 'z', 'y', 'x', 'unused']}
        f = pnc_file(I, dimensions={d: dim_obj(I, d, n) for d, n in self.lens.items()})
        mod = frontend.load(V)
        node, _ = mod.find(self.cls)
        return dict(subtype=I.classref(mod, node), parent=f, name='v', typecode='f', dimensions=tuple(names),
                    kwds=dict(units='ppb', long_name='v'))

    def call_args(self, inp):
        return [inp['subtype'], inp['parent'], inp['name'], inp['typecode'], inp['dimensions']], dict(inp['kwds'])

    def requires(self, inp):
        return And(*[ge(n, 0) for n in self.lens.values()])

    def ensures(self, inp, res, I):
        from pyvc.nparr import SArr
        if not isinstance(res, SArr):
            return [('returns-array', False)]
        names = inp['dimensions']
        out = [('rank', len(res.shape) == len(names)), ('dimension-names-in-order', res.attrs.get('dimensions') == tuple(names))]
        for i, d in enumerate(names):
            out.append(('axis[%d]=len(dimension %s)' % (i, d), eq(res.shape[i], self.lens[d])))
        q = tuple(z3.Int('q%d' % i) for i in range(len(names)))
        out.append(('fresh-zero-buffer', eq(res.get(q), 0) if names else True))
        out.append(('attributes-set', res.attrs.get('units') == 'ppb' and res.attrs.get('long_name') == 'v'))
        out.append(('parent-recorded', res.attrs.get('_parent') is inp['parent']))
        return out


CONTRACTS += [VariableNew(c, r) for c in ('PseudoNetCDFVariable', 'PseudoNetCDFMaskedVariable') for r in (0, 1, 2, 4)]


class CopyWith(Contract):
    """_copywith(props=True, dimensions=True): a NEW file object of the same class with the same global attributes (names in
    order, values) and the same dimensions (names in order, lengths, unlimited flags), sharing no dimension object with the source"""
    prop = 'C01'
    target = F + '::PseudoNetCDFFile._copywith'

    def __init__(self, ndims):
        self.ndims = ndims
        self.name = '_copywith[%d dimensions]' % ndims

    def inputs(self, ctx, I):
        names = ['t', 'z', 'y', 'x'][:self.ndims]
        self.lens = {d: ctx.fresh('len_' + d) for d in names}
        self.unl = {d: ctx.fresh('unl_' + d, 'Bool') for d in names}
        self.attrs = dict(title=ctx.fresh('title_id'), scale=ctx.fresh('scale', 'Real'))
        f = pnc_file(I, dimensions={d: dim_obj(I, d, self.lens[d], self.unl[d]) for d in names}, attrs=self.attrs)
        for d in names:
            f.attrs['dimensions'][d].attrs['name'] = d
        return dict(self=f)

    def requires(self, inp):
        return And(*[ge(n, 0) for n in self.lens.values()])

    def ensures(self, inp, res, I):
        if not isinstance(res, Obj):
            return [('returns-file', False)]
        src = inp['self']
        d0, d1 = src.attrs['dimensions'], res.attrs.get('dimensions')
        out = [('new-object', res is not src), ('same-class', res.cls is src.cls),
               ('attribute-names-in-order', res.attrs.get('_ncattrs') == src.attrs['_ncattrs']),
               ('attribute-values', And(*[eq(res.attrs.get(k), v) for k, v in self.attrs.items()])),
               ('dimension-names-in-order', isinstance(d1, dict) and list(d1) == list(d0))]
        if isinstance(d1, dict) and list(d1) == list(d0):
            for k in d0:
                out.append(('dimension %s: length and unlimited flag' % k, And(eq(d1[k].attrs['_len'], self.lens[k]), eq(d1[k].attrs['_unlimited'], self.unl[k]))))
                out.append(('dimension %s: not shared with the source' % k, d1[k] is not d0[k]))
        out.append(('no-variables-copied', res.attrs.get('variables') == {}))
        out.append(('source-unchanged', And(*[And(eq(d0[k].attrs['_len'], self.lens[k]), eq(d0[k].attrs['_unlimited'], self.unl[k])) for k in d0]) if d0 else True))
        return out


CONTRACTS += [CopyWith(n) for n in (0, 1, 3)]


# ---------------------------------------------------------------------------
# well-formedness of the RESULT of whole operations, for files of arbitrary size: the contracts of C02 (sliceDimensions),
# C03 (applyAlongDimensions), C04 (stack) and C06 (pncbo, mask) are re-run with the C01 post-condition -- every variable's
# dimension names exist in the result, its shape equals their lengths in order, unlimited flags survive, listed attributes
# are retrievable
# ---------------------------------------------------------------------------

def wf_clauses(res, unlimited=None):
    from pyvc.nparr import SArr
    if not hasattr(res, 'attrs') or 'variables' not in res.attrs or 'dimensions' not in res.attrs:
        return [('returns a file', False)]
    dims, vs = res.attrs['dimensions'], res.attrs['variables']
    out = []
    for k, X in vs.items():
        if not isinstance(X, SArr):
            out.append(('variable %s is an array' % k, False))
            continue
        vd = tuple(X.attrs.get('dimensions', ()))
        names_ok = all(d in dims for d in vd) and len(vd) == X.ndim
        out.append(('variable %s: its dimension names exist in the file' % k, names_ok))
        if names_ok:
            out.append(('variable %s: shape = lengths of its dimensions, in order' % k, And(*[eq(X.shape[i], dims[d].attrs['_len']) for i, d in enumerate(vd)]) if vd else True))
        out.append(('variable %s: every listed attribute is retrievable' % k, all(a in X.attrs for a in X.attrs.get('_ncattrs', ()))))
    out.append(('every listed file attribute is retrievable', all(a in res.attrs for a in res.attrs.get('_ncattrs', ()))))
    for d, flag in (unlimited or {}).items():
        if d in dims:
            out.append(('dimension %s keeps its unlimited flag' % d, eq(dims[d].attrs['_unlimited'], flag)))
    return out


def _wf_variant(base, unlimited, label):
    class WF(base):
        prop = 'C01'

        def ensures(self, inp, res, I):
            return wf_clauses(res, unlimited)

        def on_raise(self, inp, exc, I):
            # "an operation whose arguments lie in its documented domain completes": the domain is the one the operation's
            # own contract states (e.g. only an out-of-range integer selector may raise, with IndexError)
            return base.on_raise(self, inp, exc, I)

        def replay(self, c):
            return None
    WF.__name__ = 'WF_' + base.__name__
    WF.__doc__ = 'well-formedness of the result of %s (files of arbitrary size): see wf_clauses' % label
    return WF


def _wf_contracts():
    from . import C02, C03, C04, C06
    out = []
    T = {'t': True, 'y': False}
    W2, W3, W4 = _wf_variant(C02.SliceBasic, T, 'sliceDimensions'), _wf_variant(C03.ApplyAlong, T, 'applyAlongDimensions'), _wf_variant(C04.Stack, T, 'stack')
    Wb, Wm = _wf_variant(C06.Pncbo, {'t': True}, 'pncbo'), _wf_variant(C06.MaskMethod, {'t': True}, 'mask')
    for k in ('int', 'slice', 'slice-step2', 'reversed', 'int+slice', 'index-array'):
        out.append(W2(k))
    for x in ([('t', 'mean')], [('t', 'max'), ('y', 'max')]):
        out.append(W3(x))
    out += [W4(2), W4(3), Wb('+'), Wm(('greater', 'less'))]
    for c in out:
        c.name = 'well-formed result of ' + c.name
    return out


CONTRACTS += _wf_contracts()


class ReorderDims(Contract):
    """reorderDimensions(old, new) on a file with dimensions t, y, x of ARBITRARY lengths and variables v(t, y, x), u(y, x),
    w(t): every variable is re-laid-out so that its own dimensions appear in the order they have in `new`; its dimension
    tuple says so, its shape is the lengths of those dimensions in that order (well-formed), and every element is the
    source element at the correspondingly permuted index; the input is unchanged."""
    prop = 'C01'
    target = 'core/_files.py::PseudoNetCDFFile.reorderDimensions'
    max_paths = 80

    def __init__(self, neworder):
        self.neworder = tuple(neworder)
        self.name = 'reorderDimensions[-> %s]' % ','.join(neworder)

    def inputs(self, ctx, I):
        from pyvc import frontend
        from pyvc.nparr import sym_array
        self.n = dict(t=ctx.fresh('nt'), y=ctx.fresh('ny'), x=ctx.fresh('nx'))
        mod = frontend.load('core/_variables.py')
        cls = I.classref(mod, mod.find('PseudoNetCDFVariable')[0])

        def var(name, dims):
            a = sym_array(name, tuple(self.n[d] for d in dims), 'f')
            a.cls = cls
            a.attrs.update(dimensions=dims, _ncattrs=('units',), units='ppb')
            return a
        self.vars = dict(v=var('v', ('t', 'y', 'x')), u=var('u', ('y', 'x')), w=var('w', ('t',)))
        self.pre = {k: a.buf.get for k, a in self.vars.items()}
        f = pnc_file(I, dimensions={'t': dim_obj(I, 't', self.n['t'], unlimited=True), 'y': dim_obj(I, 'y', self.n['y']), 'x': dim_obj(I, 'x', self.n['x'])},
                     variables=dict(self.vars), attrs=dict(title='src'))
        self.f = f
        return dict(self=f, oldorder=('t', 'y', 'x'), neworder=self.neworder)

    def requires(self, inp):
        return And(*[ge(x, 1) for x in self.n.values()])

    def small(self, inp):
        return And(*[le(x, 2) for x in self.n.values()])

    def ensures(self, inp, res, I):
        from pyvc.nparr import SArr
        out = wf_clauses(res, {'t': True, 'y': False, 'x': False})
        if not hasattr(res, 'attrs') or 'variables' not in res.attrs:
            return out
        vs = res.attrs['variables']
        out.append(('is-a-new-file', res is not self.f))
        q = [z3.Int('q0'), z3.Int('q1'), z3.Int('q2')]
        for key, src in self.vars.items():
            X = vs.get(key)
            old = src.attrs['dimensions']
            want = tuple(d for d in self.neworder if d in old)
            if not isinstance(X, SArr):
                out.append(('%s is a variable of the result' % key, False))
                continue
            out.append(('%s: dimensions in the requested order' % key, tuple(X.attrs.get('dimensions', ())) == want))
            if tuple(X.attrs.get('dimensions', ())) != want or X.ndim != len(want):
                continue
            idx = q[:len(want)]
            rng = And(*[And(ge(i, 0), lt(i, self.n[d])) for i, d in zip(idx, want)])
            srcidx = tuple(idx[want.index(d)] for d in old)
            out.append(('%s: every element is the source element at the permuted index' % key, Implies(rng, eq(X.get(tuple(idx)), self.pre[key](srcidx)))))
            out.append(('%s: the source is unchanged' % key, Implies(rng, eq(src.buf.get(srcidx), self.pre[key](srcidx)))))
            out.append(('%s: fresh buffer' % key, X.buf is not src.buf))
        return out


    # -- replay on the real function -----------------------------------------------------------------------------------
    def concretize(self, model, inp):
        from pyvc.verify import model_value
        return dict(neworder=list(self.neworder), n={k: model_value(model, v) for k, v in self.n.items()})

    def concretize_without_model(self, inp):
        return dict(neworder=list(self.neworder), n=dict(t=2, y=3, x=4))

    def replay(self, c):
        import numpy as np
        P = import_real()
        out = None
        for n in (c['n'], dict(t=2, y=3, x=4)):
            n = {k: int(v) for k, v in n.items()}
            if not all(1 <= v <= 12 for v in n.values()):
                continue
            f = P.PseudoNetCDFFile()
            f.createDimension('t', n['t']).setunlimited(True)
            f.createDimension('y', n['y'])
            f.createDimension('x', n['x'])
            rng = np.random.default_rng(8)
            vd = dict(v=('t', 'y', 'x'), u=('y', 'x'), w=('t',))
            data = {k: rng.random(tuple(n[d] for d in dims)) for k, dims in vd.items()}
            for k, dims in vd.items():
                f.createVariable(k, 'd', dims, values=data[k].copy(), units='ppb')
            try:
                g = f.reorderDimensions(('t', 'y', 'x'), tuple(c['neworder']))
            except Exception as e:
                return False, dict(raised=type(e).__name__, message=str(e)[:160], sizes=n, neworder=c['neworder'])
            bad = []
            for k, dims in vd.items():
                want = tuple(d for d in c['neworder'] if d in dims)
                exp = np.transpose(data[k], [dims.index(d) for d in want])
                gv = g.variables[k]
                if tuple(gv.dimensions) != want or gv.shape != exp.shape or not np.array_equal(np.asarray(gv[...]), exp):
                    bad.append('%s: dimensions %r shape %r, expected %r %r' % (k, tuple(gv.dimensions), gv.shape, want, exp.shape))
                if not np.array_equal(np.asarray(f.variables[k][...]), data[k]):
                    bad.append('%s: input modified' % k)
            r = (not bad, dict(sizes=n, neworder=c['neworder'], failed=bad))
            if bad:
                return r
            out = out or r
        return out


CONTRACTS += [ReorderDims(p) for p in (('x', 'y', 't'), ('y', 't', 'x'), ('x', 't', 'y'), ('t', 'x', 'y'), ('y', 'x', 't'), ('t', 'y', 'x'))]


class SimpleOp(Contract):
    """copy / subsetVariables / renameVariable / renameDimension / removeSingleton on a file with dimensions t, y (ARBITRARY
    lengths) and s (length 1), variables v(t, y), u(t), w(y), p(t, s, y): the result is well-formed, holds exactly the expected
    variables under the expected names and dimension tuples, every element is the corresponding source element, attributes
    carried, fresh buffers, input unchanged"""
    prop = 'C01'
    max_paths = 80

    vd = dict(v=('t', 'y'), u=('t',), w=('y',), p=('t', 's', 'y'))
    OPS = {
        'copy': ('copy', [], {}),
        'subsetVariables': ('subsetVariables', [['v', 'w']], {}),
        'subsetVariables(exclude)': ('subsetVariables', [['u']], dict(exclude=True)),
        'renameVariable': ('renameVariable', ['v', 'renamed'], {}),
        'renameVariable(to its own name)': ('renameVariable', ['v', 'v'], {}),
        'renameDimension': ('renameDimension', ['t', 'time'], {}),
        'removeSingleton': ('removeSingleton', [], {}),
        'insertDimension(z=K)': ('insertDimension', [], {}),
        'insertDimension(z=K, before=y)': ('insertDimension', [], dict(before='y')),
    }

    def __init__(self, op):
        self.op = op
        self.meth, self.args, self.kw = self.OPS[op]
        self.target = 'core/_files.py::PseudoNetCDFFile.' + self.meth
        self.name = op

    def inputs(self, ctx, I):
        from pyvc import frontend
        from pyvc.nparr import sym_array
        self.n = dict(t=ctx.fresh('nt'), y=ctx.fresh('ny'), s=1)
        mod = frontend.load('core/_variables.py')
        cls = I.classref(mod, mod.find('PseudoNetCDFVariable')[0])

        def var(name, dims):
            a = sym_array(name, tuple(self.n[d] for d in dims), 'f')
            a.cls = cls
            a.attrs.update(dimensions=dims, _ncattrs=('units',), units='ppb')
            return a
        self.vars = {k: var(k, d) for k, d in self.vd.items()}
        self.pre = {k: a.buf.get for k, a in self.vars.items()}
        f = pnc_file(I, dimensions={'t': dim_obj(I, 't', self.n['t'], unlimited=True), 'y': dim_obj(I, 'y', self.n['y']), 's': dim_obj(I, 's', 1)},
                     variables=dict(self.vars), attrs=dict(title='src'))
        self.f = f
        self.K = ctx.fresh('K')
        return dict(self=f)

    def call_args(self, inp):
        kw = dict(self.kw)
        if self.meth == 'insertDimension':
            kw['z'] = self.K
        return [inp['self']] + [list(a) if isinstance(a, list) else a for a in self.args], kw

    def requires(self, inp):
        return And(ge(self.n['t'], 2), ge(self.n['y'], 2), ge(self.K, 1))

    def small(self, inp):
        return And(le(self.n['t'], 3), le(self.n['y'], 3))

    def expected(self):
        """{result variable name: (source variable, result dimension tuple, source index as a function of the result index)}"""
        ident = lambda dims: (lambda idx: tuple(idx))
        if self.op in ('copy', 'renameVariable(to its own name)'):
            return {k: (k, d, ident(d)) for k, d in self.vd.items()}, dict(t=self.n['t'], y=self.n['y'], s=1)
        if self.op == 'subsetVariables':
            return {k: (k, self.vd[k], ident(0)) for k in ('v', 'w')}, dict(t=self.n['t'], y=self.n['y'], s=1)
        if self.op == 'subsetVariables(exclude)':
            return {k: (k, self.vd[k], ident(0)) for k in ('v', 'w', 'p')}, dict(t=self.n['t'], y=self.n['y'], s=1)
        if self.op == 'renameVariable':
            return {('renamed' if k == 'v' else k): (k, d, ident(d)) for k, d in self.vd.items()}, dict(t=self.n['t'], y=self.n['y'], s=1)
        if self.op == 'renameDimension':
            rn = lambda d: tuple('time' if x == 't' else x for x in d)
            return {k: (k, rn(d), ident(d)) for k, d in self.vd.items()}, dict(time=self.n['t'], y=self.n['y'], s=1)
        if self.op == 'removeSingleton':
            e = {k: (k, d, ident(d)) for k, d in self.vd.items() if k != 'p'}
            e['p'] = ('p', ('t', 'y'), lambda idx: (idx[0], 0, idx[1]))
            return e, dict(t=self.n['t'], y=self.n['y'])
        if self.op.startswith('insertDimension'):
            # the new dimension z (length K) goes first, or right before y; the data are repeated along it
            e = {}
            for k, d in self.vd.items():
                if 'before' in self.kw and 'y' not in d:
                    e[k] = (k, d, ident(d))
                    continue
                bi = d.index('y') if 'before' in self.kw else 0
                nd = d[:bi] + ('z',) + d[bi:]
                e[k] = (k, nd, (lambda bi: (lambda idx: tuple(idx[:bi]) + tuple(idx[bi + 1:])))(bi))
            return e, dict(t=self.n['t'], y=self.n['y'], s=1, z=getattr(self, 'K', None))

    def ensures(self, inp, res, I):
        from pyvc.nparr import SArr
        exp, dimlens = self.expected()
        tname = 'time' if self.op == 'renameDimension' else 't'
        out = wf_clauses(res, {tname: True, 'y': False})
        if not hasattr(res, 'attrs') or 'variables' not in res.attrs:
            return out
        vs, dims = res.attrs['variables'], res.attrs['dimensions']
        out += [('is-a-new-file', res is not self.f), ('file attributes carried', res.attrs.get('title') == 'src'),
                ('exactly the expected variables', sorted(vs.keys()) == sorted(exp.keys())),
                ('exactly the expected dimensions', sorted(dims.keys()) == sorted(dimlens.keys())
                 and And(*[eq(dims[d].attrs['_len'], n) for d, n in dimlens.items() if d in dims]))]
        q = [z3.Int('q0'), z3.Int('q1'), z3.Int('q2'), z3.Int('q3')]
        for rk, (sk, rdims, srcidx) in exp.items():
            X = vs.get(rk)
            if not isinstance(X, SArr):
                continue
            ok = tuple(X.attrs.get('dimensions', ())) == rdims and X.ndim == len(rdims)
            out.append(('%s: dimension tuple %r' % (rk, rdims), ok))
            if not ok:
                continue
            idx = q[:len(rdims)]
            rng = And(*[And(ge(i, 0), lt(i, dimlens[d])) for i, d in zip(idx, rdims)])
            si = srcidx(idx)
            out += [('%s: every element is the source element' % rk, Implies(rng, eq(X.get(tuple(idx)), self.pre[sk](si)))),
                    ('%s: source unchanged' % rk, Implies(rng, eq(self.vars[sk].buf.get(si), self.pre[sk](si)))),
                    ('%s: fresh buffer' % rk, all(X.buf is not a.buf for a in self.vars.values())),
                    ('%s: attributes carried' % rk, X.attrs.get('units') == 'ppb')]
        out.append(('input keeps its variables and dimensions', sorted(self.f.attrs['variables'].keys()) == sorted(self.vd) and sorted(self.f.attrs['dimensions'].keys()) == ['s', 't', 'y']
                    and all(self.f.attrs['variables'][k] is self.vars[k] and tuple(self.vars[k].attrs['dimensions']) == self.vd[k] for k in self.vd)))
        return out

    # -- replay on the real function -----------------------------------------------------------------------------------
    def concretize(self, model, inp):
        from pyvc.verify import model_value
        return dict(op=self.op, nt=model_value(model, self.n['t']), ny=model_value(model, self.n['y']), K=model_value(model, self.K))

    def concretize_without_model(self, inp):
        return dict(op=self.op, nt=3, ny=4, K=2)

    def replay(self, c):
        import numpy as np
        P = import_real()
        for nt, ny in ((int(c['nt']), int(c['ny'])), (3, 4)):
            if not (2 <= nt <= 20 and 2 <= ny <= 20):
                continue
            f = P.PseudoNetCDFFile()
            f.createDimension('t', nt).setunlimited(True)
            f.createDimension('y', ny)
            f.createDimension('s', 1)
            f.title = 'src'
            rng = np.random.default_rng(9)
            n = dict(t=nt, y=ny, s=1)
            self.n = n
            data = {k: rng.random(tuple(n[d] for d in dims)) for k, dims in self.vd.items()}
            for k, dims in self.vd.items():
                f.createVariable(k, 'd', dims, values=data[k].copy(), units='ppb')
            kw = dict(self.kw)
            if self.meth == 'insertDimension':
                self.K = kw['z'] = max(1, min(int(c.get('K') or 2), 5))
            try:
                g = getattr(f, self.meth)(*[list(a) if isinstance(a, list) else a for a in self.args], **kw)
            except Exception as e:
                return False, dict(raised=type(e).__name__, message=str(e)[:160], op=self.op, nt=nt, ny=ny)
            exp, dimlens = self.expected()
            bad = []
            if sorted(g.dimensions.keys()) != sorted(dimlens.keys()) or any(len(g.dimensions[d]) != int(dimlens[d]) for d in dimlens if d in g.dimensions):
                bad.append('dimensions %r expected %r' % ({d: len(v) for d, v in g.dimensions.items()}, {d: int(v) for d, v in dimlens.items()}))
            if sorted(g.variables.keys()) != sorted(exp.keys()):
                bad.append('variables %r expected %r' % (sorted(g.variables.keys()), sorted(exp.keys())))
            tname = 'time' if self.op == 'renameDimension' else 't'
            for d, dv in g.dimensions.items():
                if bool(dv.isunlimited()) != (d == tname):
                    bad.append('dimension %s: unlimited flag %s, expected %s' % (d, bool(dv.isunlimited()), d == tname))
            for rk, (sk, rdims, srcidx) in exp.items():
                if rk not in g.variables:
                    continue
                gv = g.variables[rk]
                if all(d in g.dimensions for d in rdims):
                    shp = tuple(len(g.dimensions[d]) for d in rdims)
                    e = np.empty(shp)
                    for idx in np.ndindex(shp):
                        e[idx] = data[sk][srcidx(idx)]
                else:
                    e = None
                if tuple(gv.dimensions) != rdims or e is None or gv.shape != e.shape or not np.array_equal(np.asarray(gv[...]), e):
                    bad.append('%s: dimensions %r shape %r' % (rk, tuple(gv.dimensions), gv.shape))
            for k in self.vd:
                if k not in f.variables or not np.array_equal(np.asarray(f.variables[k][...]), data[k]) or tuple(f.variables[k].dimensions) != self.vd[k]:
                    bad.append('input variable %s changed' % k)
            if g is f:
                bad.append('the result is the receiver itself, not a new file')
            elif not bad:
                # fresh buffers: writing into every variable of the result leaves the source data alone
                for rk in list(g.variables):
                    try:
                        g.variables[rk][...] = -7.
                    except Exception:
                        pass
                for k in self.vd:
                    if not np.array_equal(np.asarray(f.variables[k][...]), data[k]):
                        bad.append('writing into the result changed input variable %s' % k)
            if bad:
                return False, dict(op=self.op, nt=nt, ny=ny, failed=bad)
        return True, dict(op=self.op)


CONTRACTS += [SimpleOp(k) for k in SimpleOp.OPS]


class SubsetInplace(SimpleOp):
    """subsetVariables(..., inplace=True) on the same file as SimpleOp: the call completes, returns the RECEIVER, which is still
    well-formed, holds exactly the requested variables (the very same objects, every element untouched) and all its dimensions"""
    OPS = {
        'subsetVariables(inplace)': ('subsetVariables', [['v', 'w']], dict(inplace=True)),
        'subsetVariables(inplace, exclude)': ('subsetVariables', [['u', 'p']], dict(inplace=True, exclude=True)),
        'subsetVariables(inplace, nothing to drop)': ('subsetVariables', [['v', 'u', 'w', 'p']], dict(inplace=True)),
    }
    KEEP = {'subsetVariables(inplace)': ('v', 'w'), 'subsetVariables(inplace, exclude)': ('v', 'w'), 'subsetVariables(inplace, nothing to drop)': ('v', 'u', 'w', 'p')}

    def ensures(self, inp, res, I):
        keep = self.KEEP[self.op]
        out = wf_clauses(res, {'t': True, 'y': False})
        out.append(('the result is the receiver', res is self.f))
        if not hasattr(res, 'attrs') or 'variables' not in res.attrs:
            return out
        vs, dims = res.attrs['variables'], res.attrs['dimensions']
        out += [('exactly the requested variables remain', sorted(vs.keys()) == sorted(keep)),
                ('the remaining variables are the same objects', all(vs.get(k) is self.vars[k] for k in keep)),
                ('dimensions untouched', sorted(dims.keys()) == ['s', 't', 'y'] and And(eq(dims['t'].attrs['_len'], self.n['t']), eq(dims['y'].attrs['_len'], self.n['y']))),
                ('file attributes kept', res.attrs.get('title') == 'src')]
        q = [z3.Int('q0'), z3.Int('q1'), z3.Int('q2')]
        for k in keep:
            d = self.vd[k]
            idx = tuple(q[:len(d)])
            rng = And(*[And(ge(i, 0), lt(i, self.n[x])) for i, x in zip(idx, d)])
            out += [('%s: every element untouched' % k, Implies(rng, eq(self.vars[k].buf.get(idx), self.pre[k](idx)))),
                    ('%s: dimension tuple and attributes kept' % k, tuple(self.vars[k].attrs.get('dimensions', ())) == d and self.vars[k].attrs.get('units') == 'ppb')]
        return out

    def replay(self, c):
        import numpy as np
        P = import_real()
        keep = self.KEEP[self.op]
        for nt, ny in ((int(c['nt']), int(c['ny'])), (3, 4)):
            if not (2 <= nt <= 20 and 2 <= ny <= 20):
                continue
            f = P.PseudoNetCDFFile()
            f.createDimension('t', nt).setunlimited(True)
            f.createDimension('y', ny)
            f.createDimension('s', 1)
            f.title = 'src'
            rng = np.random.default_rng(9)
            n = dict(t=nt, y=ny, s=1)
            data = {k: rng.random(tuple(n[d] for d in dims)) for k, dims in self.vd.items()}
            objs = {k: f.createVariable(k, 'd', dims, values=data[k].copy(), units='ppb') for k, dims in self.vd.items()}
            try:
                g = f.subsetVariables(*[list(a) for a in self.args], **self.kw)
            except Exception as e:
                return False, dict(raised=type(e).__name__, message=str(e)[:160], op=self.op, nt=nt, ny=ny)
            bad = []
            if g is not f:
                bad.append('the result is not the receiver')
            if sorted(g.variables.keys()) != sorted(keep):
                bad.append('variables %r expected %r' % (sorted(g.variables.keys()), sorted(keep)))
            if {d: len(v) for d, v in g.dimensions.items()} != n or not g.dimensions['t'].isunlimited() or g.dimensions['y'].isunlimited():
                bad.append('dimensions changed')
            for k in keep:
                if k in g.variables and (g.variables[k] is not objs[k] or not np.array_equal(np.asarray(g.variables[k][...]), data[k]) or tuple(g.variables[k].dimensions) != self.vd[k]):
                    bad.append('variable %s changed' % k)
            if bad:
                return False, dict(op=self.op, nt=nt, ny=ny, failed=bad)
        return True, dict(op=self.op)


CONTRACTS += [SubsetInplace(k) for k in SubsetInplace.OPS]


# ---------------------------------------------------------------------------
# bounded stand-in
# ---------------------------------------------------------------------------

def bounded(tier, seed):
    from rtc import harness as H, ops
    P = H.real()
    run = H.Run('C01', tier, seed, budget_s=90 if tier == 'quick' else 900)
    depth = 2 if tier == 'quick' else 3
    for si, spec in enumerate(H.file_specs(tier, seed)):
        unl = {d[0]: d[2] for d in spec['dims']}

        def rec(f, names, lvl):
            if run.out_of_time():
                return
            for nm, ok, ap in ops.OPS:
                try:
                    if not ok(f):
                        continue
                except Exception:
                    continue
                seq = names + [nm]
                res = {}

                def thunk():
                    g = ap(P, f)
                    res['g'] = g
                    return H.wf(g, unl)
                good = run.case('C01:wf:' + ' ; '.join(seq), (si, seq), thunk)
                g = res.get('g')
                if good and g is not None and g is not f and lvl + 1 < depth:
                    rec(g, seq, lvl + 1)
        rec(H.make_file(P, spec), [], 0)
    # seeded random longer sequences
    n_rand = 30 if tier == 'quick' else 300
    for k in range(n_rand):
        if run.out_of_time():
            break
        spec = run.rng.choice(H.file_specs(tier, seed))
        f = H.make_file(P, spec)
        unl = {d[0]: d[2] for d in spec['dims']}
        seq = []
        for step in range(run.rng.randint(3, 6)):
            cands = []
            for nm, ok, ap in ops.OPS:
                try:
                    if ok(f):
                        cands.append((nm, ap))
                except Exception:
                    pass
            if not cands:
                break               # no catalogue operation applies to this file any more (e.g. every dimension gone)
            nm, ap = run.rng.choice(cands)
            seq.append(nm)
            res = {}

            def thunk():
                res['g'] = ap(P, f)
                return H.wf(res['g'], unl)
            if not run.case('C01:wf:' + ' ; '.join(seq[-2:]), (spec['seed'], list(seq)), thunk) or res.get('g') is None:
                break
            f = res['g']
    return run.result(
        rule='all operation sequences of length <= %d from the %d-entry catalogue rtc/ops.py on %d generated files, plus seeded '
             'random sequences of length 3-6; a case is (file, sequence); distinct = distinct (file, sequence)' % (depth, len(ops.OPS), len(H.file_specs(tier, seed))),
        bound='files with <= 4 dimensions of length 1-4 (one unlimited), <= 5 variables of rank 0-4, masked and unmasked; sequences <= %d (exhaustive) / <= 6 (random)' % depth)


def bounded_replay(p):
    return False, 'see input in replay file (operation sequence)'


META = dict(
    level='other',
    technique='contracts proved on the dimension/attribute book-keeping and on the well-formedness of the results of five whole operations (pyvc) + bounded run-time contract wf(result) over operation sequences',
    text='Proved for files of ANY size: copy, subsetVariables (include / exclude; in place: completes, returns the receiver holding exactly the requested variable objects untouched), renameVariable, renameDimension, removeSingleton (expected variables, dimension tuples, every element, attributes, fresh buffers, input unchanged); reorderDimensions for all 6 orders of three dimensions (dimension tuples, shapes, every element at the permuted index, input unchanged); the results of sliceDimensions (6 selector kinds), applyAlongDimensions, stack (2, 3 files), pncbo and mask are well-formed (dimension names exist, '
         'shape = dimension lengths in order, unlimited flags kept, listed attributes retrievable). Proved (all inputs): dimension objects store length/flag, attribute list book-keeping of __setattr__/__delattr__, allocation of plain and masked variables from the parent dimension lengths (ranks 0,1,2,4; symbolic lengths), '
         'copyDimension length and unlimited-flag propagation. Bounded (never counted as proved): wf(result) checked at run '
         'time on the real operations for all catalogue sequences up to the stated length; numpy shape semantics cannot be '
         'proved without modelling numpy.',
    note='numpy allocation/shape semantics trusted; closure under arbitrary sequences is argued by induction over per-operation '
         'wf-preservation, of which the book-keeping kernels and five operations (on files with rank <= 2 variables) are proved and the rest is bounded.',
    assumptions=[],
    explanation='mixed: proof obligations discharged by z3 on pure-Python book-keeping; bounded exploration of operation sequences for the numpy-dependent clauses')
