"""C09 -- bounded run-time contracts on generated CAMx files (rtc/camx.py, reference codec rtc/refcodec.py)."""
from .common import *   # noqa

CONTRACTS = []


def bounded(tier, seed):
    from rtc import camx
    return camx.run_c09(tier, seed)


def bounded_replay(p):
    return False, p.get('what')

META = dict(
    level='exploration',
    technique='bounded run-time contract with an independent reference codec (record walker, decoder, encoder)',
    text='library writer output walked by an independent Fortran-record parser/decoder; reference-encoded files read by the library; both directions.',
    note='bounded only.',
    assumptions=[], explanation='')
