"""C09 -- binary files conform to the published layout.

P: Fortran record utilities (camxfiles/FortranFileUtil.py): character/word codec inverse, record markers of writeline,
record stepping of RecordFile.  B: generated CAMx files through an independent reference codec (rtc/camx.py, rtc/refcodec.py)."""
import z3
from .common import *   # noqa
from pyvc.arrays import SymChar
from pyvc.exec import Obj, Opaque, BoundModel
from pyvc.sym import PyExc

FU = 'camxfiles/FortranFileUtil.py'


class Asc2IntC(Contract):
    """Asc2Int maps every character c to the integer whose big-endian bytes are (c, ' ', ' ', ' ')"""
    prop = 'C09'
    target = FU + '::Asc2Int'

    def inputs(self, ctx, I):
        self.codes = [ctx.fresh('c%d' % i) for i in range(3)]
        return dict(spcname=[SymChar(c) for c in self.codes])

    def requires(self, inp):
        return And(*[And(ge(c, 0), le(c, 255)) for c in self.codes])

    def ensures(self, inp, res, I):
        out = [('one-word-per-character', isinstance(res, list) and len(res) == 3)]
        if isinstance(res, list) and len(res) == 3:
            for i, (r, c) in enumerate(zip(res, self.codes)):
                out.append(('word[%d]=c*2^24+0x202020' % i, eq(r, add(mul(c, 256 ** 3), 32 * 65536 + 32 * 256 + 32))))
        return out


class Int2AscC(Contract):
    """Int2Asc inverts Asc2Int on every character code 0..255"""
    prop = 'C09'
    target = FU + '::Int2Asc'

    def inputs(self, ctx, I):
        self.codes = [ctx.fresh('c%d' % i) for i in range(3)]
        return dict(mspec=[add(mul(c, 256 ** 3), 32 * 65536 + 32 * 256 + 32) for c in self.codes])

    def requires(self, inp):
        return And(*[And(ge(c, 0), le(c, 255)) for c in self.codes])

    def ensures(self, inp, res, I):
        from pyvc.arrays import SymStr
        if not isinstance(res, SymStr) or len(res.chars) != 3:
            return [('returns-3-characters', False)]
        return [('char[%d]-recovered' % i, eq(ch.code, c)) for i, (ch, c) in enumerate(zip(res.chars, self.codes))]


class WriteLine(Contract):
    """writeline(d, fmt): leading and trailing marker equal struct.calcsize(fmt); payload order kept"""
    prop = 'C09'
    target = FU + '::writeline'

    def __init__(self, fmt, n):
        self.fmt, self.n = fmt, n
        self.name = 'writeline[%s]' % fmt

    def inputs(self, ctx, I):
        self.vals = [ctx.fresh('v%d' % i) for i in range(self.n)]
        return dict(d=list(self.vals), fmt=self.fmt)

    def ensures(self, inp, res, I):
        import struct
        rec = I.ctx.ghost.get('struct.pack')
        if not rec:
            return [('packs-one-record', False)]
        fmt, args = rec[-1]
        size = struct.calcsize(self.fmt)
        return [('record-format', fmt == '>i' + self.fmt + 'i'),
                ('leading-marker=payload-size', eq(args[0], size)), ('trailing-marker=payload-size', eq(args[-1], size)),
                ('payload-in-order', len(args) == self.n + 2 and all(a is v for a, v in zip(args[1:-1], self.vals))),
                ('input-list-not-modified', len(inp['d']) == self.n)]


def rf_obj(ctx, I):
    """RecordFile over an abstract file: infile.tell/seek/read are modelled by a ghost cursor"""
    f = Obj(None, {}, tag='file')
    f.ghost['pos'] = ctx.fresh('pos')
    length = ctx.fresh('length')
    rf = self_obj(I, FU, 'RecordFile', dict(infile=f, length=length, record_start=ctx.fresh('record_start'),
                                            record_size=ctx.fresh('record_size'), format_prefix='>', byteswap=False))
    return rf, f


class RecordNext(Contract):
    """RecordFile.next: the next record starts at record_start + record_size + 8 (two 4-byte markers);
    returns False without moving record_start when that is at or beyond the end of the file"""
    prop = 'C09'
    target = FU + '::RecordFile.next'

    def inputs(self, ctx, I):
        rf, f = rf_obj(ctx, I)
        self.start0, self.size0 = rf.attrs['record_start'], rf.attrs['record_size']
        return dict(self=rf)

    def requires(self, inp):
        a = inp['self'].attrs
        return And(ge(a['record_start'], 0), ge(a['record_size'], 0), ge(a['length'], 0))

    def ensures(self, inp, res, I):
        a = inp['self'].attrs
        nxt = add(add(self.start0, self.size0), 8)
        moved = lt(nxt, a['length'])
        return [('returns-whether-moved', eq(sym.truthy(res) if sym.is_sym(res) else res, moved)),
                ('moved=>starts-after-both-markers', Implies(moved, eq(a['record_start'], nxt))),
                ('at-end=>record-start-kept', Implies(Not(moved), eq(a['record_start'], self.start0)))]


class OpenRecord(Contract):
    """OpenRecordFile(rf) for a RecordFile whose cursor is ANYWHERE (it has been stepped, or is shared with an earlier reader):
    the same object comes back positioned on the first record -- record_start = 0, the cursor right behind the leading marker
    of record 0 -- so that the reader that follows parses the header and not whatever record the cursor was left on"""
    prop = 'C09'
    target = FU + '::OpenRecordFile'
    name = 'OpenRecordFile[existing RecordFile]'

    def inputs(self, ctx, I):
        rf, f = rf_obj(ctx, I)
        self.rf, self.f = rf, f
        return dict(rf=rf)

    def requires(self, inp):
        a = inp['rf'].attrs
        return And(ge(a['record_start'], 0), ge(a['record_size'], 0), ge(a['length'], 4), ge(self.f.ghost['pos'], 0), le(self.f.ghost['pos'], a['length']))

    def ensures(self, inp, res, I):
        a = self.rf.attrs
        return [('returns the RecordFile it was given', res is self.rf),
                ('positioned on the first record', eq(a['record_start'], 0)),
                ('cursor right behind the leading marker of record 0', eq(self.f.ghost['pos'], 4))]

    def concretize_without_model(self, inp):
        return {}

    def concretize(self, model, inp):
        return {}

    def replay(self, c):
        """a real two-record file, a RecordFile stepped to its second record, then OpenRecordFile"""
        import struct, tempfile, shutil
        import_real()
        from PseudoNetCDF.camxfiles.FortranFileUtil import RecordFile, OpenRecordFile
        d = tempfile.mkdtemp(prefix='verif_c09_')
        try:
            p_ = os.path.join(d, 'two.rec')
            with open(p_, 'wb') as fh:
                for payload in (struct.pack('>3i', 1, 2, 3), struct.pack('>5i', 4, 5, 6, 7, 8)):
                    fh.write(struct.pack('>i', len(payload)) + payload + struct.pack('>i', len(payload)))
            rf = RecordFile(p_)
            rf.next()
            moved = rf.record_start
            r2 = OpenRecordFile(rf)
            ok = r2 is rf and rf.record_start == 0 and rf.record_size == 12 and rf.infile.tell() == 4
            rf.infile.close()
            return ok, dict(record_start_before=moved, record_start_after=rf.record_start, record_size_after=rf.record_size)
        finally:
            shutil.rmtree(d, ignore_errors=True)


CONTRACTS = [Asc2IntC(), Int2AscC(), WriteLine('ifif', 4), WriteLine('iiii', 4), WriteLine('10i', 10), RecordNext(), OpenRecord()]


def bounded(tier, seed):
    from rtc import camx
    return camx.run_c09(tier, seed)


def bounded_replay(p):
    return False, p.get('what')

META = dict(
    level='other',
    technique='record primitives proved by pyvc (Asc2Int/Int2Asc inverse, writeline markers, RecordFile.next stepping); whole-file layout by bounded '
              'run-time contract with an independent reference codec (record walker, decoder, encoder)',
    text='Proved for all inputs: Asc2Int maps each character to the 4-byte name cell and Int2Asc inverts it for every code 0..255; writeline brackets every payload '
         'with two equal markers of struct.calcsize(fmt); RecordFile.next advances by record_size + 8. Bounded: output of the library writers for generated uamiv / '
         'lateral_boundary / met files is walked by an independent Fortran-record parser and decoded (header counts, grid, time intervals, end flags); '
         'reference-encoded files are read by the library; both directions.',
    note='the writers themselves (numpy structured arrays written with tobytes) are outside the deductive subset: their layout is bounded only.',
    assumptions=[], explanation='mixed: proof obligations for the record primitives + bounded reference-codec comparison')
