"""C14 -- uamiv __readheader under contract over an abstract file (pyvc/layout.py); bounded run-time contracts on generated CAMx files (rtc/camx.py, reference codec rtc/refcodec.py)."""
from .common import *   # noqa

import os
import z3
from pyvc.exec import Obj, FuncRef
from pyvc import frontend, layout
from pyvc.arrays import AbsStr
from pyvc.sym import is_sym

UM = 'camxfiles/uamiv/Memmap.py'


class UamivReadHeader(Contract):
    """uamiv (memory-mapped) __readheader over an abstract file of `filesize` bytes with nspec species and symbolic nx, ny, nz:
    * layout: the four header records end at the published offset; the structured dtype of one time block has exactly
      4*(6 + nspec*nz*(13+nx*ny)) bytes (the word formula the code uses for the integrality test);
    * truncation (C14): whenever it returns, the file holds a whole number of time blocks, TSTEP is that number, and the
      file was not extended; whenever the file IS whole it returns (no spurious 'partial time output')"""
    prop = 'C14'
    target = UM + '::uamiv.__readheader'
    max_paths = 300

    def __init__(self, nspec, mode, whole):
        self.nspec, self.mode, self.whole = nspec, mode, whole
        self.name = 'uamiv.__readheader[nspec=%d,mode=%s,%s]' % (nspec, mode, 'whole file' if whole else 'any file length')

    def inputs(self, ctx, I):
        mod = frontend.load(UM)
        node, _ = mod.find('uamiv')
        cls = I.classref(mod, node)
        s = Obj(cls, dict(variables={}, dimensions={}, _ncattrs=(), _operator_exclude_vars=(), _uamiv__endianprefix='>',
                          _uamiv__rffile=AbsStr(ctx.fresh('path')), _uamiv__mode=self.mode), tag='uamiv')
        self.nx, self.ny, self.nz = ctx.fresh('nx'), ctx.fresh('ny'), ctx.fresh('nz')
        self.iproj = ctx.fresh('iproj')
        self.plat = ctx.fresh('plat', 'Real')
        ff = layout.file_fields(ctx)
        ff['__by_name__'] = dict(nspec=self.nspec, nx=self.nx, ny=self.ny, nz=self.nz, iproj=self.iproj, plat=self.plat)
        self.size = ctx.fresh('filesize')
        ctx.ghost['filesize'] = self.size
        self.nblocks = ctx.fresh('nblocks')
        # the dtype attributes are produced by the real _make_header_fmt
        mk, _ = mod.find('uamiv._make_header_fmt')
        I.call_function(FuncRef(mod, mk, owner=cls, qual='uamiv._make_header_fmt').bind(s), [], {})
        return dict(self=s)

    def header_bytes(self):
        return 312 + 68 + 24 + (40 * self.nspec + 8)

    def block_bytes(self):
        nzd = sym.max_(self.nz, 1)
        return mul(4, add(6, mul(self.nspec * 1, mul(nzd, add(13, mul(self.nx, self.ny))))))

    def requires(self, inp):
        r = And(ge(self.nx, 1), ge(self.ny, 1), ge(self.nz, 0), ge(self.iproj, 0), le(self.iproj, 3), ge(self.size, 0),
                Implies(eq(self.iproj, 3), Or(eq(self.plat, 90), eq(self.plat, -90))))
        if self.mode != 'r':
            # in the writing modes numpy.memmap EXTENDS a file that is shorter than a header record and the header
            # fields then read as fabricated zeros; the model pins the header fields, so those cut points are left
            # to the bounded harness (rtc/camx.py opens every prefix in r+ mode as well)
            r = And(r, ge(self.size, self.header_bytes() - 4))
        if self.whole:
            r = And(r, ge(self.nblocks, 0), eq(self.size, add(self.header_bytes(), mul(self.nblocks, self.block_bytes()))))
        return r

    def ensures(self, inp, res, I):
        s = inp['self']
        mm = s.attrs.get('__memmap__')
        dims = s.attrs['dimensions']
        if not isinstance(mm, layout.StructArr) or 'TSTEP' not in dims:
            return [('data-memmap-created', False)]
        nt = dims['TSTEP'].attrs['_len']
        nzd = sym.max_(self.nz, 1)
        out = [('layout:headers-end-at-published-offset', eq(mm.offset, self.header_bytes())),
               ('layout:block-dtype-size=word-formula', eq(mm.dt.itemsize, self.block_bytes())),
               ('truncation:whole-number-of-blocks', And(ge(nt, 0), eq(self.size, add(self.header_bytes(), mul(nt, self.block_bytes()))))),
               ('truncation:map-covers-exactly-the-steps', eq(mm.n, nt)),
               ('truncation:file-not-extended', not I.ctx.ghost.get('file_extended')),
               ('dimensions', And(eq(dims['LAY'].attrs['_len'], nzd), eq(dims['COL'].attrs['_len'], self.nx), eq(dims['ROW'].attrs['_len'], self.ny),
                                  eq(dims['VAR'].attrs['_len'], self.nspec), eq(dims['TSTEP'].attrs['_unlimited'], True)))]
        if self.whole:
            out.append(('whole-file:all-steps-presented', eq(nt, self.nblocks)))
        # byte position of every data record inside a time block, read off the dtype objects the code built, against the
        # published record layout (time header 24 bytes; per species and layer one record: marker 4, ione 4, name 40,
        # data 4*nx*ny, marker 4) -- the same positions the record-based reader seeks to (C13 proves those)
        dt = mm.dt
        try:
            names = [n for n in dt.names if n != 'DATE']
            lay_words = add(13, mul(self.nx, self.ny))
            pos_ok = [eq(dt.offset_of('DATE'), 0), eq(dict(dt.fields)['DATE'].itemsize, 24), len(names) == self.nspec]
            for si, nm in enumerate(names):
                sub = dict(dt.fields)[nm]
                item = sub.base
                pos_ok += [eq(dt.offset_of(nm), add(24, mul(si, mul(nzd, mul(4, lay_words))))),
                           eq(item.itemsize, mul(4, lay_words)), len(sub.subshape) == 1, eq(sub.subshape[0], nzd),
                           eq(item.offset_of('DATA'), 48), eq(dict(item.fields)['DATA'].itemsize, mul(4, mul(self.nx, self.ny))),
                           eq(item.offset_of('EPAD'), add(48, mul(4, mul(self.nx, self.ny))))]
            out.append(('layout:record (species s, layer k) of a block starts at 24 + (s*nz + k)*4*(13+nx*ny), data 48 bytes further', And(*pos_ok)))
        except Exception as e:
            out.append(('layout:block dtype has the published field structure (%s)' % type(e).__name__, False))
        return out

    def on_raise(self, inp, exc, I):
        if not self.whole:
            return [('only-ValueError-on-truncated-files (raised %s)' % exc, exc == 'ValueError'),
                    ('truncation:file-not-extended', not I.ctx.ghost.get('file_extended'))]
        # a whole file is never rejected: the path that raises is infeasible.  The argument is non-linear
        # (nblocks * words == payload  =>  payload / words == nblocks), so it is staged:
        qs = I.ctx.ghost.get('quotients') or []
        if exc != 'ValueError' or not qs:
            return [('whole-file-is-accepted (raised %s)' % exc, False)]
        mc = (I.ctx.ghost.get('memmap_checks') or [None])[-1]
        if mc is not None and mc['fact'] is not None and I.ctx.pc[-1] is mc['fact']:
            # raised by the final numpy.memmap (no shape): the rest of the file is not a multiple of the block dtype
            gn, gy = z3.Int('generic_n'), z3.Int('generic_y')
            multiple = z3.Implies(gy > 0, (gn * gy) % gy == 0)
            y, rest = mc['itemsize'], mc['rest']
            pairs = [(gn, self.nblocks), (gy, y)]
            l1, l2, l3 = eq(rest, mul(self.nblocks, y)), gt(y, 0), ge(self.nblocks, 0)
            return [('lemma:rest-of-file-is-steps-times-block-bytes', l1),
                    ('lemma:block-bytes-positive', l2),
                    ('lemma:declared-steps-nonnegative', l3),
                    ('lemma:a-multiple-has-remainder-zero', multiple, dict(generic=pairs)),
                    ('lemma:numpy.memmap-raised-because-of-the-remainder', mc['cond'], dict(hyps=[mc['fact']])),
                    ('whole-file-is-accepted (numpy.memmap raised %s)' % exc, False,
                     dict(hyps=[l1, l2, l3, z3.substitute(multiple, *pairs), mc['cond']], generalise=[y]))]
        q, a, b, fact = qs[-1]
        nbr = sym.to_real(self.nblocks)
        gq, gn, ga, gb = (z3.Real('generic_%s' % n) for n in 'qnab')
        cancel = z3.Implies(z3.And(gq * gb == ga, gn * gb == ga, gb != 0), gq == gn)
        l1, l2 = eq(mul(nbr, b), a), gt(b, 0)
        pairs = [(gq, q), (gn, nbr), (ga, a), (gb, b)]
        inst = z3.substitute(cancel, *pairs)
        return [('lemma:declared-steps-times-block-words-is-the-payload', l1),
                ('lemma:block-words-positive', l2),
                ('lemma:a-quotient-is-unique', cancel, dict(generic=pairs)),
                ('lemma:the-quotient-is-the-declared-step-count', eq(q, nbr), dict(hyps=[fact, l1, l2, inst], generalise=[b, a])),
                ('whole-file-is-accepted (raised %s)' % exc, False, dict(hyps=[], linear=True))]

    def small(self, inp):
        return And(le(self.nx, 2), le(self.ny, 2), le(self.nz, 2), le(self.size, 2000))

    # -- replay: a real file of exactly the counter-model's size and header, opened by the real reader ------------
    def concretize(self, model, inp):
        from pyvc.verify import model_value
        return dict(nspec=self.nspec, mode=self.mode, whole=self.whole,
                    **{k: model_value(model, getattr(self, k)) for k in ('nx', 'ny', 'nz', 'iproj', 'plat', 'size', 'nblocks')})

    def replay(self, c):
        import struct
        import tempfile
        import numpy as np
        from rtc import refcodec
        import_real()
        from PseudoNetCDF.camxfiles.uamiv.Memmap import uamiv
        nx, ny, nz, nspec, size = int(c['nx']), int(c['ny']), int(c['nz']), int(c['nspec']), int(c['size'])
        nzd = max(nz, 1)
        H = 312 + 68 + 24 + 40 * nspec + 8
        B = 4 * (6 + nspec * nzd * (13 + nx * ny))
        if size > 4000000 or B > 2000000:
            return None
        nsteps = max(0, (size - H) // B) + 2
        species = ['SPC%d' % i for i in range(nspec)]
        steps = [(2154, float(h % 24), 2154, float(h % 24 + 1)) for h in range(nsteps)]
        data = [[[np.full((ny, nx), 1. + t + 10 * si + 100 * k, 'f') for k in range(nzd)] for si in range(nspec)] for t in range(nsteps)]
        plat = float(fl(c['plat']) or 0.)
        raw = bytearray(refcodec.uamiv_encode('AVERAGE', 'replay', species, nx, ny, nzd, steps, data, iproj=int(c['iproj']), plat=plat,
                                              plon=-97., tlat1=33., tlat2=45.))
        raw[352:356] = struct.pack('>i', nz)
        raw = bytes(raw[:size])
        if len(raw) != size:
            return None
        td = tempfile.mkdtemp(prefix='verif_c14_')
        path = os.path.join(td, 'f.uamiv')
        try:
            open(path, 'wb').write(raw)
            try:
                f = uamiv(path, mode=c['mode'])
            except Exception as e:
                after = os.path.getsize(path)
                whole = size >= H and (size - H) % B == 0
                ok = not whole and after == size
                return ok, dict(raised=type(e).__name__, message=str(e)[:160], file_bytes=size, header_bytes=H, block_bytes=B,
                                size_after=after, whole_file=whole)
            nt = len(f.dimensions['TSTEP'])
            after = os.path.getsize(path)
            mm = getattr(f, '__memmap__')
            ok = (size == H + nt * B and after == size and len(f.dimensions['LAY']) == nzd and int(mm.offset) == H
                  and int(mm.dtype.itemsize) == B and mm.shape[0] == nt)
            detail = dict(opened=True, TSTEP=nt, file_bytes=size, header_bytes=H, block_bytes=B, size_after=after,
                          complete_steps=(size - H) / B, map_offset=int(mm.offset), map_itemsize=int(mm.dtype.itemsize), map_len=int(mm.shape[0]))
            del f
            return ok, detail
        finally:
            import shutil
            shutil.rmtree(td, ignore_errors=True)


CONTRACTS = [UamivReadHeader(ns, mode, whole) for ns in (1, 2) for mode in ('r', 'r+') for whole in (False, True)]



def bounded(tier, seed):
    from rtc import camx
    return camx.run_c14(tier, seed)


def bounded_replay(p):
    return False, p.get('what')

META = dict(
    level='other',
    technique='uamiv (memory-mapped) __readheader proved by pyvc over an abstract file of symbolic size (structured-dtype layout model, numpy.memmap '
              'size rule as trusted model); every other reader and the data/time-flag equality by bounded run-time contract over the prefixes of generated files',
    text='Proved for any grid size, layer count, projection code and ANY file length (1 or 2 species; modes r and, with complete header records, r+): '
         'whenever the uamiv memory-mapped reader accepts a file, the file holds exactly header + TSTEP whole time blocks, the data map covers exactly '
         'those blocks, starts at the published offset, its record dtype has the size of the documented word formula and places the record of (species s, layer k) at byte '
         '24 + (s*nz + k)*4*(13 + nx*ny) of a block with the data 48 bytes further (the positions the record-based reader is proved to seek to under C13), and the file was not extended; a '
         'file cut anywhere else raises ValueError; a whole file is never rejected. Bounded: every prefix (quick: every third byte plus every record '
         'boundary +-1; thorough: every byte) of small uamiv / temperature / one3d / height_pressure files either raises or shows only complete leading steps '
         'bit-identical to the full file, and a 30-step file cut near its end in modes r, c, r+.',
    note='The proof covers the step-count inference (the mechanism named by the property) of the uamiv reader; contents of the mapped blocks (values, time flags) '
         'and the headerless meteorological readers and bpch are bounded only. numpy.memmap / numpy.dtype are trusted models pinned by the bounded harness. '
         'r+ cuts inside the header records (numpy extends the file there) are bounded only.',
    assumptions=['numpy.dtype packed layout and numpy.memmap size rule as modelled in pyvc/layout.py (trusted)',
                 'header fields are arbitrary but fixed symbols; nspec is 1 or 2 (one contract instance each)',
                 'float(size-offset)/4./block is exact real arithmetic (A-REAL); int() truncates'],
    explanation='mixed: discharged obligations for uamiv.__readheader + bounded exploration of prefixes for all readers')
