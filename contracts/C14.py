"""C14 -- bounded run-time contracts on generated CAMx files (rtc/camx.py, reference codec rtc/refcodec.py)."""
from .common import *   # noqa

CONTRACTS = []


def bounded(tier, seed):
    from rtc import camx
    return camx.run_c14(tier, seed)


def bounded_replay(p):
    return False, p.get('what')

META = dict(
    level='exploration',
    technique='bounded run-time contract: every prefix of small generated files',
    text='every proper prefix of generated files either raises or exposes only complete leading steps identical to the full file.',
    note='bounded only.',
    assumptions=[], explanation='')
