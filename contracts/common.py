"""helpers shared by the side-car contract modules"""
import os
import sys
from fractions import Fraction

from pyvc import sym, frontend
from pyvc.sym import And, Or, Not, Implies, eq, ne, lt, le, gt, ge, add, sub, mul, ite
from pyvc.exec import Obj, LoopSpec, ClassRef
from pyvc.verify import Contract, model_value


def self_obj(I, relpath, clsname, attrs, tag=None):
    """symbolic receiver: an instance of the real class with given attributes"""
    mod = frontend.load(relpath)
    node, _ = mod.find(clsname)
    cls = I.classref(mod, node)
    return Obj(cls, attrs, tag=tag or clsname)


def import_real():
    """import the real package from the tree under verification"""
    src = os.path.join(os.environ.get('VERIF_REPO', '/repo'), 'src')
    if src not in sys.path:
        sys.path.insert(0, src)
    import PseudoNetCDF  # noqa
    return PseudoNetCDF


def scaffold(cls, **attrs):
    """object.__new__(cls) + attributes (receiver for replay of methods)"""
    o = object.__new__(cls)
    for k, v in attrs.items():
        object.__setattr__(o, k, v)
    return o


def fl(x):
    """Fraction / int from a model -> python number for the real code"""
    if isinstance(x, Fraction):
        return float(x)
    return x
