"""helpers shared by the side-car contract modules"""
import os
import sys
from fractions import Fraction

from pyvc import sym, frontend
from pyvc.sym import And, Or, Not, Implies, eq, ne, lt, le, gt, ge, add, sub, mul, ite
from pyvc.exec import Obj, LoopSpec, ClassRef
from pyvc.verify import Contract, model_value


def self_obj(I, relpath, clsname, attrs, tag=None):
    """symbolic receiver: an instance of the real class with given attributes"""
    mod = frontend.load(relpath)
    node, _ = mod.find(clsname)
    cls = I.classref(mod, node)
    return Obj(cls, attrs, tag=tag or clsname)


def import_real():
    """import the real package from the tree under verification"""
    src = os.path.join(os.environ.get('VERIF_REPO', '/repo'), 'src')
    if src not in sys.path:
        sys.path.insert(0, src)
    import PseudoNetCDF  # noqa
    return PseudoNetCDF


def scaffold(cls, **attrs):
    """object.__new__(cls) + attributes (receiver for replay of methods)"""
    o = object.__new__(cls)
    for k, v in attrs.items():
        object.__setattr__(o, k, v)
    return o


def fl(x):
    """Fraction / int from a model -> python number for the real code"""
    if isinstance(x, Fraction):
        return float(x)
    return x


# ---- scaffolding of PseudoNetCDF file objects -------------------------------------

FILES = 'core/_files.py'
DIMS = 'core/_dimensions.py'


def dim_obj(I, name, length, unlimited=False):
    return self_obj(I, DIMS, 'PseudoNetCDFDimension', dict(_len=length, _unlimited=unlimited, _name=name), tag='dim:' + name)


def pnc_file(I, variables=None, dimensions=None, attrs=None, relpath=FILES, clsname='PseudoNetCDFFile'):
    a = dict(variables=dict(variables or {}), dimensions=dict(dimensions or {}),
             _ncattrs=tuple((attrs or {}).keys()), _operator_exclude_vars=())
    a.update(attrs or {})
    return self_obj(I, relpath, clsname, a)
