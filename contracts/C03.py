"""C03 -- apply-along-dimension equals the numpy reduction along that axis (bounded)."""
import itertools
from .common import *   # noqa

import z3
from pyvc.nparr import sym_array, SArr
from pyvc import frontend

F = 'core/_files.py'


class ApplyAlong(Contract):
    """applyAlongDimensions with NAMED reducers on a file with dimensions t, y of ARBITRARY lengths and variables v(t, y), u(t),
    w(y).  The numerical reduction itself is numpy's (an uninterpreted function here, min/max with their bound property); what
    is proved is the part the library owns:
      * each variable that has a named dimension is reduced along exactly the corresponding axis, exactly once per named
        dimension, by the named reducer, with the axis retained (keepdims), starting from the variable's own data;
      * variables without the named dimensions are element-wise unchanged; each named dimension gets length 1, the others keep theirs;
      * attributes and flags carried, fresh buffers, input unchanged;
      * for max: the result bounds every element of the source."""
    prop = 'C03'
    target = F + '::PseudoNetCDFFile.applyAlongDimensions'
    max_paths = 60

    def __init__(self, dimfuncs):
        self.dimfuncs = dict(dimfuncs)
        self.name = 'applyAlongDimensions[%s]' % ','.join('%s=%s' % kv for kv in dimfuncs)

    def inputs(self, ctx, I):
        nt, ny = ctx.fresh('nt'), ctx.fresh('ny')
        self.nt, self.ny = nt, ny
        mod = frontend.load('core/_variables.py')
        node, _ = mod.find('PseudoNetCDFVariable')
        cls = I.classref(mod, node)

        def var(name, dims, shape):
            a = sym_array(name, shape, 'f')
            a.cls = cls
            a.attrs.update(dimensions=dims, _ncattrs=('units',), units='ppb')
            return a
        self.vars = dict(v=var('v', ('t', 'y'), (nt, ny)), u=var('u', ('t',), (nt,)), w=var('w', ('y',), (ny,)))
        self.pre = {k: a.buf.get for k, a in self.vars.items()}
        f = pnc_file(I, dimensions={'t': dim_obj(I, 't', nt, unlimited=True), 'y': dim_obj(I, 'y', ny)}, variables=dict(self.vars),
                     attrs=dict(title='source'))
        return dict(self=f, dimfuncs=self.dimfuncs)

    def call_args(self, inp):
        return [inp['self']], dict(inp['dimfuncs'])

    def requires(self, inp):
        return And(ge(self.nt, 1), ge(self.ny, 1))

    def small(self, inp):
        return And(le(self.nt, 3), le(self.ny, 3))

    def chain(self, I, key, dims):
        """the reductions applied to variable `key`, followed from its own buffer: [(axis, how, keepdims, record)]"""
        recs = I.ctx.ghost.get('reductions', [])
        out, buf = [], self.vars[key].buf
        while True:
            nxt = [r for r in recs if r['src_buf'] is buf and all(r is not o for o in out)]
            if not nxt:
                break
            out.append(nxt[0])
            buf = nxt[0]['result'].buf
        return out

    def ensures(self, inp, res, I):
        f = inp['self']
        if not hasattr(res, 'attrs') or 'variables' not in res.attrs:
            return [('returns-file', False)]
        dims, vs = res.attrs['dimensions'], res.attrs['variables']
        out = [('is-a-new-file', res is not f), ('dimension-names-in-order', list(dims.keys()) == ['t', 'y']),
               ('variable-names-in-order', list(vs.keys()) == ['v', 'u', 'w']), ('file-attributes-carried', res.attrs.get('title') == 'source')]
        if list(dims.keys()) != ['t', 'y'] or list(vs.keys()) != ['v', 'u', 'w']:
            return out
        newlen = {d: (1 if d in self.dimfuncs else n) for d, n in (('t', self.nt), ('y', self.ny))}
        out += [('length(t)', eq(dims['t'].attrs['_len'], newlen['t'])), ('length(y)', eq(dims['y'].attrs['_len'], newlen['y'])),
                ('unlimited-flags-kept', And(eq(dims['t'].attrs['_unlimited'], True), eq(dims['y'].attrs['_unlimited'], False)))]
        i, j = z3.Int('i'), z3.Int('j')
        for key, vd in (('v', ('t', 'y')), ('u', ('t',)), ('w', ('y',))):
            X = vs[key]
            if not isinstance(X, SArr) or X.ndim != len(vd):
                out.append(('%s-is-an-array-of-rank-%d' % (key, len(vd)), False))
                continue
            q = (i, j)[:len(vd)]
            rng = And(*[And(ge(x, 0), lt(x, newlen[d])) for x, d in zip(q, vd)])
            out.append(('%s-shape' % key, And(*[eq(X.shape[k], newlen[d]) for k, d in enumerate(vd)])))
            named = [d for d in vd if d in self.dimfuncs]
            ch = self.chain(I, key, vd)
            if not named:
                out.append(('%s-not-reduced' % key, len(ch) == 0))
                out.append(('%s-unchanged' % key, Implies(rng, eq(X.get(q), self.pre[key](q)))))
            else:
                ok = (len(ch) == len(named) and sorted(r['axes'] for r in ch) == sorted((vd.index(d),) for d in named)
                      and all(r['keepdims'] for r in ch) and all(r['how'] == self.dimfuncs[vd[r['axes'][0]]] for r in ch))
                out.append(('%s-reduced-once-per-named-dimension-along-its-axis-by-the-named-reducer-with-keepdims' % key, ok))
                if ok:
                    qq = z3.Int('sq0'), z3.Int('sq1')
                    first = ch[0]
                    out.append(('%s-reduction-starts-from-the-variable-data' % key, eq(first['src_get'](qq[:len(vd)]), self.pre[key](qq[:len(vd)]))))
                    out.append(('%s-elements-are-the-reduction-results' % key, Implies(rng, eq(X.get(q), ch[-1]['result'].get(q)))))
                    if all(r['how'] == 'max' for r in ch):
                        src_rng = And(*[And(ge(x, 0), lt(x, n)) for x, n in zip(qq, self.vars[key].shape)])
                        zero = tuple(0 if d in self.dimfuncs else x for x, d in zip(qq, vd))
                        out.append(('%s-max-bounds-every-source-element' % key, Implies(src_rng, ge(X.get(zero), self.pre[key](qq[:len(vd)])))))
            out.append(('%s-attributes-carried' % key, X.attrs.get('units') == 'ppb' and tuple(X.attrs.get('dimensions', ())) == vd))
            out.append(('%s-fresh-buffer' % key, all(X.buf is not a.buf for a in self.vars.values())))
        out.append(('input-unchanged', And(Implies(And(ge(i, 0), lt(i, self.nt), ge(j, 0), lt(j, self.ny)),
                                                   And(eq(self.vars['v'].buf.get((i, j)), self.pre['v']((i, j))), eq(self.vars['u'].buf.get((i,)), self.pre['u']((i,))),
                                                       eq(self.vars['w'].buf.get((j,)), self.pre['w']((j,))))),
                                           eq(f.attrs['dimensions']['t'].attrs['_len'], self.nt), eq(f.attrs['dimensions']['y'].attrs['_len'], self.ny),
                                           f.attrs['variables'].get('v') is self.vars['v'])))
        return out


    # -- replay on the real function -----------------------------------------------------------------------------------
    def concretize(self, model, inp):
        from pyvc.verify import model_value
        return dict(dimfuncs=self.dimfuncs, nt=model_value(model, self.nt), ny=model_value(model, self.ny))

    def concretize_without_model(self, inp):
        return dict(dimfuncs=self.dimfuncs, nt=3, ny=4)

    def replay(self, c):
        # the counter-model's sizes first, then canonical sizes (a structural obligation -- wrong axis, wrong reducer -- does not
        # show on a 1 x 1 file, which is what the solver likes to return)
        out = None
        for nt, ny in ((int(c['nt']), int(c['ny'])), (3, 4)):
            if not (1 <= nt <= 30 and 1 <= ny <= 30):
                continue
            r = self.replay_one(dict(c, nt=nt, ny=ny))
            if r is not None and not r[0]:
                return r
            out = out or r
        return out

    def replay_one(self, c):
        import numpy as np
        P = import_real()
        nt, ny = int(c['nt']), int(c['ny'])
        rng = np.random.default_rng(5)
        f = P.PseudoNetCDFFile()
        f.createDimension('t', nt).setunlimited(True)
        f.createDimension('y', ny)
        f.title = 'source'
        data = dict(v=rng.random((nt, ny)), u=rng.random(nt), w=rng.random(ny))
        vdims = dict(v=('t', 'y'), u=('t',), w=('y',))
        for k_ in ('v', 'u', 'w'):
            f.createVariable(k_, 'd', vdims[k_], values=data[k_].copy(), units='ppb')
        df = dict(c['dimfuncs'])
        try:
            g = f.applyAlongDimensions(**df)
        except Exception as e:
            return False, dict(raised=type(e).__name__, message=str(e)[:200], nt=nt, ny=ny, dimfuncs=df)
        bad = []
        for k_, dims in vdims.items():
            exp = data[k_]
            for ax in range(len(dims) - 1, -1, -1):
                if dims[ax] in df:
                    exp = getattr(exp, df[dims[ax]])(axis=ax, keepdims=True)
            got = np.asarray(g.variables[k_][...])
            if got.shape != exp.shape or not np.allclose(got, exp, rtol=1e-12, atol=0):
                bad.append('%s: got shape %r expected %r / values differ' % (k_, got.shape, exp.shape))
            if not np.array_equal(np.asarray(f.variables[k_][...]), data[k_]):
                bad.append('%s: input modified' % k_)
            if getattr(g.variables[k_], 'units', None) != 'ppb':
                bad.append('%s: attributes' % k_)
        for d, n in (('t', nt), ('y', ny)):
            if len(g.dimensions[d]) != (1 if d in df else n):
                bad.append('len(%s)' % d)
        return (not bad), dict(nt=nt, ny=ny, dimfuncs=df, failed=bad)


CONTRACTS = [ApplyAlong(x) for x in ([('t', 'mean')], [('y', 'sum')], [('t', 'max'), ('y', 'max')], [('y', 'std'), ('t', 'std')])]


def bounded(tier, seed):
    from rtc import harness as H
    import numpy as np
    P = H.real()
    run = H.Run('C03', tier, seed, budget_s=90 if tier == 'quick' else 600)
    reducers = ['mean', 'sum', 'min', 'max', 'std', 'var', 'prod']
    callables = [('x[::2]', lambda x: x[::2]), ('x[:1]', lambda x: x[:1]), ('diff', np.diff),
                 ('convolve-valid', lambda x: np.convolve(x, [0.5, 0.5], mode='valid')),
                 ('convolve-same', lambda x: np.convolve(x, [0.25, 0.5, 0.25], mode='same')),
                 ('cumsum', np.cumsum), ('mean-as-callable', lambda x: np.array([x.mean()])),
                 ('x[:0] (empty output)', lambda x: x[:0])]

    def oracle(v, dims, dimfuncs):
        a = np.ma.asarray(v)
        for ax in range(len(dims) - 1, -1, -1):
            d = dims[ax]
            if d not in dimfuncs:
                continue
            fn = dimfuncs[d]
            if isinstance(fn, str):
                a = getattr(a, fn)(axis=ax, keepdims=True)
            else:
                a = np.ma.apply_along_axis(fn, ax, a) if np.ma.is_masked(a) else np.apply_along_axis(fn, ax, np.ma.getdata(a))
        return a
    for si, spec in enumerate(H.file_specs(tier, seed)):
        f = H.make_file(P, spec)
        dims = [d[0] for d in spec['dims']]
        lens = {d[0]: d[1] for d in spec['dims']}
        cases = []
        for d in dims:
            for r in reducers:
                cases.append(({d: r}, '%s' % r, 'one'))
            for nm, fn in callables:
                if nm == 'diff' and lens[d] < 2 or nm == 'convolve-valid' and lens[d] < 2:
                    continue
                cases.append(({d: fn}, nm, 'one'))
        for d1, d2 in itertools.permutations(dims, 2):
            for r1, r2 in (('mean', 'mean'), ('sum', 'max'), ('min', 'min'), ('max', 'sum')):
                cases.append((dict([(d1, r1), (d2, r2)]), '%s,%s' % (r1, r2), 'two'))
        for dimfuncs, tag, how in cases:
            if run.out_of_time():
                break
            masked_call = any(not isinstance(fn, str) for fn in dimfuncs.values())

            def t(f=f, dimfuncs=dimfuncs, masked_call=masked_call):
                before = H.snapshot(f)
                g = f.applyAlongDimensions(**dimfuncs)
                r = H.wf(g)
                if r:
                    return 'ill-formed: ' + r
                for vk, v in f.variables.items():
                    gv = g.variables[vk]
                    if not any(d in dimfuncs for d in v.dimensions):
                        e = H.arr_equal(gv[...], v[...])
                        if e:
                            return 'variable %s lacks the dimension but changed: %s' % (vk, e)
                        continue
                    if masked_call and np.ma.is_masked(v[...]):
                        continue   # apply_along_axis with a plain callable on masked data is outside the documented domain
                    exp = oracle(v[...], v.dimensions, dimfuncs)
                    e = H.arr_equal(gv[...], np.ma.asarray(exp).astype(gv.dtype) if np.ma.asarray(exp).dtype != gv.dtype else exp, exact=False, rtol=1e-5)
                    if e:
                        return 'variable %s%r: %s' % (vk, tuple(v.dimensions), e)
                for d, fn in dimfuncs.items():
                    n = len(f.dimensions[d])
                    explen = 1 if isinstance(fn, str) else np.asarray(fn(np.arange(n, dtype='d'))).size
                    if len(g.dimensions[d]) != explen:
                        return 'dimension %s length %d expected %d' % (d, len(g.dimensions[d]), explen)
                    if bool(g.dimensions[d].isunlimited()) != bool(f.dimensions[d].isunlimited()):
                        return 'unlimited flag of %s changed' % d
                return H.same_snapshot(before, H.snapshot(f))
            run.case('C03:applyAlongDimensions:%s axis:%s' % (how, tag), (si, sorted(dimfuncs), tag), t)
        # order independence for commuting reducers
        for d1, d2 in itertools.combinations(dims, 2):
            for r in ('sum', 'max', 'min', 'mean'):
                def t(f=f, d1=d1, d2=d2, r=r):
                    a = f.applyAlongDimensions(**dict([(d1, r), (d2, r)]))
                    b = f.applyAlongDimensions(**dict([(d2, r), (d1, r)]))
                    for vk in f.variables:
                        e = H.arr_equal(a.variables[vk][...], b.variables[vk][...], exact=False, rtol=1e-5)
                        if e:
                            return 'order of naming matters for %s: %s' % (vk, e)
                    return None
                run.case('C03:order-independence:%s' % r, (si, d1, d2, r), t)
    # string forms of the command line
    from PseudoNetCDF.core._functions import reduce_dim
    for si, spec in enumerate(H.file_specs(tier, seed)[:2]):
        f = H.make_file(P, spec)
        for d, n, _ in spec['dims']:
            for r in ('mean', 'sum', 'max', 'min', 'std', 'median', 'var'):
                def t(f=f, d=d, r=r):
                    g = reduce_dim(f, '%s,%s' % (d, r))
                    for vk, v in f.variables.items():
                        if d in v.dimensions and vk in g.variables:
                            ax = list(v.dimensions).index(d)
                            a = np.ma.asarray(v[...])
                            exp = np.ma.median(a, axis=ax, keepdims=True) if r == 'median' else getattr(a, r)(axis=ax, keepdims=True)
                            e = H.arr_equal(g.variables[vk][...], exp, exact=False, rtol=1e-5)
                            if e:
                                return 'reduce_dim(%s,%s) variable %s: %s' % (d, r, vk, e)
                    return None
                run.case('C03:reduce_dim string form:%s' % r, (si, d, r), t)
    # integer variables, two named dimensions, a reducer whose result is wider than the variable's type (mean, std, var) applied first:
    # the stored value is the numpy result along both axes, converted to the variable's type ONCE at the end
    for dt in ('i4', 'i2', 'u1'):
        fi = P.PseudoNetCDFFile()
        fi.createDimension('t', 3)
        fi.createDimension('y', 4)
        fi.createDimension('x', 5)
        base = (np.arange(60).reshape(3, 4, 5) * 3 + 1) % (200 if dt == 'u1' else 1000)
        fi.createVariable('count', dt, ('t', 'y', 'x'), values=base.astype(dt))
        fi.createVariable('flat', dt, ('t', 'y'), values=(np.arange(12).reshape(3, 4)).astype(dt))
        for dimfuncs in (dict(t='mean', y='sum'), dict(y='mean', t='sum'), dict(x='mean', t='sum'), dict(t='std', y='sum'), dict(t='mean', y='sum', x='sum')):
            def t(fi=fi, dimfuncs=dimfuncs, dt=dt):
                g = fi.applyAlongDimensions(**dimfuncs)
                for vk, v in fi.variables.items():
                    named = [d for d in v.dimensions if d in dimfuncs]
                    if len(named) < 2:
                        continue
                    a = np.asarray(v[...]).astype('d')
                    for ax, d in enumerate(v.dimensions):
                        if d in dimfuncs:
                            a = getattr(a, dimfuncs[d])(axis=ax, keepdims=True)
                    got = np.asarray(g.variables[vk][...])
                    if got.shape != a.shape:
                        return 'variable %s shape %r expected %r' % (vk, got.shape, a.shape)
                    lim = np.iinfo(got.dtype).max if got.dtype.kind in 'iu' else None
                    ok = np.abs(got.astype('d') - a) < 1.0 + 1e-9
                    if lim is not None:
                        ok |= a > lim          # a sum that does not fit the variable's type wraps: not the point here
                    if not ok.all():
                        return 'variable %s (%s): %r is not the numpy result %r along both axes' % (vk, dt, got.ravel()[:4].tolist(), np.round(a.ravel()[:4], 3).tolist())
                return None
            run.case('C03:applyAlongDimensions:integer variable, widening reducer first', (dt, tuple(dimfuncs.items())), t)
    # convolve_dim (the command-line form of a convolution along a dimension): values = numpy.convolve(weights, column, mode) along the
    # axis -- a CONVOLUTION, so asymmetric kernels tell it from a correlation --, new dimension length, other variables unchanged
    from PseudoNetCDF.core._functions import convolve_dim
    kernels = [('0.5,0.5', [0.5, 0.5]), ('1,-1', [1., -1.]), ('0.25,0.75', [0.25, 0.75]), ('1,2,3', [1., 2., 3.]), ('2,0,-1,0.5', [2., 0., -1., 0.5])]
    for si, spec in enumerate(H.file_specs(tier, seed)[:3]):
        f = H.make_file(P, spec)
        for d, n, _ in spec['dims']:
            for mode in ('valid', 'same', 'full'):
                for ktxt, kw in kernels:
                    if mode == 'valid' and n < len(kw):
                        continue

                    def t(f=f, d=d, mode=mode, ktxt=ktxt, kw=kw, n=n):
                        before = H.snapshot(f)
                        g = convolve_dim(f, '%s,%s,%s' % (d, mode, ktxt))
                        w = np.array(kw, 'f')
                        explen = len(np.convolve(w, np.arange(n), mode=mode))
                        if len(g.dimensions[d]) != explen:
                            return 'dimension %s length %d expected %d' % (d, len(g.dimensions[d]), explen)
                        for vk, v in f.variables.items():
                            if vk not in g.variables:
                                return 'variable %s missing from the result' % vk
                            a = v[...]
                            if d not in v.dimensions:
                                e = H.arr_equal(g.variables[vk][...], a)
                                if e:
                                    return 'variable %s lacks the dimension but changed: %s' % (vk, e)
                                continue
                            if np.ma.is_masked(a) or np.asarray(a).dtype.kind not in 'fiu':
                                continue      # masked columns / text: outside the documented domain of numpy.convolve
                            ax = list(v.dimensions).index(d)
                            exp = np.apply_along_axis(lambda x_: np.convolve(w, x_, mode=mode), ax, np.ma.getdata(a))
                            got = np.ma.getdata(g.variables[vk][...])
                            if got.shape != exp.shape or not np.allclose(got.astype('d'), exp.astype(got.dtype).astype('d'), rtol=1e-5, atol=1e-6):
                                return 'variable %s: not the convolution with weights %s (mode %s) along %s' % (vk, ktxt, mode, d)
                        return H.same_snapshot(before, H.snapshot(f))
                    run.case('C03:convolve_dim:%s,%s' % (mode, ktxt), (si, d, mode, ktxt), t)
    return run.result(
        rule='real applyAlongDimensions / reduce_dim / convolve_dim vs numpy.ma reductions (keepdims) and numpy.apply_along_axis on snapshots; unaffected variables '
             'identical; dimension lengths; unlimited flags; order independence of commuting reducers',
        bound='files of the C01 space; every single dimension x {7 named reducers, 7 callables}; ordered pairs of dimensions x 4 reducer pairs; convolve_dim: 3 modes x 5 kernels (4 asymmetric) on every dimension of 3 files')


def bounded_replay(p):
    return False, p.get('what')


META = dict(
    level='other',
    technique='applyAlongDimensions with named reducers proved by pyvc on files of arbitrary size (which array is reduced along which axis by which reducer, keepdims, '
              'book-keeping); the numerical reduction (numpy.ma, masks), 1-D callables and reduce_dim by bounded run-time contract against numpy.ma (oracle)',
    text='Proved for dimensions of ANY length, named reducers mean / sum / max / std on one or both dimensions: every variable with a named dimension is reduced exactly once '
         'per named dimension, along the corresponding axis, by the named reducer, with the axis retained, starting from its own data, and the stored elements are that result; '
         'variables without the dimensions are unchanged; named dimensions get length 1, others keep theirs; attributes and flags carried; fresh buffers; input unchanged; for max '
         'the result bounds every source element. Bounded: element-wise comparison (masks included) with numpy.ma reductions / apply_along_axis for 7 reducers and 7 callables, '
         'pairs of dimensions, order independence, reduce_dim.',
    note='the reduction itself is an uninterpreted function in the proof (numpy owns it): numerical equality with numpy.ma, masked data, length-changing callables, coordinate '
         'variables and the string form reduce_dim are bounded only.',
    assumptions=['numpy reductions with axis/keepdims: shape rule and (min/max) bound property as modelled in pyvc/nparr.py; value otherwise uninterpreted',
                 'numpy.ma reduction semantics (oracle of the bounded part)'],
    explanation='mixed: discharged obligations for the dispatch and book-keeping of applyAlongDimensions + bounded numerical comparison')
