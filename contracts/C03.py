"""C03 -- apply-along-dimension equals the numpy reduction along that axis (bounded)."""
import itertools
from .common import *   # noqa

CONTRACTS = []


def bounded(tier, seed):
    from rtc import harness as H
    import numpy as np
    P = H.real()
    run = H.Run('C03', tier, seed, budget_s=90 if tier == 'quick' else 600)
    reducers = ['mean', 'sum', 'min', 'max', 'std', 'var', 'prod']
    callables = [('x[::2]', lambda x: x[::2]), ('x[:1]', lambda x: x[:1]), ('diff', np.diff),
                 ('convolve-valid', lambda x: np.convolve(x, [0.5, 0.5], mode='valid')),
                 ('convolve-same', lambda x: np.convolve(x, [0.25, 0.5, 0.25], mode='same')),
                 ('cumsum', np.cumsum), ('mean-as-callable', lambda x: np.array([x.mean()]))]

    def oracle(v, dims, dimfuncs):
        a = np.ma.asarray(v)
        for ax in range(len(dims) - 1, -1, -1):
            d = dims[ax]
            if d not in dimfuncs:
                continue
            fn = dimfuncs[d]
            if isinstance(fn, str):
                a = getattr(a, fn)(axis=ax, keepdims=True)
            else:
                a = np.ma.apply_along_axis(fn, ax, a) if np.ma.is_masked(a) else np.apply_along_axis(fn, ax, np.ma.getdata(a))
        return a
    for si, spec in enumerate(H.file_specs(tier, seed)):
        f = H.make_file(P, spec)
        dims = [d[0] for d in spec['dims']]
        lens = {d[0]: d[1] for d in spec['dims']}
        cases = []
        for d in dims:
            for r in reducers:
                cases.append(({d: r}, '%s' % r, 'one'))
            for nm, fn in callables:
                if nm == 'diff' and lens[d] < 2 or nm == 'convolve-valid' and lens[d] < 2:
                    continue
                cases.append(({d: fn}, nm, 'one'))
        for d1, d2 in itertools.permutations(dims, 2):
            for r1, r2 in (('mean', 'mean'), ('sum', 'max'), ('min', 'min'), ('max', 'sum')):
                cases.append((dict([(d1, r1), (d2, r2)]), '%s,%s' % (r1, r2), 'two'))
        for dimfuncs, tag, how in cases:
            if run.out_of_time():
                break
            masked_call = any(not isinstance(fn, str) for fn in dimfuncs.values())

            def t(f=f, dimfuncs=dimfuncs, masked_call=masked_call):
                before = H.snapshot(f)
                g = f.applyAlongDimensions(**dimfuncs)
                r = H.wf(g)
                if r:
                    return 'ill-formed: ' + r
                for vk, v in f.variables.items():
                    gv = g.variables[vk]
                    if not any(d in dimfuncs for d in v.dimensions):
                        e = H.arr_equal(gv[...], v[...])
                        if e:
                            return 'variable %s lacks the dimension but changed: %s' % (vk, e)
                        continue
                    if masked_call and np.ma.is_masked(v[...]):
                        continue   # apply_along_axis with a plain callable on masked data is outside the documented domain
                    exp = oracle(v[...], v.dimensions, dimfuncs)
                    e = H.arr_equal(gv[...], np.ma.asarray(exp).astype(gv.dtype) if np.ma.asarray(exp).dtype != gv.dtype else exp, exact=False, rtol=1e-5)
                    if e:
                        return 'variable %s%r: %s' % (vk, tuple(v.dimensions), e)
                for d, fn in dimfuncs.items():
                    n = len(f.dimensions[d])
                    explen = 1 if isinstance(fn, str) else np.asarray(fn(np.arange(n, dtype='d'))).size
                    if len(g.dimensions[d]) != explen:
                        return 'dimension %s length %d expected %d' % (d, len(g.dimensions[d]), explen)
                    if bool(g.dimensions[d].isunlimited()) != bool(f.dimensions[d].isunlimited()):
                        return 'unlimited flag of %s changed' % d
                return H.same_snapshot(before, H.snapshot(f))
            run.case('C03:applyAlongDimensions:%s axis:%s' % (how, tag), (si, sorted(dimfuncs), tag), t)
        # order independence for commuting reducers
        for d1, d2 in itertools.combinations(dims, 2):
            for r in ('sum', 'max', 'min', 'mean'):
                def t(f=f, d1=d1, d2=d2, r=r):
                    a = f.applyAlongDimensions(**dict([(d1, r), (d2, r)]))
                    b = f.applyAlongDimensions(**dict([(d2, r), (d1, r)]))
                    for vk in f.variables:
                        e = H.arr_equal(a.variables[vk][...], b.variables[vk][...], exact=False, rtol=1e-5)
                        if e:
                            return 'order of naming matters for %s: %s' % (vk, e)
                    return None
                run.case('C03:order-independence:%s' % r, (si, d1, d2, r), t)
    # string forms of the command line
    from PseudoNetCDF.core._functions import reduce_dim
    for si, spec in enumerate(H.file_specs(tier, seed)[:2]):
        f = H.make_file(P, spec)
        for d, n, _ in spec['dims']:
            for r in ('mean', 'sum', 'max', 'min', 'std', 'median', 'var'):
                def t(f=f, d=d, r=r):
                    g = reduce_dim(f, '%s,%s' % (d, r))
                    for vk, v in f.variables.items():
                        if d in v.dimensions and vk in g.variables:
                            ax = list(v.dimensions).index(d)
                            a = np.ma.asarray(v[...])
                            exp = np.ma.median(a, axis=ax, keepdims=True) if r == 'median' else getattr(a, r)(axis=ax, keepdims=True)
                            e = H.arr_equal(g.variables[vk][...], exp, exact=False, rtol=1e-5)
                            if e:
                                return 'reduce_dim(%s,%s) variable %s: %s' % (d, r, vk, e)
                    return None
                run.case('C03:reduce_dim string form:%s' % r, (si, d, r), t)
    return run.result(
        rule='real applyAlongDimensions / reduce_dim vs numpy.ma reductions (keepdims) and numpy.apply_along_axis on snapshots; unaffected variables '
             'identical; dimension lengths; unlimited flags; order independence of commuting reducers',
        bound='files of the C01 space; every single dimension x {7 named reducers, 7 callables}; ordered pairs of dimensions x 4 reducer pairs')


def bounded_replay(p):
    return False, p.get('what')


META = dict(
    level='exploration',
    technique='bounded run-time contract against numpy.ma reductions (oracle); reduction equality is numpy semantics and cannot be stated as a deductive obligation without modelling numpy',
    text='Result of applyAlongDimensions compared element-wise (masks included) with numpy.ma reductions with keepdims / numpy.apply_along_axis over the stated bound.',
    note='bounded only; never counted as proved.',
    assumptions=['numpy.ma reduction semantics (oracle)'],
    explanation='')
