"""C10 -- IOAPI metadata stays coherent under every operation (bounded run-time invariant)."""
import itertools
from .common import *   # noqa

import z3
from pyvc.exec import Obj, Opaque

IO = 'cmaqfiles/_ioapi.py'


class NoEffectAssumed(Contract):
    """ASSUMED summary used while proving updatemeta: the callee does not change the row/column/layer counts, the
    dimensions other than VAR, or the unlimited flags (its own clauses are checked by the bounded harness)"""
    prop = 'C10'

    def __init__(self, qual):
        self.target = IO + '::ioapi_base.' + qual
        self.name = qual + '[assumed frame]'

    def apply(self, I, func, args, kwargs):
        I.ctx.ghost.setdefault('called', []).append(self.target.split('.')[-1])
        I.ctx.trust_contract = getattr(I.ctx, 'trust_contract', set())
        I.ctx.trust_contract.add(self.target + ' (assumed frame)')
        return None


class UpdateMeta(Contract):
    """updatemeta: afterwards NLAYS/NCOLS/NROWS equal the dimension lengths, the TSTEP dimension is unlimited, the
    DATE-TIME dimension exists with length 2, and the variable list / time flags are refreshed (getVarlist, updatetflag called)"""
    prop = 'C10'
    target = IO + '::ioapi_base.updatemeta'
    uses = [NoEffectAssumed('getVarlist'), NoEffectAssumed('_updatetime'), NoEffectAssumed('updatetflag')]

    def __init__(self, stale, has_dt):
        self.stale, self.has_dt = stale, has_dt
        self.name = 'updatemeta[%s counts,%s DATE-TIME]' % ('stale' if stale else 'no', 'with' if has_dt else 'without')

    def inputs(self, ctx, I):
        ctx.modstate[(IO, '_ioapi_defaults')] = {}
        self.n = dict(LAY=ctx.fresh('nlay'), ROW=ctx.fresh('nrow'), COL=ctx.fresh('ncol'), TSTEP=ctx.fresh('nt'))
        dims = {d: dim_obj(I, d, n, unlimited=ctx.fresh('unl_' + d, 'Bool')) for d, n in self.n.items()}
        if self.has_dt:
            dims['DATE-TIME'] = dim_obj(I, 'DATE-TIME', 2)
        attrs = {}
        if self.stale:
            attrs = dict(NLAYS=ctx.fresh('old_nlays'), NROWS=ctx.fresh('old_nrows'), NCOLS=ctx.fresh('old_ncols'))
        f = pnc_file(I, dimensions=dims, attrs=attrs, relpath=IO, clsname='ioapi_base')
        return dict(self=f, attdict={})

    def requires(self, inp):
        return And(*[ge(n, 0) for n in self.n.values()])

    def ensures(self, inp, res, I):
        a = inp['self'].attrs
        d = a['dimensions']
        called = I.ctx.ghost.get('called', [])
        dt = d.get('DATE-TIME')
        return [('NLAYS=len(LAY)', eq(a.get('NLAYS'), self.n['LAY'])), ('NROWS=len(ROW)', eq(a.get('NROWS'), self.n['ROW'])),
                ('NCOLS=len(COL)', eq(a.get('NCOLS'), self.n['COL'])),
                ('TSTEP-unlimited', eq(d['TSTEP'].attrs['_unlimited'], True)),
                ('DATE-TIME-dimension=2', isinstance(dt, Obj) and eq(dt.attrs['_len'], 2)),
                ('dimension-lengths-kept', And(*[eq(d[k].attrs['_len'], n) for k, n in self.n.items()])),
                ('variable-list-refreshed-then-time-flags', 'getVarlist' in called and 'updatetflag' in called and called.index('getVarlist') < called.index('updatetflag')),
                ('counts-listed-as-attributes', all(k in a['_ncattrs'] for k in ('NLAYS', 'NROWS', 'NCOLS')))]


CONTRACTS = [UpdateMeta(s, h) for s in (False, True) for h in (False, True)]



def ioapi_ops(f, np):
    """in-domain operations on an IOAPI file: (name, thunk) """
    nt, nz = len(f.dimensions['TSTEP']), len(f.dimensions['LAY'])
    grid = 'ROW' in f.dimensions
    # data variables = the ones VAR-LIST names (coordinate variables such as layer/time/x/y of a GRIDDESC file are
    # not IOAPI data variables); a rename targets a name that is not in use (renaming onto an existing variable
    # replaces it -- netCDF4 refuses that -- and is outside the property's domain)
    listed = [f.getncattr('VAR-LIST')[i:i + 16].strip() for i in range(0, len(f.getncattr('VAR-LIST')), 16)] if 'VAR-LIST' in f.ncattrs() else []
    names = [k for k in listed if k in f.variables] or [k for k in f.variables if k not in ('TFLAG', 'ETFLAG')]
    fresh = next('RENAMED%s' % (i or '') for i in range(100) if 'RENAMED%s' % (i or '') not in f.variables)
    ops = [
        ('copy', lambda f: f.copy()),
        ('slice(TSTEP=0)', lambda f: f.sliceDimensions(TSTEP=0)),
        ('slice(TSTEP=slice(1,3))', lambda f: f.sliceDimensions(TSTEP=slice(1, 3))),
        ('slice(TSTEP=slice(None,None,-1))', lambda f: f.sliceDimensions(TSTEP=slice(None, None, -1))),
        ('slice(TSTEP=[2,0])', lambda f: f.sliceDimensions(TSTEP=[2, 0])),
        ('slice(LAY=0)', lambda f: f.sliceDimensions(LAY=0)),
        ('slice(LAY=slice(1,None))', lambda f: f.sliceDimensions(LAY=slice(1, None))),
        ('subset(first)', lambda f: f.subsetVariables(names[:1])),
        ('renameVariable', lambda f: f.renameVariable(names[0], fresh)),
        ('renameVariable(identity)', lambda f: f.renameVariable(names[0], names[0])),
        ('apply(TSTEP=mean)', lambda f: f.applyAlongDimensions(TSTEP='mean')),
        ('apply(TSTEP=x[::-1])', lambda f: f.applyAlongDimensions(TSTEP=lambda x: x[::-1])),
        ('apply(TSTEP=roll)', lambda f: f.applyAlongDimensions(TSTEP=lambda x: np.roll(x, 1))),
        ('apply(TSTEP=cumsum)', lambda f: f.applyAlongDimensions(TSTEP=np.cumsum)),
        ('apply(LAY=mean)', lambda f: f.applyAlongDimensions(LAY='mean')),
        ('apply(LAY=x[::2])', lambda f: f.applyAlongDimensions(LAY=lambda x: x[::2])),
        ('eval(new)', lambda f: f.eval('NEWV = %s[:] * 2' % names[0])),
        ('eval(new,copyall)', lambda f: f.eval('NEWV = %s[:] * 2' % names[0], copyall=True)),
        ('mask(greater)', lambda f: f.mask(greater=0.5)),
        ('stack(TSTEP)', lambda f: f.stack([f], 'TSTEP')),
        ('interpSigma', lambda f: f.interpSigma(np.array([1., 0.5, 0.]), interptype='linear')),
    ]
    if len(names) > 1:
        ops.append(('subset(exclude first)', lambda f: f.subsetVariables(names[:1], exclude=True)))
    if grid and len(f.dimensions['ROW']) >= 2 and len(f.dimensions['COL']) >= 4:
        ops += [('slice(ROW=1)', lambda f: f.sliceDimensions(ROW=1)),
                ('slice(COL=slice(2,4))', lambda f: f.sliceDimensions(COL=slice(2, 4))),
                ('slice(ROW=-1,COL=0)', lambda f: f.sliceDimensions(ROW=-1, COL=0)),
                ('apply(ROW=mean)', lambda f: f.applyAlongDimensions(ROW='mean'))]
    return ops


def bounded(tier, seed):
    from rtc import harness as H, ioapi as IO
    import numpy as np
    import os, tempfile, shutil
    P = H.real()
    run = H.Run('C10', tier, seed, budget_s=90 if tier == 'quick' else 600)
    depth = 2 if tier == 'quick' else 3
    tmp = tempfile.mkdtemp(prefix='verif_c10_')
    try:
        sources = [('gridded from arrays', lambda: IO.make_ioapi(P, seed=seed)),
                   ('boundary from arrays', lambda: IO.make_ioapi(P, boundary=True, seed=seed)),
                   ('daily steps', lambda: IO.make_ioapi(P, tstep=240000, sdate=2020059, stime=0, seed=seed))]

        def from_disk():
            f = IO.make_ioapi(P, seed=seed)
            p = os.path.join(tmp, 'io.nc')
            f.save(p, format='NETCDF3_CLASSIC', verbose=0).close()
            from PseudoNetCDF import pncopen
            return pncopen(p, format='ioapi')
        sources.append(('re-read from disk', from_disk))

        def from_griddesc():
            from PseudoNetCDF.cmaqfiles import griddesc
            gd = os.path.join(tmp, 'GRIDDESC')
            open(gd, 'w').write("' '\n'LCC'\n  2 33.000 45.000 -97.000 -97.000 40.000\n' '\n'TESTGRID'\n'LCC' -1000.0 500.0 12000.0 4000.0 6 5 1\n' '\n")
            g = griddesc(gd, GDNAM='TESTGRID', nsteps=4, var_kwds=dict(V0=dict(units='ppm'), V1=dict(units='ppm')), VGLVLS=np.array([1., .8, .4, 0.], 'f'))
            return g
        sources.append(('from GRIDDESC text', from_griddesc))
        for sname, mk in sources:
            res = {}
            if not run.case('C10:source:' + sname, sname, lambda: (res.__setitem__('f', mk()), IO.ioapi_wf(res['f']))[1]):
                continue
            f0 = res['f']

            def rec(f, names, lvl):
                if run.out_of_time():
                    return
                for nm, ap in ioapi_ops(f, np):
                    seq = names + [nm]
                    out = {}

                    def t():
                        out['g'] = ap(f)
                        return IO.ioapi_wf(out['g'])
                    try_ok = run.case('C10:after %s' % nm, (sname, seq), t)
                    g = out.get('g')
                    if try_ok and g is not None and lvl + 1 < depth and all(d in g.dimensions for d in ('TSTEP', 'LAY')) and len(g.dimensions['TSTEP']) >= 3 and len(g.dimensions['LAY']) >= 2:
                        rec(g, seq, lvl + 1)
            rec(f0, [], 0)
    finally:
        shutil.rmtree(tmp, ignore_errors=True)
    return run.result(
        rule='ioapi_wf (NVARS = |VAR-LIST| = VAR = TFLAG axis; listed variables exist with standard dimensions; NROWS/NCOLS/NLAYS = dimension lengths; |VGLVLS| = NLAYS+1; '
             'SDATE/STIME = TFLAG[0,0]; TSTEP unlimited) as run-time post-condition after every operation sequence',
        bound='IOAPI files gridded/boundary/daily/from disk/from GRIDDESC (4 steps, 3 layers, 5x6); all sequences of length <= %d over ~22 operations' % depth)


def bounded_replay(p):
    return False, p.get('what')


META = dict(
    level='other',
    technique='updatemeta proved by pyvc (modular, callees as assumed frames); the full coherence invariant by bounded run-time contract over operation sequences',
    text='Proved for any dimension lengths and any previous attribute values: after updatemeta the row/column/layer count attributes equal the dimension lengths, TSTEP is unlimited, DATE-TIME '
         'exists with length 2, and the variable list is refreshed before the time flags. Bounded: the complete ioapi_wf invariant after every operation sequence of the stated bound.',
    note='getVarlist/_updatetime/updatetflag are assumed frames inside the proof; VAR-LIST string handling and TFLAG regeneration are bounded only.',
    assumptions=[],
    explanation='mixed: proof obligations for updatemeta + bounded exploration of operation sequences')
