"""C10 -- IOAPI metadata stays coherent under every operation (bounded run-time invariant)."""
import itertools
from .common import *   # noqa

import z3
from pyvc.exec import Obj, Opaque
from pyvc.nparr import sym_array, SArr

IO = 'cmaqfiles/_ioapi.py'


def attr_frame(a, a0, allowed):
    """names of the file attributes (listing included) that are not the very objects they were at entry, besides `allowed`"""
    skip = set(allowed) | {'variables', 'dimensions', '_ncattrs'}
    changed = sorted(k for k in set(a) | set(a0) if k not in skip and a.get(k, None) is not a0.get(k, None))
    listed = lambda d: set(k for k in d.get('_ncattrs', ()) if k not in skip)
    return changed, sorted(listed(a) ^ listed(a0))


def dims_frame(d, d0, flags0, lens0, allowed=()):
    """clauses: the dimensions other than `allowed` are the same objects with the same length and unlimited flag"""
    keys = [k for k in d0 if k not in allowed]
    same = all(k in d and d[k] is d0[k] for k in keys) and not [k for k in d if k not in d0 and k not in allowed]
    return [('frame: dimensions besides %s are the same objects, none added or removed' % (sorted(allowed) or 'none'), same),
            ('frame: their lengths and unlimited flags are unchanged',
             And(*[And(eq(d[k].attrs['_len'], lens0[k]), eq(d[k].attrs['_unlimited'], flags0[k])) for k in keys if k in d]) if same else False)]


def dims_snapshot(dims):
    return dict(dims), {k: v.attrs['_unlimited'] for k, v in dims.items()}, {k: v.attrs['_len'] for k, v in dims.items()}


def frame_replay(call, allowed_attrs, allowed_dims=(), allowed_vars=(), prepare=None):
    """on the real code: an IOAPI file, every attribute / dimension / variable outside the allowed sets must be untouched by `call`"""
    import numpy as np
    from rtc import harness as H, ioapi as IOH
    P = H.real()
    f = IOH.make_ioapi(P, nt=3, nz=2, ny=4, nx=5)
    f.dimensions['LAY'].setunlimited(False)
    # start from a coherent file whatever the constructor path did (on a tree under test it runs the very callee replayed here)
    f.NLAYS, f.NROWS, f.NCOLS = (len(f.dimensions[k]) for k in ('LAY', 'ROW', 'COL'))
    f.dimensions['TSTEP'].setunlimited(True)
    if prepare is not None:
        prepare(f)
    snap = lambda: ({k: repr(np.asarray(getattr(f, k)).tolist()) for k in f.ncattrs() if k not in allowed_attrs},
                    {k: (len(d), bool(d.isunlimited())) for k, d in f.dimensions.items() if k not in allowed_dims},
                    sorted(k for k in f.variables if k not in allowed_vars))
    before = snap()
    try:
        call(f)
    except Exception as e:
        return False, dict(raised=type(e).__name__, message=str(e)[:160])
    after = snap()
    bad = []
    for what, b, a in zip(('attributes', 'dimensions (length, unlimited)', 'variables'), before, after):
        if b != a:
            diff = sorted(set(b) ^ set(a)) + sorted(k for k in b if k in a and b[k] != a[k]) if isinstance(b, dict) else sorted(set(b) ^ set(a))
            bad.append('%s changed outside the frame: %r' % (what, diff[:6]))
    return not bad, dict(failed=bad)


class FrameProved(Contract):
    """summary used while proving updatemeta: the callee may write the attributes / dimensions listed in WRITES (they are
    havocked here) and nothing else of the file -- that frame is a post-condition of the callee's own contract in this file
    (getVarlist[...], updatetflag[...], _updatetime); the callee's functional clauses are not needed by updatemeta"""
    prop = 'C10'
    WRITES = {'getVarlist': (('VAR-LIST', 'NVARS'), ('VAR',)),
              '_updatetime': (('CDATE', 'CTIME', 'WDATE', 'WTIME'), ()),
              'updatetflag': (('SDATE', 'STIME', 'TSTEP', 'NVARS', 'VAR-LIST', 'WDATE', 'WTIME'), ())}

    def __init__(self, qual):
        self.qual = qual
        self.target = IO + '::ioapi_base.' + qual
        self.name = qual + '[frame]'

    def apply(self, I, func, args, kwargs):
        me = func.bound if func.bound is not None else args[0]
        I.ctx.ghost.setdefault('called', []).append(self.qual)
        I.ctx.trust_contract = getattr(I.ctx, 'trust_contract', set())
        I.ctx.trust_contract.add(self.target + ' (frame proved by the contracts on %s)' % self.qual)
        attrs, dims = self.WRITES[self.qual]
        for k in attrs:
            me.attrs[k] = Opaque('%s as left by %s' % (k, self.qual))
            if k not in me.attrs.get('_ncattrs', ()):
                me.attrs['_ncattrs'] = tuple(me.attrs.get('_ncattrs', ())) + (k,)
        for d in dims:
            n = I.ctx.fresh('len_%s_after_%s' % (d, self.qual))
            I.ctx.assume(ge(n, 1))
            me.attrs['dimensions'][d] = dim_obj(I, d, n)
        return None


class UpdateMeta(Contract):
    """updatemeta: afterwards NLAYS/NCOLS/NROWS equal the dimension lengths, the TSTEP dimension is unlimited, the
    DATE-TIME dimension exists with length 2, and the variable list / time flags are refreshed (getVarlist, updatetflag called)"""
    prop = 'C10'
    target = IO + '::ioapi_base.updatemeta'
    uses = [FrameProved('getVarlist'), FrameProved('_updatetime'), FrameProved('updatetflag')]

    def __init__(self, stale, has_dt):
        self.stale, self.has_dt = stale, has_dt
        self.name = 'updatemeta[%s counts,%s DATE-TIME]' % ('stale' if stale else 'no', 'with' if has_dt else 'without')

    def inputs(self, ctx, I):
        # the defaults table is treated generically by updatemeta (every key that is not an attribute yet is set): a three-entry
        # stand-in, one of whose keys (GDTYP) is already an attribute of the file and must therefore be left alone
        ctx.modstate[(IO, '_ioapi_defaults')] = {'FTYPE': 1, 'NTHIK': 1, 'GDTYP': 1}
        self.n = dict(LAY=ctx.fresh('nlay'), ROW=ctx.fresh('nrow'), COL=ctx.fresh('ncol'), TSTEP=ctx.fresh('nt'))
        dims = {d: dim_obj(I, d, n, unlimited=ctx.fresh('unl_' + d, 'Bool')) for d, n in self.n.items()}
        if self.has_dt:
            dims['DATE-TIME'] = dim_obj(I, 'DATE-TIME', 2)
        attrs = dict(XORIG=ctx.fresh('XORIG', 'Real'), YORIG=ctx.fresh('YORIG', 'Real'), XCELL=ctx.fresh('XCELL', 'Real'), YCELL=ctx.fresh('YCELL', 'Real'),
                     VGLVLS=Opaque('VGLVLS'), VGTOP=ctx.fresh('VGTOP', 'Real'), GDTYP=ctx.fresh('GDTYP'), title='kept')
        if self.stale:
            attrs.update(NLAYS=ctx.fresh('old_nlays'), NROWS=ctx.fresh('old_nrows'), NCOLS=ctx.fresh('old_ncols'))
        f = pnc_file(I, dimensions=dims, attrs=attrs, relpath=IO, clsname='ioapi_base')
        self.a0 = dict(f.attrs)
        return dict(self=f, attdict={})

    def requires(self, inp):
        return And(*[ge(n, 0) for n in self.n.values()])

    def ensures(self, inp, res, I):
        a = inp['self'].attrs
        d = a['dimensions']
        called = I.ctx.ghost.get('called', [])
        dt = d.get('DATE-TIME')
        return [('NLAYS=len(LAY)', eq(a.get('NLAYS'), self.n['LAY'])), ('NROWS=len(ROW)', eq(a.get('NROWS'), self.n['ROW'])),
                ('NCOLS=len(COL)', eq(a.get('NCOLS'), self.n['COL'])),
                ('TSTEP-unlimited', eq(d['TSTEP'].attrs['_unlimited'], True)),
                ('DATE-TIME-dimension=2', isinstance(dt, Obj) and eq(dt.attrs['_len'], 2)),
                ('dimension-lengths-kept', And(*[eq(d[k].attrs['_len'], n) for k, n in self.n.items()])),
                ('variable-list-refreshed-then-time-flags', 'getVarlist' in called and 'updatetflag' in called and called.index('getVarlist') < called.index('updatetflag')),
                ('counts-listed-as-attributes', all(k in a['_ncattrs'] for k in ('NLAYS', 'NROWS', 'NCOLS')))] + self.frame(a)

    WRITES = ('NLAYS', 'NROWS', 'NCOLS') + tuple(sorted(set(k for w, _ in FrameProved.WRITES.values() for k in w)))

    def frame(self, a):
        # what the IOAPI wrappers rely on (C11): the grid origin, cell sizes, level attributes and every other attribute that
        # exists are the objects they were; only the counts, what the three callees may write, and ABSENT defaults are set
        changed, relisted = attr_frame(a, self.a0, self.WRITES + ('FTYPE', 'NTHIK'))
        return [('frame: no existing attribute written besides the counts and what getVarlist / _updatetime / updatetflag may write %s' % (changed or ''), not changed),
                ('frame: no other attribute listed or unlisted %s' % (relisted or ''), not relisted),
                ('absent defaults are set, present ones kept', a.get('FTYPE') == 1 and a.get('NTHIK') == 1 and a.get('GDTYP') is self.a0['GDTYP'])]


    # -- replay on the real function -----------------------------------------------------------------------------------
    def concretize(self, model, inp):
        from pyvc.verify import model_value
        return dict(stale=self.stale, has_dt=self.has_dt, n={k: model_value(model, v) for k, v in self.n.items()})

    def concretize_without_model(self, inp):
        return dict(stale=self.stale, has_dt=self.has_dt, n=dict(LAY=3, ROW=4, COL=5, TSTEP=2))

    def replay(self, c):
        from rtc import harness as H, ioapi as IOH
        P = H.real()
        out = None
        for n in (c['n'], dict(LAY=3, ROW=4, COL=5, TSTEP=2)):
            n = {k: int(v) for k, v in n.items()}
            if not all(1 <= v <= 30 for v in n.values()):
                continue
            try:
                f = IOH.make_ioapi(P, nt=n['TSTEP'], nz=n['LAY'], ny=n['ROW'], nx=n['COL'])
            except Exception as e:
                return False, dict(raised=type(e).__name__, message=str(e)[:160], dims=n, where='building an IOAPI file (updatemeta is called on the way)')
            if c['stale']:
                f.NLAYS, f.NROWS, f.NCOLS = 99, 98, 97
            else:
                for a in ('NLAYS', 'NROWS', 'NCOLS'):
                    if a in f.ncattrs():
                        delattr(f, a)
            f.dimensions['TSTEP'].setunlimited(False)
            if not c['has_dt'] and 'DATE-TIME' in f.dimensions and False:
                pass
            try:
                f.updatemeta()
            except Exception as e:
                return False, dict(raised=type(e).__name__, message=str(e)[:160], dims=n)
            num = lambda a: (int(getattr(f, a)) if hasattr(f, a) else None)
            got = dict(NLAYS=num('NLAYS'), NROWS=num('NROWS'), NCOLS=num('NCOLS'), unlimited=bool(f.dimensions['TSTEP'].isunlimited()),
                       date_time=len(f.dimensions['DATE-TIME']) if 'DATE-TIME' in f.dimensions else None)
            try:
                wf = IOH.ioapi_wf(f)
            except Exception as e:
                wf = 'invariant check raised %s: %s' % (type(e).__name__, str(e)[:80])
            ok = got == dict(NLAYS=n['LAY'], NROWS=n['ROW'], NCOLS=n['COL'], unlimited=True, date_time=2) and wf is None
            r = (ok, dict(dims=n, after=got, invariant=wf))
            if not ok:
                return r
            out = out or r
        def prepare(f):
            # attributes that also have an entry in the defaults table, moved away from the default values
            for k, v in dict(GDTYP=2, P_ALP=31., NTHIK=3, UPNAM='VERIF'.ljust(16), XORIG=-999.5).items():
                setattr(f, k, v)
        fr = frame_replay(lambda f: f.updatemeta(), self.WRITES, allowed_dims=('VAR',), allowed_vars=('TFLAG',), prepare=prepare)
        if not fr[0]:
            return fr
        return out


CONTRACTS = [UpdateMeta(s, h) for s in (False, True) for h in (False, True)]


class UpdateTime(Contract):
    """_updatetime(write, create) on a file with ARBITRARY dimensions and stale stamps: only the creation / write stamps are
    written (CDATE / CTIME when create, WDATE / WTIME when write), every other attribute, the dimensions and the variables are
    the objects they were; it never raises (the clock is an opaque value)"""
    prop = 'C10'
    target = IO + '::ioapi_base._updatetime'

    def __init__(self, write, create):
        self.write, self.create = write, create
        self.name = '_updatetime[write=%s,create=%s]' % (write, create)

    def inputs(self, ctx, I):
        ctx.modstate[(IO, '_ioapi_defaults')] = {}
        n = {d: ctx.fresh('n_' + d) for d in ('TSTEP', 'LAY', 'ROW', 'COL')}
        dims = {d: dim_obj(I, d, x, unlimited=ctx.fresh('unl_' + d, 'Bool')) for d, x in n.items()}
        attrs = dict(NLAYS=ctx.fresh('NLAYS'), NROWS=ctx.fresh('NROWS'), NCOLS=ctx.fresh('NCOLS'), SDATE=ctx.fresh('SDATE'), WDATE=ctx.fresh('old_WDATE'))
        f = pnc_file(I, dimensions=dims, attrs=attrs, relpath=IO, clsname='ioapi_base')
        self.snap = (dict(f.attrs),) + dims_snapshot(f.attrs['dimensions'])
        self.vars0 = dict(f.attrs['variables'])
        return dict(self=f, write=self.write, create=self.create)

    def ensures(self, inp, res, I):
        a = inp['self'].attrs
        a0, d0, fl0, ln0 = self.snap
        allowed = (('WDATE', 'WTIME') if self.write else ()) + (('CDATE', 'CTIME') if self.create else ())
        changed, relisted = attr_frame(a, a0, allowed)
        return [('frame: no attribute written besides %s %s' % (' / '.join(allowed) or 'none', changed or ''), not changed),
                ('frame: no other attribute listed or unlisted %s' % (relisted or ''), not relisted),
                ('the stamps asked for are listed attributes', all(k in a and k in a['_ncattrs'] for k in allowed)),
                ('frame: variables untouched', a['variables'] == self.vars0)] + dims_frame(a['dimensions'], d0, fl0, ln0)


    def concretize(self, model, inp):
        return dict(write=self.write, create=self.create)

    concretize_without_model = lambda self, inp: dict(write=self.write, create=self.create)

    def replay(self, c):
        allowed = (('WDATE', 'WTIME') if c['write'] else ()) + (('CDATE', 'CTIME') if c['create'] else ())
        def prepare(f):
            # stamps and start date moved away from today's values (the constructor has stamped the file already)
            for k in ('SDATE', 'CDATE', 'WDATE'):
                setattr(f, k, 1999001)
            for k in ('STIME', 'CTIME', 'WTIME'):
                setattr(f, k, 1)
        return frame_replay(lambda f: f._updatetime(write=c['write'], create=c['create']), allowed, prepare=prepare)


CONTRACTS += [UpdateTime(True, False), UpdateTime(True, True), UpdateTime(False, False)]


class GetVarlist(Contract):
    """getVarlist(update=True) on a file holding data variables O3, NO2 (TSTEP, LAY, ROW, COL), the time flags, a 2-d
    variable LAT (ROW, COL) -- dimension lengths, the stale NVARS value and the stale VAR length are ARBITRARY; the VAR-LIST
    attribute is absent / stale (names a variable that no longer exists) / names a variable with the wrong dimensions /
    is not a multiple of 16 characters.  Afterwards VAR-LIST lists exactly the data variables that exist with IOAPI
    dimensions, 16 characters each, in order; NVARS is their number; the VAR dimension has max(NVARS, 1) entries."""
    prop = 'C10'
    target = IO + '::ioapi_base.getVarlist'
    max_paths = 40

    PATTERNS = {
        'absent': (None, ['O3', 'NO2']),
        'stale: names a missing variable': ('OLD'.ljust(16) + 'O3'.ljust(16) + 'NO2'.ljust(16), ['O3', 'NO2']),
        'names a 2-d variable': ('O3'.ljust(16) + 'LAT'.ljust(16), ['O3']),
        'free-form (not a multiple of 16)': ('NO2 O3', ['NO2', 'O3']),
        'up to date': ('O3'.ljust(16) + 'NO2'.ljust(16), ['O3', 'NO2']),
    }

    def __init__(self, pattern, has_var_dim):
        self.pattern, self.has_var_dim = pattern, has_var_dim
        self.name = 'getVarlist[VAR-LIST %s,%s VAR dimension]' % (pattern, 'with' if has_var_dim else 'without')

    def inputs(self, ctx, I):
        from pyvc import frontend
        ctx.modstate[(IO, '_ioapi_defaults')] = {}
        n = {d: ctx.fresh('n_' + d) for d in ('TSTEP', 'LAY', 'ROW', 'COL')}
        self.nvar0, self.nvars0 = ctx.fresh('old_VAR_len'), ctx.fresh('old_NVARS')
        dims = {d: dim_obj(I, d, x) for d, x in n.items()}
        dims['DATE-TIME'] = dim_obj(I, 'DATE-TIME', 2)
        if self.has_var_dim:
            dims['VAR'] = dim_obj(I, 'VAR', self.nvar0)
        mod = frontend.load('core/_variables.py')
        node, _ = mod.find('PseudoNetCDFVariable')
        cls = I.classref(mod, node)

        def var(name, vd):
            a = sym_array(name, tuple(n.get(d, 2 if d == 'DATE-TIME' else self.nvar0) for d in vd), 'f')
            a.cls = cls
            a.attrs.update(dimensions=vd, _ncattrs=())
            return a
        std = ('TSTEP', 'LAY', 'ROW', 'COL')
        vs = dict(TFLAG=var('TFLAG', ('TSTEP', 'VAR', 'DATE-TIME')), O3=var('O3', std), LAT=var('LAT', ('ROW', 'COL')), NO2=var('NO2', std))
        attrs = dict(NVARS=self.nvars0)
        old = self.PATTERNS[self.pattern][0]
        if old is not None:
            attrs['VAR-LIST'] = old
        f = pnc_file(I, dimensions=dims, variables=vs, attrs=attrs, relpath=IO, clsname='ioapi_base')
        self.n = n
        self.snap = (dict(f.attrs),) + dims_snapshot(f.attrs['dimensions'])
        return dict(self=f)

    def requires(self, inp):
        return And(ge(self.nvar0, 0), *[ge(x, 1) for x in self.n.values()])

    def ensures(self, inp, res, I):
        a = inp['self'].attrs
        want = self.PATTERNS[self.pattern][1]
        d = a['dimensions']
        return [('returns-the-data-variables-in-order', list(res) == want if isinstance(res, list) else False),
                ('VAR-LIST = names padded to 16 characters', a.get('VAR-LIST') == ''.join(k.ljust(16) for k in want)),
                ('NVARS = number of listed variables', eq(a.get('NVARS'), len(want))),
                ('VAR dimension = max(NVARS, 1)', 'VAR' in d and eq(d['VAR'].attrs['_len'], max(len(want), 1))),
                ('other-dimensions-kept', And(*[eq(d[k].attrs['_len'], x) for k, x in self.n.items()])),
                ('variables-kept', list(a['variables'].keys()) == ['TFLAG', 'O3', 'LAT', 'NO2'])] + self.frame(a)

    def frame(self, a):
        # what updatemeta relies on: nothing but VAR-LIST / NVARS and the VAR dimension is written
        a0, d0, fl0, ln0 = self.snap
        changed, relisted = attr_frame(a, a0, ('VAR-LIST', 'NVARS'))
        return [('frame: no attribute written besides VAR-LIST and NVARS %s' % (changed or ''), not changed),
                ('frame: no other attribute listed or unlisted %s' % (relisted or ''), not relisted)] + dims_frame(a['dimensions'], d0, fl0, ln0, allowed=('VAR',))


    def concretize(self, model, inp):
        return dict(pattern=self.pattern)

    concretize_without_model = lambda self, inp: dict(pattern=self.pattern)

    def replay(self, c):
        # the frame and the listing on the real code (variables V0, V1; VAR-LIST absent / stale as in the pattern)
        def prepare(f):
            if c['pattern'] == 'absent':
                delattr(f, 'VAR-LIST')
            elif c['pattern'].startswith('stale'):
                setattr(f, 'VAR-LIST', 'OLD'.ljust(16) + 'V0'.ljust(16) + 'V1'.ljust(16))
            elif c['pattern'].startswith('free-form'):
                setattr(f, 'VAR-LIST', 'V1 V0')
            f.NVARS = 7
        got = {}

        def call(f):
            got['names'] = list(f.getVarlist(update=True))
            got['attr'] = getattr(f, 'VAR-LIST', None)
            got['nvars'] = int(f.NVARS)
        ok, d = frame_replay(call, ('VAR-LIST', 'NVARS'), allowed_dims=('VAR',), prepare=prepare)
        if ok:
            want = ['V1', 'V0'] if c['pattern'].startswith('free-form') else ['V0', 'V1']
            if got.get('names') != want or got.get('attr') != ''.join(k.ljust(16) for k in want) or got.get('nvars') != 2:
                return False, dict(pattern=c['pattern'], got=got, expected=want)
        return ok, d


CONTRACTS += [GetVarlist(p, h) for p in GetVarlist.PATTERNS for h in (True, False)]


class Add2Varlist(Contract):
    """_add2Varlist(new names) on a file whose VAR-LIST already names data variables -- one of them with a full-width
    (16 character) name, so that the stored text has no blank between two names; sizes arbitrary: afterwards NVARS is the
    number of listed variables that exist, every new IOAPI variable is appended exactly once (16 characters), variables
    that do not exist or are not IOAPI data variables are not added, nothing already listed is duplicated."""
    prop = 'C10'
    target = IO + '::ioapi_base._add2Varlist'
    max_paths = 40

    CASES = {
        'one new variable after a 16-character name': (['O3', 'A234567890123456'], ['NEW'], ['O3', 'A234567890123456', 'NEW']),
        '16-character name followed by another listed name': (['A234567890123456', 'O3'], ['NEW'], ['A234567890123456', 'O3', 'NEW']),
        'already listed name offered again': (['O3', 'A234567890123456'], ['A234567890123456', 'O3'], ['O3', 'A234567890123456']),
        'new 16-character name': (['O3'], ['B234567890123456', 'NEW'], ['O3', 'B234567890123456', 'NEW']),
        'a 2-d variable and a missing variable are not added': (['O3'], ['LAT', 'GHOST', 'NEW'], ['O3', 'NEW']),
        'time flags are never listed': (['O3'], ['TFLAG', 'NEW'], ['O3', 'NEW']),
    }

    def __init__(self, case):
        self.case = case
        self.listed, self.offered, self.want = self.CASES[case]
        self.name = '_add2Varlist[%s]' % case

    def inputs(self, ctx, I):
        from pyvc import frontend
        ctx.modstate[(IO, '_ioapi_defaults')] = {}
        n = {d: ctx.fresh('n_' + d) for d in ('TSTEP', 'LAY', 'ROW', 'COL')}
        self.n = n
        dims = {d: dim_obj(I, d, x) for d, x in n.items()}
        dims['DATE-TIME'] = dim_obj(I, 'DATE-TIME', 2)
        dims['VAR'] = dim_obj(I, 'VAR', len(self.listed))
        mod = frontend.load('core/_variables.py')
        cls = I.classref(mod, mod.find('PseudoNetCDFVariable')[0])

        def var(name, vd):
            a = sym_array('v_' + name[:6], tuple(n.get(d, 2 if d == 'DATE-TIME' else len(self.listed)) for d in vd), 'f')
            a.cls = cls
            a.attrs.update(dimensions=vd, _ncattrs=())
            return a
        std = ('TSTEP', 'LAY', 'ROW', 'COL')
        vs = dict(TFLAG=var('TFLAG', ('TSTEP', 'VAR', 'DATE-TIME')), LAT=var('LAT', ('ROW', 'COL')))
        for k in set(self.listed + [x for x in self.offered if x not in ('LAT', 'GHOST', 'TFLAG')]):
            vs[k] = var(k, std)
        f = pnc_file(I, dimensions=dims, variables=vs, attrs={'NVARS': ctx.fresh('old_NVARS'), 'VAR-LIST': ''.join(k.ljust(16) for k in self.listed)},
                     relpath=IO, clsname='ioapi_base')
        return dict(self=f, varkeys=list(self.offered))

    def requires(self, inp):
        return And(*[ge(x, 1) for x in self.n.values()])

    def ensures(self, inp, res, I):
        a = inp['self'].attrs
        return [('VAR-LIST = the listed names, each once, 16 characters each', a.get('VAR-LIST') == ''.join(k.ljust(16) for k in self.want)),
                ('NVARS = number of listed variables', eq(a.get('NVARS'), len(self.want))),
                ('returns the listed names', list(res) == self.want if isinstance(res, list) else False)]


CONTRACTS += [Add2Varlist(c) for c in Add2Varlist.CASES]


class UpdateTflag(Contract):
    """updatetflag(overwrite=True) on a file with SDATE / STIME / TSTEP attributes, ARBITRARY numbers of steps and of
    variables: the regenerated TFLAG has shape (steps, NVARS, 2); for every step t and every variable column v the pair
    (TFLAG[t, v, 0], TFLAG[t, v, 1]) is a VALID (YYYYJJJ, HHMMSS) flag that denotes the instant start + t * step; SDATE/STIME
    are the first flag afterwards (and denote the same instant as before)."""
    prop = 'C10'
    target = IO + '::ioapi_base.updatetflag'
    max_paths = 40

    def __init__(self, had_tflag):
        self.had = had_tflag
        self.name = 'updatetflag[overwrite,%s old TFLAG]' % ('with' if had_tflag else 'without')

    def inputs(self, ctx, I):
        from pyvc import frontend
        ctx.modstate[(IO, '_ioapi_defaults')] = {}
        self.nt, self.nv = ctx.fresh('nsteps'), ctx.fresh('nvars')
        self.sdate, self.stime, self.tstep = ctx.fresh('SDATE'), ctx.fresh('STIME'), ctx.fresh('TSTEP')
        dims = {'TSTEP': dim_obj(I, 'TSTEP', self.nt, unlimited=True), 'VAR': dim_obj(I, 'VAR', self.nv), 'DATE-TIME': dim_obj(I, 'DATE-TIME', 2)}
        vs = {}
        if self.had:
            mod = frontend.load('core/_variables.py')
            node, _ = mod.find('PseudoNetCDFVariable')
            a = sym_array('old_TFLAG', (self.nt, self.nv, 2), 'i')
            a.cls = I.classref(mod, node)
            a.attrs.update(dimensions=('TSTEP', 'VAR', 'DATE-TIME'), _ncattrs=())
            vs['TFLAG'] = a
        f = pnc_file(I, dimensions=dims, variables=vs, attrs=dict(SDATE=self.sdate, STIME=self.stime, TSTEP=self.tstep, NVARS=self.nv),
                     relpath=IO, clsname='ioapi_base')
        self.snap = (dict(f.attrs),) + dims_snapshot(f.attrs['dimensions'])
        return dict(self=f, overwrite=True)

    def requires(self, inp):
        from pyvc.dt import days_in_year
        y, j = sym.floordiv(self.sdate, 1000), sym.mod(self.sdate, 1000)
        h, m, sec = sym.floordiv(self.stime, 10000), sym.mod(sym.floordiv(self.stime, 100), 100), sym.mod(self.stime, 100)
        th, tm, ts = sym.floordiv(self.tstep, 10000), sym.mod(sym.floordiv(self.tstep, 100), 100), sym.mod(self.tstep, 100)
        return And(ge(self.nt, 1), ge(self.nv, 1), ge(y, 1), le(y, 9000), ge(j, 1), le(j, days_in_year(y)),
                   ge(self.stime, 0), lt(h, 24), lt(m, 60), lt(sec, 60), gt(self.tstep, 0), lt(tm, 60), lt(ts, 60), le(th, 1000), le(self.nt, 100000))

    def small(self, inp):
        # counter-model search: a concrete start (last hour of a leap year) and hourly steps, up to 3 steps and 2 variables
        return And(le(self.nt, 3), le(self.nv, 2), eq(self.sdate, 2020366), eq(self.stime, 230000), eq(self.tstep, 10000))

    def ensures(self, inp, res, I):
        from pyvc.dt import instant_yyyyjjj, days_in_year
        a = inp['self'].attrs
        tf = a['variables'].get('TFLAG')
        if not isinstance(tf, SArr) or tf.ndim != 3:
            return [('TFLAG-regenerated', False)]
        t, v = z3.Int('t'), z3.Int('v')
        rng = And(ge(t, 0), lt(t, self.nt), ge(v, 0), lt(v, self.nv))
        d, tm = tf.get(t, v, 0), tf.get(t, v, 1)
        step_s = add(add(mul(sym.floordiv(self.tstep, 10000), 3600), mul(sym.mod(sym.floordiv(self.tstep, 100), 100), 60)), sym.mod(self.tstep, 100))
        start = instant_yyyyjjj(self.sdate, self.stime)
        y, j = sym.floordiv(d, 1000), sym.mod(d, 1000)
        valid = And(ge(y, 1), ge(j, 1), le(j, days_in_year(y)), ge(tm, 0), lt(sym.floordiv(tm, 10000), 24),
                    lt(sym.mod(sym.floordiv(tm, 100), 100), 60), lt(sym.mod(tm, 100), 60))
        return [('shape = (steps, NVARS, 2)', And(eq(tf.shape[0], self.nt), eq(tf.shape[1], self.nv), eq(tf.shape[2], 2))),
                ('dimensions', tuple(tf.attrs.get('dimensions', ())) == ('TSTEP', 'VAR', 'DATE-TIME')),
                ('every flag is a valid (YYYYJJJ, HHMMSS) pair', Implies(rng, valid)),
                ('flag t denotes start + t * step, in every variable column', Implies(rng, eq(instant_yyyyjjj(d, tm), add(start, mul(t, step_s))))),
                ('SDATE/STIME are the first flag', And(eq(a['SDATE'], tf.get(0, 0, 0)), eq(a['STIME'], tf.get(0, 0, 1)))),
                ('start instant unchanged', eq(instant_yyyyjjj(a['SDATE'], a['STIME']), start)),
                ('TSTEP unchanged', eq(a['TSTEP'], self.tstep))] + self.frame(a)

    def frame(self, a):
        # what updatemeta relies on: only the start date / time (and step) attributes, the variable list (TFLAG is created through
        # createVariable), the write stamp and the TFLAG variable are written -- not the grid counts, not the dimensions
        a0, d0, fl0, ln0 = self.snap
        changed, relisted = attr_frame(a, a0, ('SDATE', 'STIME', 'TSTEP', 'NVARS', 'VAR-LIST', 'WDATE', 'WTIME'))
        return [('frame: no attribute written besides SDATE / STIME / TSTEP, NVARS / VAR-LIST, WDATE / WTIME %s' % (changed or ''), not changed),
                ('frame: no other attribute listed or unlisted %s' % (relisted or ''), not relisted),
                ('frame: no variable besides TFLAG added or removed', sorted(k for k in a['variables'] if k != 'TFLAG') == [])] + dims_frame(a['dimensions'], d0, fl0, ln0)


    # -- replay on the real function (independent julian arithmetic as the reference) ---------------------------------
    def concretize(self, model, inp):
        from pyvc.verify import model_value
        return {k: model_value(model, getattr(self, k)) for k in ('nt', 'nv', 'sdate', 'stime', 'tstep')}

    def concretize_without_model(self, inp):
        return dict(nt=3, nv=2, sdate=2020366, stime=230000, tstep=10000)

    def replay(self, c):
        import datetime
        import numpy as np
        from rtc import harness as H, ioapi as IOH
        P = H.real()
        out = None
        for cand in (c, dict(nt=3, nv=2, sdate=2020366, stime=230000, tstep=10000)):
            nt, nv, sdate, stime, tstep = (int(cand[k]) for k in ('nt', 'nv', 'sdate', 'stime', 'tstep'))
            if not (1 <= nt <= 200 and 1 <= nv <= 5 and 1000 <= sdate // 1000 <= 9000):
                continue
            f = IOH.make_ioapi(P, nt=nt, nvars=nv, sdate=sdate, stime=stime, tstep=tstep)
            try:
                f.updatetflag(overwrite=True)
                tf = np.asarray(f.variables['TFLAG'][...])
                f.getTimes()
            except Exception as e:
                return False, dict(steps=nt, nvars=nv, SDATE=sdate, STIME=stime, TSTEP=tstep, raised=type(e).__name__, message=str(e)[:160],
                                   SDATE_after=repr(getattr(f, 'SDATE', None)), STIME_after=repr(getattr(f, 'STIME', None)))
            t0 = datetime.datetime(sdate // 1000, 1, 1) + datetime.timedelta(days=sdate % 1000 - 1, hours=stime // 10000, minutes=stime // 100 % 100, seconds=stime % 100)
            dt = datetime.timedelta(hours=tstep // 10000, minutes=tstep // 100 % 100, seconds=tstep % 100)
            exp = [(int((t0 + i * dt).strftime('%Y%j')), int((t0 + i * dt).strftime('%H%M%S'))) for i in range(nt)]
            ok = tf.shape == (nt, nv, 2) and all(tuple(int(x) for x in tf[i, v]) == exp[i] for i in range(nt) for v in range(nv)) \
                and (int(f.SDATE), int(f.STIME)) == exp[0] and int(f.TSTEP) == tstep
            r = (ok, dict(steps=nt, nvars=nv, SDATE=sdate, STIME=stime, TSTEP=tstep, TFLAG_first_column=tf[:, 0].tolist()[:4], expected=exp[:4],
                          SDATE_after=int(f.SDATE), STIME_after=int(f.STIME)))
            if not ok:
                return r
            out = out or r
        fr = frame_replay(lambda f: f.updatetflag(overwrite=True), ('SDATE', 'STIME', 'TSTEP', 'NVARS', 'VAR-LIST', 'WDATE', 'WTIME'), allowed_vars=('TFLAG',),
                          prepare=None if self.had else (lambda f: f.variables.pop('TFLAG')))
        if not fr[0]:
            return fr
        return out


CONTRACTS += [UpdateTflag(False), UpdateTflag(True)]


class IoapiOp(Contract):
    """the IOAPI wrappers subsetVariables / renameVariable / copy on a coherent IOAPI file (dimension lengths and number of
    steps ARBITRARY; data variables O3, NO2, NO; every callee executed in line): afterwards VAR-LIST names exactly the data
    variables of the result (16 characters each, in order), NVARS is their number, the VAR dimension and the variable axis of
    TFLAG have that length, NLAYS/NROWS/NCOLS equal the dimension lengths, TSTEP is unlimited, the data variables are
    element-wise the source's and the source file is unchanged."""
    prop = 'C10'
    max_paths = 60
    budget_s = 200
    ignore = ('call:datetime/pre:valid-fields',)     # whether the EXISTING time flags are valid dates is C12's business

    OPS = {
        'subsetVariables([O3, NO])': ('subsetVariables', [['O3', 'NO']], {}, ['O3', 'NO'], {}),
        'subsetVariables([NO2], exclude)': ('subsetVariables', [['NO2']], dict(exclude=True), ['O3', 'NO'], {}),
        'renameVariable(NO2 -> NOX)': ('renameVariable', ['NO2', 'NOX'], {}, ['O3', 'NO', 'NOX'], {'NOX': 'NO2'}),
        'copy': ('copy', [], {}, ['O3', 'NO2', 'NO'], {}),
        # a function applied along TSTEP: the data are numpy's business (C03); the meta-data must stay coherent and the
        # time flags must be regenerated from SDATE/STIME/TSTEP, not averaged
        'applyAlongDimensions(TSTEP=mean)': ('applyAlongDimensions', [], dict(TSTEP='mean'), ['O3', 'NO2', 'NO'], None),
    }

    def __init__(self, op):
        self.op = op
        self.meth, self.args, self.kw, self.want, self.alias = self.OPS[op]
        # renameVariable is inherited: the base method, run on an IOAPI receiver, dispatches to the IOAPI renameVariables
        self.target = ('core/_files.py::PseudoNetCDFFile.' if self.meth == 'renameVariable' else IO + '::ioapi_base.') + self.meth
        self.name = 'ioapi.' + op

    def inputs(self, ctx, I):
        from pyvc import frontend
        ctx.modstate[(IO, '_ioapi_defaults')] = {}
        n = {d: ctx.fresh('n_' + d) for d in ('TSTEP', 'LAY', 'ROW', 'COL')}
        self.n = n
        dims = {d: dim_obj(I, d, x, unlimited=(d == 'TSTEP')) for d, x in n.items()}
        dims['VAR'] = dim_obj(I, 'VAR', 3)
        dims['DATE-TIME'] = dim_obj(I, 'DATE-TIME', 2)
        mod = frontend.load('core/_variables.py')
        cls = I.classref(mod, mod.find('PseudoNetCDFVariable')[0])

        def var(name, vd, shape, kind='f', **atts):
            a = sym_array(name, shape, kind)
            a.cls = cls
            a.attrs.update(dimensions=vd, _ncattrs=tuple(atts), **atts)
            return a
        std = ('TSTEP', 'LAY', 'ROW', 'COL')
        shp = tuple(n[d] for d in std)
        self.data = {k: var(k, std, shp, long_name=k.ljust(16), units='ppmV'.ljust(16), var_desc=k.ljust(80)) for k in ('O3', 'NO2', 'NO')}
        self.pre = {k: a.buf.get for k, a in self.data.items()}
        self.sdate, self.stime, self.tstep = ctx.fresh('SDATE'), ctx.fresh('STIME'), ctx.fresh('TSTEP')
        tf = var('TFLAG', ('TSTEP', 'VAR', 'DATE-TIME'), (n['TSTEP'], 3, 2), 'i', units='<YYYYDDD,HHMMSS>', long_name='TFLAG'.ljust(16), var_desc='flags'.ljust(80))
        vs = dict(TFLAG=tf)
        vs.update(self.data)
        attrs = {'NVARS': 3, 'VAR-LIST': ''.join(k.ljust(16) for k in ('O3', 'NO2', 'NO')), 'SDATE': self.sdate, 'STIME': self.stime, 'TSTEP': self.tstep,
                 'NLAYS': n['LAY'], 'NROWS': n['ROW'], 'NCOLS': n['COL'], 'FTYPE': 1}
        f = pnc_file(I, dimensions=dims, variables=vs, attrs=attrs, relpath=IO, clsname='ioapi_base')
        self.f = f
        return dict(self=f)

    def call_args(self, inp):
        return [inp['self']] + [list(a) if isinstance(a, list) else a for a in self.args], dict(self.kw)

    def requires(self, inp):
        from pyvc.dt import days_in_year
        y, j = sym.floordiv(self.sdate, 1000), sym.mod(self.sdate, 1000)
        h, m, sec = sym.floordiv(self.stime, 10000), sym.mod(sym.floordiv(self.stime, 100), 100), sym.mod(self.stime, 100)
        return And(*[ge(x, 1) for x in self.n.values()], le(self.n['TSTEP'], 100000), ge(y, 1), le(y, 9000), ge(j, 1), le(j, days_in_year(y)),
                   ge(self.stime, 0), lt(h, 24), lt(m, 60), lt(sec, 60), gt(self.tstep, 0), lt(sym.mod(sym.floordiv(self.tstep, 100), 100), 60),
                   lt(sym.mod(self.tstep, 100), 60), le(sym.floordiv(self.tstep, 10000), 1000))

    def small(self, inp):
        return And(*[le(x, 2) for x in self.n.values()], eq(self.sdate, 2020366), eq(self.stime, 230000), eq(self.tstep, 10000))

    def ensures(self, inp, res, I):
        if not hasattr(res, 'attrs') or 'variables' not in res.attrs:
            return [('returns-file', False)]
        a, vs, d = res.attrs, res.attrs['variables'], res.attrs['dimensions']
        want = self.want
        data_names = [k for k in vs if k not in ('TFLAG', 'ETFLAG')]
        tf = vs.get('TFLAG')
        n = dict(self.n)
        if 'TSTEP' in self.kw:
            n['TSTEP'] = 1
        out = [('is-a-new-file', res is not self.f),
               ('data variables of the result', sorted(data_names) == sorted(want)),
               ('VAR-LIST names exactly the data variables, 16 characters each', isinstance(a.get('VAR-LIST'), str) and len(a['VAR-LIST']) == 16 * len(want)
                and sorted(a['VAR-LIST'][i:i + 16].strip() for i in range(0, len(a['VAR-LIST']), 16)) == sorted(want)),
               ('NVARS = number of data variables', eq(a.get('NVARS'), len(want))),
               ('VAR dimension = NVARS', 'VAR' in d and eq(d['VAR'].attrs['_len'], len(want))),
               ('TFLAG has one column per data variable', isinstance(tf, SArr) and tf.ndim == 3 and And(eq(tf.shape[0], n['TSTEP']), eq(tf.shape[1], len(want)), eq(tf.shape[2], 2))),
               ('NLAYS/NROWS/NCOLS = dimension lengths', And(eq(a.get('NLAYS'), n['LAY']), eq(a.get('NROWS'), n['ROW']), eq(a.get('NCOLS'), n['COL']),
                                                           *[eq(d[k].attrs['_len'], x) for k, x in n.items() if k in d])),
               ('TSTEP unlimited', 'TSTEP' in d and eq(d['TSTEP'].attrs['_unlimited'], True)),
               ('step attribute kept', eq(a.get('TSTEP'), self.tstep))]
        q = tuple(z3.Int('q%d' % k) for k in range(4))
        rng = And(*[And(ge(i, 0), lt(i, self.n[dk])) for i, dk in zip(q, ('TSTEP', 'LAY', 'ROW', 'COL'))])
        if self.alias is None:
            # the first regenerated flag denotes the start instant, in every variable column
            from pyvc.dt import instant_yyyyjjj
            v = z3.Int('v')
            if isinstance(tf, SArr) and tf.ndim == 3:
                out.append(('time flags regenerated from SDATE/STIME: the flag denotes the start instant, in every variable column',
                            Implies(And(ge(v, 0), lt(v, len(want))), eq(instant_yyyyjjj(tf.get(0, v, 0), tf.get(0, v, 1)), instant_yyyyjjj(self.sdate, self.stime)))))
        for k in (want if self.alias is not None else []):
            X = vs.get(k)
            src = self.alias.get(k, k)
            if isinstance(X, SArr) and X.ndim == 4:
                out.append(('%s: element-wise the source variable %s' % (k, src), Implies(rng, eq(X.get(q), self.pre[src](q)))))
                out.append(('%s: fresh buffer' % k, all(X.buf is not b.buf for b in self.data.values())))
        out.append(('source file unchanged', And(Implies(rng, And(*[eq(b.buf.get(q), self.pre[k](q)) for k, b in self.data.items()])),
                                                eq(self.f.attrs.get('NVARS'), 3), self.f.attrs.get('VAR-LIST') == ''.join(k.ljust(16) for k in ('O3', 'NO2', 'NO')),
                                                sorted(self.f.attrs['variables'].keys()) == ['NO', 'NO2', 'O3', 'TFLAG'])))
        return out


    # -- replay on the real function (generated IOAPI file; O3, NO2, NO stand for its variables V0, V1, V2) ---------------
    def concretize(self, model, inp):
        from pyvc.verify import model_value
        return dict(op=self.op, n={k: model_value(model, v) for k, v in self.n.items()})

    def concretize_without_model(self, inp):
        return dict(op=self.op, n=dict(TSTEP=3, LAY=2, ROW=3, COL=4))

    def replay(self, c):
        import numpy as np
        from rtc import harness as H, ioapi as IOH
        P = H.real()
        m = {'O3': 'V0', 'NO2': 'V1', 'NO': 'V2', 'NOX': 'NOX'}
        tr = lambda x: [m.get(y, y) for y in x] if isinstance(x, list) else m.get(x, x)
        for n in (c['n'], dict(TSTEP=3, LAY=2, ROW=3, COL=4)):
            n = {k: int(v) for k, v in n.items()}
            if not all(1 <= v <= 12 for v in n.values()):
                continue
            f = IOH.make_ioapi(P, nt=n['TSTEP'], nz=n['LAY'], ny=n['ROW'], nx=n['COL'], nvars=3, sdate=2020366, stime=230000)
            before = {k: np.asarray(f.variables[k][...]).copy() for k in ('V0', 'V1', 'V2')}
            try:
                g = getattr(f, self.meth)(*[tr(a) for a in self.args], **self.kw)
            except Exception as e:
                return False, dict(raised=type(e).__name__, message=str(e)[:160], op=self.op, sizes=n)
            want = tr(list(self.want))
            bad = []
            wf = IOH.ioapi_wf(g)
            if wf:
                bad.append('invariant: ' + wf)
            names = [k for k in g.variables if k not in ('TFLAG', 'ETFLAG')]
            if sorted(names) != sorted(want):
                bad.append('variables %r expected %r' % (names, want))
            for k in want:
                src = 'V1' if k == 'NOX' else k
                if self.alias is not None and k in g.variables and not np.array_equal(np.asarray(g.variables[k][...]), before[src]):
                    bad.append('%s differs from the source variable %s' % (k, src))
            for k, b in before.items():
                if k not in f.variables or not np.array_equal(np.asarray(f.variables[k][...]), b):
                    bad.append('source variable %s changed' % k)
            if IOH.ioapi_wf(f):
                bad.append('source invariant: ' + IOH.ioapi_wf(f))
            if bad:
                return False, dict(op=self.op, sizes=n, failed=bad)
        return True, dict(op=self.op)


CONTRACTS += [IoapiOp(k) for k in IoapiOp.OPS]



def ioapi_ops(f, np):
    """in-domain operations on an IOAPI file: (name, thunk) """
    nt, nz = len(f.dimensions['TSTEP']), len(f.dimensions['LAY'])
    grid = 'ROW' in f.dimensions
    # data variables = the ones VAR-LIST names (coordinate variables such as layer/time/x/y of a GRIDDESC file are
    # not IOAPI data variables); a rename targets a name that is not in use (renaming onto an existing variable
    # replaces it -- netCDF4 refuses that -- and is outside the property's domain)
    listed = [f.getncattr('VAR-LIST')[i:i + 16].strip() for i in range(0, len(f.getncattr('VAR-LIST')), 16)] if 'VAR-LIST' in f.ncattrs() else []
    names = [k for k in listed if k in f.variables] or [k for k in f.variables if k not in ('TFLAG', 'ETFLAG')]
    fresh = next('RENAMED%s' % (i or '') for i in range(100) if 'RENAMED%s' % (i or '') not in f.variables)
    ops = [
        ('copy', lambda f: f.copy()),
        ('copy(data=False)', lambda f: f.copy(data=False)),
        ('slice(TSTEP=0)', lambda f: f.sliceDimensions(TSTEP=0)),
        ('slice(TSTEP=slice(1,3))', lambda f: f.sliceDimensions(TSTEP=slice(1, 3))),
        ('slice(TSTEP=slice(None,None,-1))', lambda f: f.sliceDimensions(TSTEP=slice(None, None, -1))),
        ('slice(TSTEP=[2,0])', lambda f: f.sliceDimensions(TSTEP=[2, 0])),
        ('slice(LAY=0)', lambda f: f.sliceDimensions(LAY=0)),
        ('slice(LAY=slice(1,None))', lambda f: f.sliceDimensions(LAY=slice(1, None))),
        ('subset(first)', lambda f: f.subsetVariables(names[:1])),
        ('renameVariable', lambda f: f.renameVariable(names[0], fresh)),
        ('renameVariable(identity)', lambda f: f.renameVariable(names[0], names[0])),
        ('apply(TSTEP=mean)', lambda f: f.applyAlongDimensions(TSTEP='mean')),
        ('apply(TSTEP=x[::-1])', lambda f: f.applyAlongDimensions(TSTEP=lambda x: x[::-1])),
        ('apply(TSTEP=roll)', lambda f: f.applyAlongDimensions(TSTEP=lambda x: np.roll(x, 1))),
        ('apply(TSTEP=cumsum)', lambda f: f.applyAlongDimensions(TSTEP=np.cumsum)),
        ('apply(LAY=mean)', lambda f: f.applyAlongDimensions(LAY='mean')),
        ('apply(LAY=x[::2])', lambda f: f.applyAlongDimensions(LAY=lambda x: x[::2])),
        ('eval(new)', lambda f: f.eval('NEWV = %s[:] * 2' % names[0])),
        ('eval(new,copyall)', lambda f: f.eval('NEWV = %s[:] * 2' % names[0], copyall=True)),
        ('mask(greater)', lambda f: f.mask(greater=0.5)),
        ('stack(TSTEP)', lambda f: f.stack([f], 'TSTEP')),
        ('interpSigma', lambda f: f.interpSigma(np.array([1., 0.5, 0.]), interptype='linear')),
    ]
    if len(names) > 1:
        ops.append(('subset(exclude first)', lambda f: f.subsetVariables(names[:1], exclude=True)))
    if grid and len(f.dimensions['ROW']) >= 2 and len(f.dimensions['COL']) >= 4:
        ops += [('slice(ROW=1)', lambda f: f.sliceDimensions(ROW=1)),
                ('slice(COL=slice(2,4))', lambda f: f.sliceDimensions(COL=slice(2, 4))),
                ('slice(ROW=-1,COL=0)', lambda f: f.sliceDimensions(ROW=-1, COL=0)),
                ('apply(ROW=mean)', lambda f: f.applyAlongDimensions(ROW='mean'))]
    return ops


def bounded(tier, seed):
    from rtc import harness as H, ioapi as IO
    import numpy as np
    import os, tempfile, shutil
    P = H.real()
    run = H.Run('C10', tier, seed, budget_s=90 if tier == 'quick' else 600)
    depth = 2 if tier == 'quick' else 3
    tmp = tempfile.mkdtemp(prefix='verif_c10_')
    try:
        sources = [('gridded from arrays', lambda: IO.make_ioapi(P, seed=seed)),
                   ('boundary from arrays', lambda: IO.make_ioapi(P, boundary=True, seed=seed)),
                   ('daily steps', lambda: IO.make_ioapi(P, tstep=240000, sdate=2020059, stime=0, seed=seed)),
                   # a full-width (16 character) variable name: VAR-LIST has no blank between it and the next name
                   ('16-character variable name', lambda: IO.make_ioapi(P, seed=seed, names=['V0', 'A234567890123456', 'V2']))]

        def from_disk():
            f = IO.make_ioapi(P, seed=seed)
            p = os.path.join(tmp, 'io.nc')
            f.save(p, format='NETCDF3_CLASSIC', verbose=0).close()
            from PseudoNetCDF import pncopen
            return pncopen(p, format='ioapi')
        sources.append(('re-read from disk', from_disk))

        def from_griddesc():
            from PseudoNetCDF.cmaqfiles import griddesc
            gd = os.path.join(tmp, 'GRIDDESC')
            open(gd, 'w').write("' '\n'LCC'\n  2 33.000 45.000 -97.000 -97.000 40.000\n' '\n'TESTGRID'\n'LCC' -1000.0 500.0 12000.0 4000.0 6 5 1\n' '\n")
            g = griddesc(gd, GDNAM='TESTGRID', nsteps=4, var_kwds=dict(V0=dict(units='ppm'), V1=dict(units='ppm')), VGLVLS=np.array([1., .8, .4, 0.], 'f'))
            return g
        sources.append(('from GRIDDESC text', from_griddesc))

        def from_griddesc_subhourly():
            # a dated, sub-hourly file from GRIDDESC text: it carries time flags AND a synthesised CF time variable
            from PseudoNetCDF.cmaqfiles import griddesc
            gd = os.path.join(tmp, 'GRIDDESC2')
            open(gd, 'w').write("' '\n'LCC'\n  2 33.000 45.000 -97.000 -97.000 40.000\n' '\n'TESTGRID'\n'LCC' -1000.0 500.0 12000.0 4000.0 6 5 1\n' '\n")
            g = griddesc(gd, GDNAM='TESTGRID', SDATE=2020001, STIME=3000, TSTEP=1500, nsteps=5, var_kwds=dict(V0=dict(units='ppm'), V1=dict(units='ppm')),
                         VGLVLS=np.array([1., .8, .4, 0.], 'f'))
            # the CF variables are coordinates: declared as such, mask() leaves them alone (undeclared, a masked time variable makes
            # the next time decoding raise -- an exception, not an incoherent file)
            g.setCoords([k for k in ('time', 'time_bounds', 'layer', 'level', 'x', 'y', 'latitude', 'longitude') if k in g.variables])
            return g
        sources.append(('from GRIDDESC text, sub-hourly steps', from_griddesc_subhourly))
        for sname, mk in sources:
            res = {}
            if not run.case('C10:source:' + sname, sname, lambda: (res.__setitem__('f', mk()), IO.ioapi_wf(res['f']))[1]):
                continue
            f0 = res['f']

            def rec(f, names, lvl):
                if run.out_of_time():
                    return
                for nm, ap in ioapi_ops(f, np):
                    seq = names + [nm]
                    out = {}

                    def t():
                        out['g'] = ap(f)
                        return IO.ioapi_wf(out['g'])
                    try_ok = run.case('C10:after %s' % nm, (sname, seq), t)
                    g = out.get('g')
                    if try_ok and g is not None and lvl + 1 < depth and all(d in g.dimensions for d in ('TSTEP', 'LAY')) and len(g.dimensions['TSTEP']) >= 3 and len(g.dimensions['LAY']) >= 2:
                        rec(g, seq, lvl + 1)
            rec(f0, [], 0)
    finally:
        shutil.rmtree(tmp, ignore_errors=True)
    return run.result(
        rule='ioapi_wf (NVARS = |VAR-LIST| = VAR = TFLAG axis; listed variables exist with standard dimensions; NROWS/NCOLS/NLAYS = dimension lengths; |VGLVLS| = NLAYS+1; '
             'SDATE/STIME = TFLAG[0,0]; TSTEP unlimited) as run-time post-condition after every operation sequence',
        bound='IOAPI files gridded/boundary/daily/from disk/from GRIDDESC (time independent, and dated with 15-minute steps) (4-5 steps, 3 layers, 5x6); all sequences of length <= %d over ~22 operations' % depth)


def bounded_replay(p):
    return False, p.get('what')


META = dict(
    level='other',
    technique='updatemeta (callee frames proved, not assumed), _updatetime, getVarlist, updatetflag and the IOAPI wrappers subsetVariables / renameVariable / copy (every callee in line) proved by pyvc (calendar arithmetic with a trusted strftime model, arithmetic hints validated by the solver); '
              'the full coherence invariant by bounded run-time contract over operation sequences',
    text='Proved: (1) updatemeta, any dimension lengths and stale attribute values: NLAYS/NROWS/NCOLS equal the dimension lengths, TSTEP unlimited, DATE-TIME = 2, variable list '
         'refreshed before the time flags; (2) getVarlist for five VAR-LIST patterns (absent / stale / wrong dimensions / free-form / up to date) on files of arbitrary size: VAR-LIST '
         'names exactly the existing IOAPI data variables at 16 characters each, NVARS is their number, VAR = max(NVARS, 1); (3) updatetflag(overwrite) for ANY start date / time / step '
         'and any numbers of steps and variables: every regenerated flag is a valid (YYYYJJJ, HHMMSS) pair denoting start + t*step in every variable column, SDATE/STIME are the first '
         'flag and denote the same instant as before; (4) the IOAPI wrappers subsetVariables (include / exclude), renameVariable and copy on a coherent file of arbitrary size: VAR-LIST names exactly the '
         'data variables of the result, NVARS / VAR / the variable axis of TFLAG have that number, NLAYS/NROWS/NCOLS = dimension lengths, TSTEP unlimited, data element-wise the source, source unchanged. Bounded: the complete ioapi_wf invariant after every operation sequence of the stated bound.',
    note='inside updatemeta the three callees are summarised by their frames (what they may write is havocked), and each frame is a proved post-condition of the contract on that callee here; the variable names of the getVarlist instances are concrete; '
         'datetime.strftime is a trusted model (inverse of the day-number map). Operation wrappers (slice/apply/eval/stack...) are bounded only.',
    assumptions=["datetime.strftime('%Y%j'/'%H%M%S') as modelled in pyvc/dt.py (trusted); datetime.now() arbitrary"],
    explanation='mixed: proof obligations for updatemeta / getVarlist / updatetflag + bounded exploration of operation sequences')
