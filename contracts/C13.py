"""C13 -- memory-mapped and record-based CAMx readers agree.

Contracts on camxfiles/timetuple.py and on the seek arithmetic of
camxfiles/uamiv/Read.py; the Memmap side (block sizes from the structured
dtype) is in the layout contracts (C13L below).
"""
import z3
from .common import *   # noqa

TT = 'camxfiles/timetuple.py'
UR = 'camxfiles/uamiv/Read.py'


# ---------------------------------------------------------------------------
# timetuple
# ---------------------------------------------------------------------------

def T(date, time, eod):
    """total time of a (date, time) tuple"""
    return add(mul(date, eod), time)


class TimeAdd(Contract):
    """timeadd conserves total time and normalises 0 <= time < eod when the sum
    of the two time parts lies in [-eod, 2*eod)"""
    prop = 'C13'
    target = TT + '::timeadd'
    result_sort = ('Int', 'Real')

    def __init__(self, eod):
        self.eod = eod
        self.name = 'timeadd[eod=%s]' % eod

    def inputs(self, ctx, I):
        return dict(datetime1=(ctx.fresh('date1'), ctx.fresh('time1', 'Real')),
                    datetime2=(ctx.fresh('date2'), ctx.fresh('time2', 'Real')),
                    eod=self.eod)

    def requires(self, inp):
        (d1, t1), (d2, t2) = inp['datetime1'], inp['datetime2']
        eod = inp['eod']
        s = add(t1, t2)
        return And(ge(s, neg(eod)), lt(s, mul(2, eod)), eq(eod, self.eod))

    def ensures(self, inp, res, I):
        (d1, t1), (d2, t2) = inp['datetime1'], inp['datetime2']
        eod = inp['eod']
        d, t = res
        return [('total-conserved', eq(T(d, t, eod), add(T(d1, t1, eod), T(d2, t2, eod)))),
                ('normalised', And(ge(t, 0), lt(t, eod)))]

    def real(self, inp):
        import_real()
        from PseudoNetCDF.camxfiles.timetuple import timeadd
        (d1, t1), (d2, t2) = inp['datetime1'], inp['datetime2']
        return timeadd((d1, fl(t1)), (d2, fl(t2)), fl(inp['eod']))


def neg(x):
    return sym.neg(x)


class TimeDiff(Contract):
    prop = 'C13'
    target = TT + '::timediff'
    result_sort = 'Real'

    def __init__(self, eod=None):
        self.eod = eod
        self.name = 'timediff[eod=%s]' % eod

    def inputs(self, ctx, I):
        inp = dict(datetime1=(ctx.fresh('date1'), ctx.fresh('time1', 'Real')),
                   datetime2=(ctx.fresh('date2'), ctx.fresh('time2', 'Real')))
        if self.eod is not None:
            inp['eod'] = self.eod
        return inp

    def real(self, inp):
        import_real()
        from PseudoNetCDF.camxfiles.timetuple import timediff
        (d1, t1), (d2, t2) = inp['datetime1'], inp['datetime2']
        a = [(d1, fl(t1)), (d2, fl(t2))] + ([fl(inp['eod'])] if 'eod' in inp else [])
        return timediff(*a)

    def ensures(self, inp, res, I):
        (d1, t1), (d2, t2) = inp['datetime1'], inp['datetime2']
        eod = inp.get('eod', 2400)
        return [('difference', eq(res, sub(T(d2, t2, eod), T(d1, t1, eod))))]


class TimeRange(Contract):
    """timerange(start, end, step, eod): for normalised start/end with
    T(end) - T(start) = n*step, n >= 0 integer and 0 < step <= eod, the generator
    terminates after exactly n yields and the k-th yield is the normalised tuple of
    T(start) + k*step."""
    prop = 'C13'
    target = TT + '::timerange'

    def __init__(self, eod):
        self.eod = eod
        self.name = 'timerange[eod=%s]' % eod
        self.uses = [TimeAdd(eod)]
        self.loops = {0: LoopSpec(inv=self.inv, decreases=self.variant,
                                  ghost_init={'k': 0}, ghost_step=lambda env: {'k': add(env.ghost['k'], 1)})}

    def inputs(self, ctx, I):
        self.n = ctx.fresh('n')
        inp = dict(datetime1=(ctx.fresh('sdate'), ctx.fresh('stime', 'Real')),
                   datetime2=(ctx.fresh('edate'), ctx.fresh('etime', 'Real')),
                   step=ctx.fresh('step', 'Real'), eod=self.eod, n=self.n)
        self.inp = inp
        I.yield_hook = self.on_yield
        self.I = I
        return inp

    def call_args(self, inp):
        return [inp['datetime1'], inp['datetime2'], inp['step'], inp['eod']], {}

    def requires(self, inp):
        (d1, t1), (d2, t2) = inp['datetime1'], inp['datetime2']
        eod, step, n = inp['eod'], inp['step'], inp['n']
        return And(ge(t1, 0), lt(t1, eod), ge(t2, 0), lt(t2, eod), gt(step, 0), le(step, eod), ge(n, 0),
                   eq(sub(T(d2, t2, eod), T(d1, t1, eod)), mul(n, step)))

    def inv(self, env):
        inp = self.inp
        (d1, t1), (d2, t2) = inp['datetime1'], inp['datetime2']
        eod, step, n = inp['eod'], inp['step'], inp['n']
        k = env.ghost['k']
        # the loop runs `while <current instant> != <last instant>`: the invariant speaks about the two operands of that test,
        # however the function stores them (two pairs of locals, two tuples, ...)
        test = env.node.test
        (cd, ct), (sd, st_) = env.eval(test.left), env.eval(test.comparators[0])
        return And(ge(k, 0), le(k, n), ge(ct, 0), lt(ct, eod),
                   eq(sd, d2), eq(st_, t2),
                   eq(T(cd, ct, eod), add(T(d1, t1, eod), mul(k, step))))

    def variant(self, env):
        return sub(self.inp['n'], env.ghost['k'])

    def on_yield(self, v):
        inp = self.inp
        (d1, t1) = inp['datetime1']
        eod, step = inp['eod'], inp['step']
        k = self.I.ctx.ghost.get('k')
        d, t = v
        self.I.ctx.prove('yield-is-kth-instant', And(eq(T(d, t, eod), add(T(d1, t1, eod), mul(k, step))),
                                                     ge(t, 0), lt(t, eod), lt(k, inp['n'])), 'post')

    def ensures(self, inp, res, I):
        # reached only on the loop-exit path: all n instants were yielded
        return [('exactly-n-yields', eq(I.ctx.ghost['k'], inp['n']))]

    def replay(self, c):
        import_real()
        from PseudoNetCDF.camxfiles.timetuple import timerange
        import itertools
        (d1, t1), (d2, t2) = c['datetime1'], c['datetime2']
        n = c['n']
        out = list(itertools.islice(timerange((d1, fl(t1)), (d2, fl(t2)), fl(c['step']), fl(c['eod'])), n + 2))
        ok = len(out) == n
        return ok, dict(yields=out[:5], count=len(out), expected=n)


# ---------------------------------------------------------------------------
# uamiv/Read.py seek arithmetic
# ---------------------------------------------------------------------------

def uamiv_self(ctx, I):
    a = dict(nspec=ctx.fresh('nspec'), nlayers=ctx.fresh('nlayers'),
             start_date=ctx.fresh('start_date'), start_time=ctx.fresh('start_time', 'Real'),
             time_step=ctx.fresh('time_step', 'Real'),
             data_start_byte=ctx.fresh('data_start_byte'), padded_size=ctx.fresh('padded_size'),
             padded_time_hdr_size=ctx.fresh('padded_time_hdr_size'))
    return self_obj(I, UR, 'uamiv', a)


def uamiv_wf(s):
    a = s.attrs
    return And(ge(a['nspec'], 1), ge(a['nlayers'], 1), gt(a['time_step'], 0),
               ge(a['data_start_byte'], 0), gt(a['padded_size'], 8), eq(a['padded_time_hdr_size'], 24))


def _uamiv_real(inp):
    import_real()
    from PseudoNetCDF.camxfiles.uamiv.Read import uamiv
    return scaffold(uamiv, **{k: fl(v) for k, v in inp['self'].attrs.items()})


class LayerRecords(Contract):
    prop = 'C13'
    target = UR + '::uamiv.__layerrecords'

    def real(self, inp):
        return _uamiv_real(inp)._uamiv__layerrecords(inp['k'])

    def inputs(self, ctx, I):
        return dict(self=uamiv_self(ctx, I), k=ctx.fresh('k'))

    def ensures(self, inp, res, I):
        return [('records-before-layer', eq(res, sub(inp['k'], 1)))]


class SpcRecords(Contract):
    prop = 'C13'
    target = UR + '::uamiv.__spcrecords'
    uses = [LayerRecords()]

    def inputs(self, ctx, I):
        return dict(self=uamiv_self(ctx, I), spc=ctx.fresh('spc'))

    def real(self, inp):
        return _uamiv_real(inp)._uamiv__spcrecords(inp['spc'])

    def ensures(self, inp, res, I):
        return [('records-before-species', eq(res, mul(sub(inp['spc'], 1), inp['self'].attrs['nlayers'])))]


class TimeRecords(Contract):
    """number of data records before the step at (d, t); derived from the code:
    the elapsed time is measured in 24-hour days, like seek() and timerange()"""
    prop = 'C13'
    target = UR + '::uamiv.__timerecords'
    uses = [SpcRecords(), TimeDiff()]

    def inputs(self, ctx, I):
        return dict(self=uamiv_self(ctx, I), dt=(ctx.fresh('d'), ctx.fresh('t', 'Real')))

    def requires(self, inp):
        return uamiv_wf(inp['self'])

    def real(self, inp):
        d, t = inp['dt']
        return _uamiv_real(inp)._uamiv__timerecords((d, fl(t)))

    def steps(self, inp):
        a = inp['self'].attrs
        d, t = inp['dt']
        el = sub(T(d, t, 24), T(a['start_date'], a['start_time'], 24))
        return sym.trunc(sym.truediv(el, a['time_step']))

    def ensures(self, inp, res, I):
        a = inp['self'].attrs
        return [('records-before-step', eq(res, mul(self.steps(inp), mul(a['nspec'], a['nlayers']))))]


class RecordPosition(Contract):
    """top-level (from the property): the byte position computed for the n-th time
    step, species spc (1-based; 0 = the time header itself) and layer k equals the
    position of that record in the published layout:
        data_start + n*(hdr + nspec*nlayers*padded) + [hdr + ((spc-1)*nlayers + (k-1))*padded]
    `elapsed` is the time since the start in the units of the header."""
    prop = 'C13'
    target = UR + '::uamiv.__recordposition'
    uses = [TimeRecords(), SpcRecords(), LayerRecords()]
    name = 'uamiv.__recordposition[same-day]'

    def inputs(self, ctx, I):
        self.n = ctx.fresh('n')
        return dict(self=uamiv_self(ctx, I), date=ctx.fresh('date'), time=ctx.fresh('time', 'Real'),
                    spc=ctx.fresh('spc'), k=ctx.fresh('k'), n=self.n)

    def requires(self, inp):
        a = inp['self'].attrs
        n = inp['n']
        # (date, time) is the n-th instant of the file on the day the file starts
        return And(uamiv_wf(inp['self']), ge(n, 0), ge(inp['spc'], 0), le(inp['spc'], a['nspec']),
                   ge(inp['k'], 1), le(inp['k'], a['nlayers']),
                   Implies(eq(inp['spc'], 0), eq(inp['k'], 1)),
                   eq(inp['date'], a['start_date']),
                   eq(inp['time'], add(a['start_time'], mul(n, a['time_step']))))

    def spec_pos(self, inp):
        a = inp['self'].attrs
        n, spc, k = inp['n'], inp['spc'], inp['k']
        block = add(a['padded_time_hdr_size'], mul(mul(a['nspec'], a['nlayers']), a['padded_size']))
        base = add(a['data_start_byte'], mul(n, block))
        within = add(a['padded_time_hdr_size'],
                     mul(add(mul(sub(spc, 1), a['nlayers']), sub(k, 1)), a['padded_size']))
        return ite(eq(spc, 0), base, add(base, within))

    def ensures(self, inp, res, I):
        a = inp['self'].attrs
        el = sub(T(inp['date'], inp['time'], 24), T(a['start_date'], a['start_time'], 24))
        return [('lemma:elapsed-steps', eq(sym.trunc(sym.truediv(el, a['time_step'])), inp['n'])),
                ('offset-equals-layout-position', eq(res, self.spec_pos(inp)))]

    def real(self, inp):
        return _uamiv_real(inp)._uamiv__recordposition(inp['date'], fl(inp['time']), inp['spc'], inp['k'])


class RecordPositionNextDay(RecordPosition):
    """same post-condition for instants on a later day, with the time of day in
    hours (eod = 24), which is how `uamiv.timerange()` and `seek()` treat it"""
    name = 'uamiv.__recordposition[later-day,eod=24]'

    def requires(self, inp):
        a = inp['self'].attrs
        n = inp['n']
        return And(uamiv_wf(inp['self']), ge(n, 0), ge(inp['spc'], 0), le(inp['spc'], a['nspec']),
                   ge(inp['k'], 1), le(inp['k'], a['nlayers']),
                   Implies(eq(inp['spc'], 0), eq(inp['k'], 1)),
                   ge(a['start_time'], 0), lt(a['start_time'], 24), ge(inp['time'], 0), lt(inp['time'], 24),
                   le(a['time_step'], 24), gt(inp['date'], a['start_date']),
                   eq(T(inp['date'], inp['time'], 24), add(T(a['start_date'], a['start_time'], 24), mul(n, a['time_step']))))


CONTRACTS = [TimeAdd(2400), TimeAdd(24), TimeDiff(None), TimeDiff(24), TimeRange(24), TimeRange(2400),
             LayerRecords(), SpcRecords(), TimeRecords(), RecordPosition(), RecordPositionNextDay()]

# ---------------------------------------------------------------------------
# record readers of the meteorological formats: seek arithmetic == layout position
# ---------------------------------------------------------------------------

class MetPosition(Contract):
    """__recordposition of the record readers of the one-variable-per-record formats equals the position of the
    record in the published layout: every record has the same padded size; a time step holds R = recs_per_layer * nlayers
    records (+ for wind a time header and a 12-byte record); (date, time) is the n-th instant on the start date"""
    prop = 'C13'

    def __init__(self, kind):
        self.kind = kind
        self.rel = 'camxfiles/%s/Read.py' % kind
        self.target = '%s::%s.__recordposition' % (self.rel, kind)
        self.name = '%s.__recordposition' % kind

    def inputs(self, ctx, I):
        a = dict(nlayers=ctx.fresh('nlayers'), start_date=ctx.fresh('start_date'), start_time=ctx.fresh('start_time', 'Real'),
                 time_step=ctx.fresh('time_step', 'Real'), data_start_byte=ctx.fresh('data_start_byte'),
                 padded_size=ctx.fresh('padded_size'), padded_time_hdr_size=ctx.fresh('padded_time_hdr_size'))
        s = self_obj(I, self.rel, self.kind, a)
        inp = dict(self=s, date=ctx.fresh('date'), time=ctx.fresh('time', 'Real'), k=ctx.fresh('k'), n=ctx.fresh('n'))
        if self.kind == 'height_pressure':
            inp['hp'] = ctx.fresh('hp')
        if self.kind == 'wind':
            inp['duv'] = ctx.fresh('duv')
        return inp

    def call_args(self, inp):
        extra = [inp[x] for x in ('hp', 'duv') if x in inp]
        return [inp['self'], inp['date'], inp['time'], inp['k']] + extra, {}

    def requires(self, inp):
        a = inp['self'].attrs
        r = And(ge(a['nlayers'], 1), gt(a['time_step'], 0), ge(a['data_start_byte'], 0), gt(a['padded_size'], 8), ge(inp['n'], 0),
                ge(inp['k'], 1), le(inp['k'], a['nlayers']), eq(inp['date'], a['start_date']),
                eq(inp['time'], add(a['start_time'], mul(inp['n'], a['time_step']))), gt(a['padded_time_hdr_size'], 8))
        if 'hp' in inp:
            r = And(r, ge(inp['hp'], 0), le(inp['hp'], 1))
        if 'duv' in inp:
            r = And(r, ge(inp['duv'], 0), le(inp['duv'], 2), Implies(eq(inp['duv'], 0), eq(inp['k'], 1)))
        return r

    def spec_pos(self, inp):
        a = inp['self'].attrs
        n, k, P = inp['n'], inp['k'], a['padded_size']
        if self.kind == 'one3d':
            return add(a['data_start_byte'], mul(add(mul(n, a['nlayers']), sub(k, 1)), P))
        if self.kind == 'height_pressure':
            return add(a['data_start_byte'], mul(add(add(mul(n, mul(2, a['nlayers'])), mul(2, sub(k, 1))), inp['hp']), P))
        if self.kind == 'wind':
            H = a['padded_time_hdr_size']
            step = add(add(H, 12), mul(mul(2, a['nlayers']), P))
            base = add(a['data_start_byte'], mul(n, step))
            within = add(add(H, mul(mul(2, sub(k, 1)), P)), ite(eq(inp['duv'], 2), P, 0))
            return ite(eq(inp['duv'], 0), base, add(base, within))

    def ensures(self, inp, res, I):
        a = inp['self'].attrs
        el = sub(T(inp['date'], inp['time'], 2400), T(a['start_date'], a['start_time'], 2400))
        return [('lemma:elapsed-steps', eq(sym.trunc(sym.truediv(el, a['time_step'])), inp['n'])),
                ('offset-equals-layout-position', eq(res, self.spec_pos(inp)))]

    def real(self, inp):
        import importlib
        import_real()
        cls = getattr(importlib.import_module('PseudoNetCDF.camxfiles.%s.Read' % self.kind), self.kind)
        o = scaffold(cls, **{k: fl(v) for k, v in inp['self'].attrs.items()})
        args = [inp['date'], fl(inp['time']), inp['k']] + [inp[x] for x in ('hp', 'duv') if x in inp]
        return getattr(o, '_%s__recordposition' % self.kind)(*args)


CONTRACTS += [MetPosition('one3d'), MetPosition('height_pressure'), MetPosition('wind')]


META = dict(
    level='proof',
    technique='contract-based deductive verification (VCs from the real source by symbolic execution, z3/cvc5)',
    text='Seek arithmetic of the record reader (uamiv/Read.py: __layerrecords, __spcrecords, __timerecords, '
         '__recordposition) and of the one3d / height_pressure / wind record readers is proved equal to the byte position of the record in the published '
         'layout for all header values, modularly (callers see callee contracts only); timetuple.timeadd/timediff/'
         'timerange are proved (total time conserved, normalisation, exactly n yields, termination by variant).',
    note='Floats are mathematical reals (A-REAL); struct.calcsize trusted; the Memmap side reads the same layout through '
         'numpy structured dtypes (layout contracts); numpy element access itself is trusted.',
    assumptions=[sym.A_REAL],
    explanation='')


def bounded(tier, seed):
    from rtc import camx
    return camx.run_c13(tier, seed)


def bounded_replay(p):
    return False, p.get('what')
