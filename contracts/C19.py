"""C19 -- ICARTT (ffi1001) write/read round trip (bounded run-time contract)."""
import itertools
from .common import *   # noqa

CONTRACTS = []


def bounded(tier, seed):
    from rtc import harness as H
    import numpy as np
    import os, tempfile, shutil
    P = H.real()
    from PseudoNetCDF.icarttfiles.ffi1001 import ffi1001, ncf2ffi1001
    from PseudoNetCDF import pncopen
    run = H.Run('C19', tier, seed, budget_s=80 if tier == 'quick' else 500)
    tmp = tempfile.mkdtemp(prefix='verif_c19_')

    def build(nrec, ndep, misscodes, nattr, rs, near_missing=False):
        f = P.PseudoNetCDFFile()
        f.createDimension('POINTS', nrec)
        f.SDATE = '2012, 05, 19'
        f.WDATE = '2012, 06, 01'
        f.PI_NAME = 'Doe, Jane'
        f.ORGANIZATION_NAME = 'Org'
        f.SOURCE_DESCRIPTION = 'instrument'
        f.MISSION_NAME = 'MISSION'
        f.VOLUME_INFO = '1, 1'
        f.TIME_INTERVAL = '1'
        f.INDEPENDENT_VARIABLE = 'Start_UTC'
        for a in range(nattr):
            setattr(f, ['PI_CONTACT_INFO', 'PLATFORM', 'LOCATION', 'DATA_INFO'][a], 'value %d: with colon' % a)
        t = f.createVariable('Start_UTC', 'd', ('POINTS',), values=np.arange(nrec) * 60. + 3600)
        t.units = 'seconds'
        names = []
        for j in range(ndep):
            miss = misscodes[j % len(misscodes)]
            mags = [0., 1., -1., np.pi * 10. ** rs.integers(-30, 30), -np.e * 10. ** rs.integers(-30, 30), 1e29, -1e-30, 123456.789]
            vals = np.array([mags[(i + j) % len(mags)] for i in range(nrec)], 'd')
            if near_missing:
                # valid values that differ from the missing code in the 6th significant digit
                vals[0] = miss * (1 + 1e-5) if miss != 0 else 3.5e-9
                if nrec > 1:
                    vals[-1] = miss * (1 - 2e-5) if miss != 0 else -2.5e-9
            m = np.zeros(nrec, bool)
            m[(j * 2) % nrec] = True
            if nrec > 2 and j % 2:
                m[-1] = True
            nm = 'VAR%d_ppbv' % j
            v = f.createVariable(nm, 'd', ('POINTS',), values=np.ma.masked_where(m, vals), fill_value=miss)
            v.units = ['ppbv', 'K', 'm/s', 'unitless'][j % 4]
            v.missing_value = miss
            names.append(nm)
        return f, names

    def sig7(a, b):
        a, b = np.asarray(a, 'd'), np.asarray(b, 'd')
        return np.allclose(a, b, rtol=5e-7, atol=0)
    try:
        n = 0
        for nrec in (1, 2, 3, 5):
            for ndep in (1, 2, 4):
                for misscodes in ([-999.], [-9999., -8888.], [-99999., 1e30], [0.]):
                    for nattr in (0, 2, 4):
                        for near in (False, True):
                            if tier == 'quick' and (n % 3) and not near:
                                n += 1
                                continue
                            n += 1
                            rs = np.random.default_rng(seed + n)
                            f, names = build(nrec, ndep, misscodes, nattr, rs, near)
                            path = os.path.join(tmp, 'f%d.ict' % n)

                            def t(f=f, names=names, path=path, nrec=nrec, ndep=ndep, nattr=nattr):
                                before = H.snapshot(f)
                                ncf2ffi1001(f, path).close()
                                text = open(path).read().split('\n')
                                declared = int(text[0].split(',')[0])
                                header_end = [i for i, l in enumerate(text) if l.startswith('Start_UTC,')]
                                if not header_end or header_end[-1] + 1 != declared:
                                    return 'declared %d header lines, variable-name line is line %s' % (declared, [h + 1 for h in header_end])
                                if int(text[9]) != ndep:
                                    return 'declared %s dependent variables, wrote %d' % (text[9], ndep)
                                if len(text[10].split(',')) != ndep or len(text[11].split(',')) != ndep:
                                    return 'scale/missing lines do not have one entry per dependent variable'
                                g = ffi1001(path)
                                if list(g.variables) != ['Start_UTC'] + names:
                                    return 'variable names/order %r' % list(g.variables)
                                for k in names:
                                    a, b = f.variables[k], g.variables[k]
                                    if b.units != a.units:
                                        return '%s units %r vs %r' % (k, b.units, a.units)
                                    if float(b.missing_value) != float(a.missing_value):
                                        return '%s missing code %r vs %r' % (k, b.missing_value, a.missing_value)
                                    ma, mb = np.ma.getmaskarray(a[:]), np.ma.getmaskarray(b[:])
                                    if not np.array_equal(ma, mb):
                                        return '%s mask %r vs %r (values %r)' % (k, mb.tolist(), ma.tolist(), np.ma.getdata(a[:]).tolist())
                                    if not sig7(np.ma.getdata(b[:])[~ma], np.ma.getdata(a[:])[~ma]):
                                        return '%s values differ beyond 7 significant digits: %r vs %r' % (k, np.ma.getdata(b[:])[~ma].tolist(), np.ma.getdata(a[:])[~ma].tolist())
                                if not sig7(g.variables['Start_UTC'][:], f.variables['Start_UTC'][:]):
                                    return 'independent variable differs'
                                # second cycle changes nothing
                                path2 = path + '.2'
                                ncf2ffi1001(g, path2).close()
                                h = ffi1001(path2)
                                for k in ['Start_UTC'] + names:
                                    e = H.arr_equal(h.variables[k][:], g.variables[k][:])
                                    if e:
                                        return 'second write/read cycle changed %s: %s' % (k, e)
                                if not ffi1001.isMine(path):
                                    return 'ffi1001.isMine rejects its own output'
                                return H.same_snapshot(before, H.snapshot(f))
                            run.case('C19:round-trip%s' % (' (values next to the missing code)' if near else ''), (nrec, ndep, misscodes, nattr, near), t)
    finally:
        shutil.rmtree(tmp, ignore_errors=True)
    return run.result(
        rule='real ncf2ffi1001 -> ffi1001 -> ncf2ffi1001 -> ffi1001: names, order, units, missing codes, masks (exact), values to 7 significant digits, declared vs actual header-line '
             'and variable counts, isMine, second cycle identical',
        bound='records {1,2,3,5} x dependent variables {1,2,4} x missing codes {-999 | -9999,-8888 | -99999,1e30 | 0} x header attributes {0,2,4}; values 0, +-1, pi*10^k (k in -30..30), 1e29, -1e-30; '
              'values within 1e-6 relative / 0.01 absolute of the missing code')


def bounded_replay(p):
    return False, p.get('what')


META = dict(
    level='exploration',
    technique='bounded run-time contract on the real writer/reader pair (text parsing via regex/eval/genfromtxt is outside the deductive subset)',
    text='write/read/write/read compared field by field; declared header-line and variable counts compared with the text actually written.',
    note='bounded only.',
    assumptions=[],
    explanation='')
