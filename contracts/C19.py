"""C19 -- ICARTT (ffi1001) write/read round trip (bounded run-time contract)."""
import itertools
import os
from .common import *   # noqa

import z3
from pyvc.nparr import sym_array, SArr
from pyvc.exec import LoopSpec
from pyvc import frontend

FF = 'icarttfiles/ffi1001.py'


class WriterCounts(Contract):
    """ncf2ffi1001 on a file with NDEP dependent variables and NATTR comment attributes (concrete names) and ANY number n of
    records: the header-line count declared on the first line equals the number of lines written before the data rows,
    the declared number of dependent variables equals the number written, one scale factor / missing code / name-unit
    line per dependent variable, and exactly n data rows follow."""
    prop = 'C19'
    target = FF + '::ncf2ffi1001'
    max_paths = 40

    def __init__(self, ndep, nattr, with_required):
        self.ndep, self.nattr, self.req = ndep, nattr, with_required
        self.name = 'ncf2ffi1001[%d dependent variables,%d comment attributes,%s required attributes]' % (ndep, nattr, 'with' if with_required else 'without')

    def inputs(self, ctx, I):
        n = ctx.fresh('nrec')
        self.n = n
        mod = frontend.load('core/_variables.py')
        cls = I.classref(mod, mod.find('PseudoNetCDFVariable')[0])

        def var(name, **atts):
            a = sym_array(name, (n,), 'f')
            a.cls = cls
            a.attrs.update(dimensions=('POINTS',), _ncattrs=tuple(atts), **atts)
            return a
        vs = {'Start_UTC': var('Start_UTC', units='seconds')}
        for j in range(self.ndep):
            vs['dep%d' % j] = var('dep%d' % j, units='ppbv', missing_value=-9999 - j) if j % 2 == 0 else var('dep%d' % j)
        attrs = dict(SDATE='2012, 05, 19', INDEPENDENT_VARIABLE='Start_UTC')
        if self.req:
            attrs.update(PI_NAME='Doe, Jane', ORGANIZATION_NAME='Org', SOURCE_DESCRIPTION='instrument', MISSION_NAME='M', VOLUME_INFO='1, 1', WDATE='2012, 06, 01', TIME_INTERVAL='1')
        for k in range(self.nattr):
            attrs[['PI_CONTACT_INFO', 'PLATFORM', 'LOCATION', 'DATA_INFO'][k]] = 'value %d: with colon' % k
        f = pnc_file(I, dimensions={'POINTS': dim_obj(I, 'POINTS', n)}, variables=vs, attrs=attrs)
        from pyvc.arrays import AbsStr
        return dict(f=f, outpath=AbsStr(ctx.fresh('outpath')))

    def requires(self, inp):
        return ge(self.n, 1)

    def small(self, inp):
        return le(self.n, 2)

    # the loop over the data rows: ghost counters for the rows written and for the lines of the output file
    def _fid(self, env):
        return id(env['outfile'])

    def rows_ghost_init(self, env):
        fid = self._fid(env)
        self.lines0 = env.ctx.ghost.get(('lines', fid), 0)
        return {'data_rows': 0, ('lines', fid): self.lines0, ('tofile', fid): 0}

    def rows_ghost_step(self, env):
        return {'data_rows': add(env.ctx.ghost['data_rows'], 1)}

    def rows_inv(self, env):
        fid = self._fid(env)
        k = env.it
        g = env.ctx.ghost
        return [('index-in-range', And(ge(k, 0), le(k, self.n))),
                ('one row written per record so far', eq(g['data_rows'], k)),
                ('every row is one tofile call', eq(g[('tofile', fid)], k)),
                ('every row ends one line', eq(g[('lines', fid)], add(self.lines0, k)))]

    @property
    def loops(self):
        # the loop over the data rows (`for row in array(vals).T`), found by its iterable rather than by its position
        return {'iter:.T': LoopSpec(inv=self.rows_inv, ghost_init=self.rows_ghost_init, ghost_step=self.rows_ghost_step)}

    def ensures(self, inp, res, I):
        from pyvc.exec import FmtStr
        fid = id(res)
        printed = I.ctx.ghost.get(('printed', fid), [])
        lines = I.ctx.ghost.get(('lines', fid))
        if not printed or lines is None:
            return [('writes-to-the-returned-file', False)]
        first = printed[0][0] if printed[0] else None
        declared = ftype = None
        if isinstance(first, FmtStr) and first.fmt == '%d, %d':
            declared, ftype = first.args
        elif isinstance(first, str):
            import re
            m_ = re.fullmatch(r'(\d+), (\d+)', first)
            if m_:
                declared, ftype = int(m_.group(1)), int(m_.group(2))
        rows = I.ctx.ghost.get('data_rows')
        hdr = sub(lines, rows) if rows is not None else None
        ndep_line = printed[9][0] if len(printed) > 9 and printed[9] else None
        ndep_decl = ndep_line.args[0] if isinstance(ndep_line, FmtStr) else (int(ndep_line) if isinstance(ndep_line, str) and ndep_line.isdigit() else None)
        txt = [p_[0] if p_ else None for p_ in printed]
        names = ['dep%d' % j for j in range(self.ndep)]
        codes = [str(-9999 - j) if j % 2 == 0 else '-999' for j in range(self.ndep)]
        per_var = (len(txt) > 12 + self.ndep and isinstance(txt[10], str) and txt[10].split(', ') == ['1'] * self.ndep
                   and isinstance(txt[11], str) and txt[11].split(', ') == codes
                   and [t.split(', ')[0] if isinstance(t, str) else None for t in txt[12:12 + self.ndep]] == names)
        return [('first line is "<count>, 1001"', declared is not None and ftype == 1001),
                ('one scale factor, one missing code (the variable\'s own, else -999) and one name/unit line per dependent variable, in order', per_var),
                ('declared header-line count = lines written before the data', declared is not None and hdr is not None and eq(declared, hdr)),
                ('declared number of dependent variables = number written', ndep_decl is not None and eq(ndep_decl, self.ndep)),
                ('exactly one data row per record', rows is not None and eq(rows, self.n))]


    # -- replay on the real function -----------------------------------------------------------------------------------
    def concretize(self, model, inp):
        from pyvc.verify import model_value
        return dict(ndep=self.ndep, nattr=self.nattr, req=self.req, n=model_value(model, self.n))

    def concretize_without_model(self, inp):
        return dict(ndep=self.ndep, nattr=self.nattr, req=self.req, n=3)

    def replay(self, c):
        import numpy as np
        import tempfile, shutil, warnings
        P = import_real()
        from PseudoNetCDF.icarttfiles.ffi1001 import ncf2ffi1001
        out = None
        for n in (int(c['n']), 3):
            if not 1 <= n <= 200:
                continue
            f = P.PseudoNetCDFFile()
            f.createDimension('POINTS', n)
            f.SDATE, f.INDEPENDENT_VARIABLE = '2012, 05, 19', 'Start_UTC'
            if c['req']:
                f.PI_NAME, f.ORGANIZATION_NAME, f.SOURCE_DESCRIPTION, f.MISSION_NAME, f.VOLUME_INFO, f.WDATE, f.TIME_INTERVAL = 'Doe, Jane', 'Org', 'instrument', 'M', '1, 1', '2012, 06, 01', '1'
            for k in range(int(c['nattr'])):
                setattr(f, ['PI_CONTACT_INFO', 'PLATFORM', 'LOCATION', 'DATA_INFO'][k], 'value %d: with colon' % k)
            f.createVariable('Start_UTC', 'd', ('POINTS',), values=np.arange(n) * 60., units='seconds')
            for j in range(int(c['ndep'])):
                v = f.createVariable('dep%d' % j, 'd', ('POINTS',), values=np.arange(n) + 0.5 * j)
                if j % 2 == 0:
                    v.units, v.missing_value = 'ppbv', -9999 - j
            d = tempfile.mkdtemp(prefix='verif_c19_')
            try:
                with warnings.catch_warnings():
                    warnings.simplefilter('ignore')
                    ncf2ffi1001(f, os.path.join(d, 'o.ict')).close()
                lines = open(os.path.join(d, 'o.ict')).read().split('\n')
                if lines and lines[-1] == '':
                    lines = lines[:-1]
            finally:
                shutil.rmtree(d, ignore_errors=True)
            declared = int(lines[0].split(',')[0])
            ndep_decl = int(lines[9])
            ok = (len(lines) - declared == n and ndep_decl == int(c['ndep']) and lines[declared - 1].split(', ')[0] == 'Start_UTC'
                  and len(lines[10].split(', ')) == ndep_decl
                  and lines[11].split(', ') == [str(-9999 - j) if j % 2 == 0 else '-999' for j in range(int(c['ndep']))])
            r = (ok, dict(records=n, declared_header_lines=declared, lines_in_file=len(lines), declared_dependent_variables=ndep_decl, missing_codes_line=lines[11], last_header_line=lines[declared - 1][:60]))
            if not ok:
                return r
            out = out or r
        return out


CONTRACTS = [WriterCounts(*x) for x in ((1, 0, True), (2, 1, True), (3, 2, False), (4, 4, True))]


def bounded(tier, seed):
    from rtc import harness as H
    import numpy as np
    import os, tempfile, shutil
    P = H.real()
    from PseudoNetCDF.icarttfiles.ffi1001 import ffi1001, ncf2ffi1001
    from PseudoNetCDF import pncopen
    run = H.Run('C19', tier, seed, budget_s=80 if tier == 'quick' else 500)
    tmp = tempfile.mkdtemp(prefix='verif_c19_')

    def build(nrec, ndep, misscodes, nattr, rs, near_missing=False):
        f = P.PseudoNetCDFFile()
        f.createDimension('POINTS', nrec)
        f.SDATE = '2012, 05, 19'
        f.WDATE = '2012, 06, 01'
        f.PI_NAME = 'Doe, Jane'
        f.ORGANIZATION_NAME = 'Org'
        f.SOURCE_DESCRIPTION = 'instrument'
        f.MISSION_NAME = 'MISSION'
        f.VOLUME_INFO = '1, 1'
        f.TIME_INTERVAL = '1'
        f.INDEPENDENT_VARIABLE = 'Start_UTC'
        for a in range(nattr):
            setattr(f, ['PI_CONTACT_INFO', 'PLATFORM', 'LOCATION', 'DATA_INFO'][a], 'value %d: with colon' % a)
        if nattr >= 2:
            # the attribute the reader creates for a free-text line in the special-comment section of a file it has read
            f.SPECIAL_COMMENTS = 'free text found in the special comment section'
        t = f.createVariable('Start_UTC', 'd', ('POINTS',), values=np.arange(nrec) * 60. + 3600)
        t.units = 'seconds'
        names = []
        for j in range(ndep):
            miss = misscodes[j % len(misscodes)]
            mags = [0., 1., -1., np.pi * 10. ** rs.integers(-30, 30), -np.e * 10. ** rs.integers(-30, 30), 1e29, -1e-30, 123456.789]
            vals = np.array([mags[(i + j) % len(mags)] for i in range(nrec)], 'd')
            if near_missing:
                # valid values that differ from the missing code in the 6th significant digit
                vals[0] = miss * (1 + 1e-5) if miss != 0 else 3.5e-9
                if nrec > 1:
                    vals[-1] = miss * (1 - 2e-5) if miss != 0 else -2.5e-9
            m = np.zeros(nrec, bool)
            m[(j * 2) % nrec] = True
            if nrec > 2 and j % 2:
                m[-1] = True
            nm = 'VAR%d_ppbv' % j
            v = f.createVariable(nm, 'd', ('POINTS',), values=np.ma.masked_where(m, vals), fill_value=miss)
            v.units = ['ppbv', 'K', 'm/s', 'unitless'][j % 4]
            v.missing_value = miss
            names.append(nm)
        return f, names

    def sig7(a, b):
        a, b = np.asarray(a, 'd'), np.asarray(b, 'd')
        return np.allclose(a, b, rtol=5e-7, atol=0)
    try:
        n = 0
        for nrec in (1, 2, 3, 5):
            for ndep in (1, 2, 4):
                for misscodes in ([-999.], [-9999., -8888.], [-99999., 1e30], [0.]):
                    for nattr in (0, 2, 4):
                        for near in (False, True):
                            if tier == 'quick' and (n % 3) and not near:
                                n += 1
                                continue
                            n += 1
                            rs = np.random.default_rng(seed + n)
                            f, names = build(nrec, ndep, misscodes, nattr, rs, near)
                            path = os.path.join(tmp, 'f%d.ict' % n)

                            def t(f=f, names=names, path=path, nrec=nrec, ndep=ndep, nattr=nattr):
                                before = H.snapshot(f)
                                ncf2ffi1001(f, path).close()
                                text = open(path).read().split('\n')
                                declared = int(text[0].split(',')[0])
                                header_end = [i for i, l in enumerate(text) if l.startswith('Start_UTC,')]
                                if not header_end or header_end[-1] + 1 != declared:
                                    return 'declared %d header lines, variable-name line is line %s' % (declared, [h + 1 for h in header_end])
                                if int(text[9]) != ndep:
                                    return 'declared %s dependent variables, wrote %d' % (text[9], ndep)
                                if len(text[10].split(',')) != ndep or len(text[11].split(',')) != ndep:
                                    return 'scale/missing lines do not have one entry per dependent variable'
                                g = ffi1001(path)
                                if list(g.variables) != ['Start_UTC'] + names:
                                    return 'variable names/order %r' % list(g.variables)
                                for k in names:
                                    a, b = f.variables[k], g.variables[k]
                                    if b.units != a.units:
                                        return '%s units %r vs %r' % (k, b.units, a.units)
                                    if float(b.missing_value) != float(a.missing_value):
                                        return '%s missing code %r vs %r' % (k, b.missing_value, a.missing_value)
                                    ma, mb = np.ma.getmaskarray(a[:]), np.ma.getmaskarray(b[:])
                                    if not np.array_equal(ma, mb):
                                        return '%s mask %r vs %r (values %r)' % (k, mb.tolist(), ma.tolist(), np.ma.getdata(a[:]).tolist())
                                    if not sig7(np.ma.getdata(b[:])[~ma], np.ma.getdata(a[:])[~ma]):
                                        return '%s values differ beyond 7 significant digits: %r vs %r' % (k, np.ma.getdata(b[:])[~ma].tolist(), np.ma.getdata(a[:])[~ma].tolist())
                                if not sig7(g.variables['Start_UTC'][:], f.variables['Start_UTC'][:]):
                                    return 'independent variable differs'
                                if g.variables['Start_UTC'].units != f.variables['Start_UTC'].units:
                                    return 'unit of the independent variable %r vs %r' % (g.variables['Start_UTC'].units, f.variables['Start_UTC'].units)
                                # re-open by auto-detection (no format named), also under a name without suffix
                                for ap in (path, path[:-4] + '_nosuffix'):
                                    if ap != path:
                                        shutil.copy(path, ap)
                                    try:
                                        a_ = pncopen(ap)
                                    except Exception as e_:
                                        return 'auto-detection of the written file fails: %s %s' % (type(e_).__name__, str(e_)[:80])
                                    if type(a_).__name__ != 'ffi1001' or list(a_.variables) != ['Start_UTC'] + names:
                                        return 'auto-detection opens the written file as %s with variables %r' % (type(a_).__name__, list(a_.variables)[:4])
                                # second cycle changes nothing
                                path2 = path + '.2'
                                ncf2ffi1001(g, path2).close()
                                h = ffi1001(path2)
                                for k in ['Start_UTC'] + names:
                                    e = H.arr_equal(h.variables[k][:], g.variables[k][:])
                                    if e:
                                        return 'second write/read cycle changed %s: %s' % (k, e)
                                if not ffi1001.isMine(path):
                                    return 'ffi1001.isMine rejects its own output'
                                return H.same_snapshot(before, H.snapshot(f))
                            run.case('C19:round-trip%s' % (' (values next to the missing code)' if near else ''), (nrec, ndep, misscodes, nattr, near), t)
    finally:
        shutil.rmtree(tmp, ignore_errors=True)
    return run.result(
        rule='real ncf2ffi1001 -> ffi1001 -> ncf2ffi1001 -> ffi1001: names, order, units, missing codes, masks (exact), values to 7 significant digits, declared vs actual header-line '
             'and variable counts, isMine, second cycle identical',
        bound='records {1,2,3,5} x dependent variables {1,2,4} x missing codes {-999 | -9999,-8888 | -99999,1e30 | 0} x header attributes {0,2,4}; values 0, +-1, pi*10^k (k in -30..30), 1e29, -1e-30; '
              'values within 1e-6 relative / 0.01 absolute of the missing code')


def bounded_replay(p):
    return False, p.get('what')


META = dict(
    level='other',
    technique='the counting clauses of the ICARTT writer proved by pyvc (print-to-file as a ghost line counter, cut-point loop over the data rows for ANY number of records); '
              'the text round trip (regex / eval / genfromtxt parsing) by bounded run-time contract on the real writer/reader pair',
    text='Proved for ANY number of records and 4 file shapes (1-4 dependent variables, 0-4 comment attributes, with / without the recommended attributes): the header-line count '
         'declared on the first line equals the number of lines written before the data, the declared number of dependent variables equals the number written, there is one scale '
         'factor, one missing code (the variable own code, else -999) and one name/unit line per dependent variable in order, and exactly one data row per record follows. '
         'Bounded: write/read/write/read compared field by field (names, order, units, missing codes, masks, values to 7 digits), re-open by auto-detection, values next to the missing code.',
    note='variable and attribute names are concrete in the proof (the number of records is not); attribute values are assumed to be one-line texts; the reader (text parsing) is bounded only.',
    assumptions=['print(..., file=f) writes exactly one line per call (arguments without line breaks); ndarray.tofile(text) writes no line break',
                 'datetime.strftime of other formats: an abstract one-line text'],
    explanation='mixed: discharged obligations for the counting clauses of ncf2ffi1001 + bounded text round trips')
