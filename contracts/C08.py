"""C08 -- bounded run-time contracts on generated CAMx files (rtc/camx.py, reference codec rtc/refcodec.py)."""
from .common import *   # noqa

CONTRACTS = []


def bounded(tier, seed):
    from rtc import camx
    return camx.run_c08(tier, seed)


def bounded_replay(p):
    return False, p.get('what')

META = dict(
    level='exploration',
    technique='bounded run-time contract: generated files through library reader/writer, byte comparison of rewrites',
    text='write/read round trip (bit-exact data, begin/end time flags, grid header, species order) and byte-identical rewrite on generated files of seven CAMx formats.',
    note='bounded only; reference encoder in rtc/refcodec.py written from the CAMx format description.',
    assumptions=[], explanation='')
