"""C08 -- bounded run-time contracts on generated CAMx files (rtc/camx.py, reference codec rtc/refcodec.py)."""
from .common import *   # noqa

import z3
from pyvc.nparr import sym_array, SArr

AT = 'ArrayTransforms.py'


class ConvertTime(Contract):
    """ConvertCAMxTime(date, time, nvars) -- the decoder every memory-mapped CAMx reader uses for its time flags -- for records
    of ANY number n >= 1 and any number of variable columns: date entries are two-digit-year julian dates YYJJJ, time entries
    whole hours, either as hours (0..23, gridded formats) or as HHMM (0..2300, meteorological formats):
      TFLAG[t, v, 0] = century(YY) + YYJJJ   (70..99 -> 19xx, 00..69 -> 20xx, decided per record)
      TFLAG[t, v, 1] = HHMMSS of that whole hour,
    except that an all-midnight file stays 0.  Together with the writer side (YYYYJJJ % century and HHMMSS / 10000, bounded)
    this is the identity on whole-hour flags of 1970..2069: identical begin/end flags after write + read."""
    prop = 'C08'
    target = AT + '::ConvertCAMxTime'
    max_paths = 60

    def __init__(self, unit):
        self.unit = unit          # 'hours' | 'HHMM'
        self.name = 'ConvertCAMxTime[time in %s]' % unit

    def inputs(self, ctx, I):
        n = ctx.fresh('n')
        self.n, self.nv = n, ctx.fresh('nvars')
        self.date = sym_array('date', (n,), 'i')
        self.time = sym_array('time', (n,), 'f')
        self.pre = (self.date.buf.get, self.time.buf.get)
        return dict(date=self.date, time=self.time, nvars=self.nv)

    def requires(self, inp):
        p = z3.Int('rq_p')
        d, t = self.date.get(p), self.time.get(p)
        if self.unit == 'hours':
            whole = And(ge(t, 0), le(t, 23), eq(t, sym.to_real(sym.trunc(t))))
        else:
            whole = And(ge(t, 0), le(t, 2300), eq(t, sym.to_real(mul(sym.floordiv(sym.trunc(t), 100), 100))))
        return And(ge(self.n, 1), ge(self.nv, 1),
                   z3.ForAll([p], Implies(And(ge(p, 0), lt(p, self.n)),
                                          And(ge(d, 1), le(d, 99366), ge(sym.mod(d, 1000), 1), le(sym.mod(d, 1000), 366), whole))))

    def small(self, inp):
        return And(le(self.n, 2), le(self.nv, 2))

    def ensures(self, inp, res, I):
        if not isinstance(res, SArr) or res.ndim != 3:
            return [('returns TFLAG (steps, variables, 2)', False)]
        t, v = z3.Int('t'), z3.Int('v')
        rng = And(ge(t, 0), lt(t, self.n), ge(v, 0), lt(v, self.nv))
        d0, t0 = self.pre[0]((t,)), self.pre[1]((t,))
        hour = sym.trunc(t0) if self.unit == 'hours' else sym.floordiv(sym.trunc(t0), 100)
        return [('shape', And(eq(res.shape[0], self.n), eq(res.shape[1], self.nv), eq(res.shape[2], 2))),
                ('date flag = century + YYJJJ, per record', Implies(rng, eq(res.get(t, v, 0), add(d0, sym.ite(lt(d0, 70000), 2000000, 1900000))))),
                ('time flag = HHMMSS of the whole hour', Implies(rng, eq(res.get(t, v, 1), mul(hour, 10000)))),
                ('dimensions', tuple(res.attrs.get('dimensions', ())) == ('TSTEP', 'VAR', 'DATE-TIME')),
                ('inputs-unchanged', Implies(And(ge(t, 0), lt(t, self.n)), And(eq(self.date.buf.get((t,)), d0), eq(self.time.buf.get((t,)), t0))))]


    # -- replay on the real function -----------------------------------------------------------------------------------
    def concretize(self, model, inp):
        from pyvc.verify import model_value
        return dict(unit=self.unit, nvars=model_value(model, self.nv), date=self.date.model_value(model), time=self.time.model_value(model))

    def concretize_without_model(self, inp):
        return dict(unit=self.unit, nvars=2, date=None, time=None)

    def replay(self, c):
        import numpy as np
        import_real()
        from PseudoNetCDF.ArrayTransforms import ConvertCAMxTime
        cands = []
        if c.get('date') and c['date'].get('values') and c.get('time') and c['time'].get('values') is not None:
            try:
                cands.append(([int(x) for x in c['date']['values']], [float(fl(x)) for x in c['time']['values']]))
            except Exception:
                pass
        hrs = [22., 23., 0., 1.]
        cands.append(([99365, 99365, 1, 1], hrs if c['unit'] == 'hours' else [h * 100 for h in hrs]))     # 1999-12-31 -> 2000-01-01
        cands.append(([2154], [0.]))
        out = None
        for d, t in cands:
            nv = max(1, min(int(c.get('nvars') or 1), 4))
            d0, t0 = np.array(d, 'i'), np.array(t, 'f')
            res = np.asarray(ConvertCAMxTime(d0.copy(), t0.copy(), nv))
            hour = [int(x) if c['unit'] == 'hours' else int(x) // 100 for x in t]
            exp = [(dd + (2000000 if dd < 70000 else 1900000), h * 10000) for dd, h in zip(d, hour)]
            ok = res.shape == (len(d), nv, 2) and all(tuple(int(x) for x in res[i, v]) == exp[i] for i in range(len(d)) for v in range(nv))
            r = (ok, dict(date=d, time=t, nvars=nv, got=res[:, 0].tolist(), expected=exp))
            if not ok:
                return r
            out = out or r
        return out


CONTRACTS = [ConvertTime('hours'), ConvertTime('HHMM')]


def bounded(tier, seed):
    from rtc import camx
    return camx.run_c08(tier, seed)


def bounded_replay(p):
    return False, p.get('what')

META = dict(
    level='other',
    technique='the time-flag decoder ConvertCAMxTime (used by every memory-mapped CAMx reader) proved by pyvc for any number of records; data, headers and the writers by '
              'bounded run-time contract: generated files through library reader/writer, byte comparison of rewrites, reference codec',
    text='Proved for ANY number of records and variable columns, two-digit-year julian dates and whole-hour times given as hours or as HHMM: the date flag is century + YYJJJ with the '
         'century decided per record (70..99 -> 19xx, 00..69 -> 20xx), the time flag is the HHMMSS of the hour, in every variable column, inputs unchanged. Bounded: write/read '
         'round trip (bit-exact data, begin/end time flags, grid header, species order) and byte-identical rewrite on generated files of the CAMx formats incl. lateral boundary '
         'files in 5 projections and day / year roll-overs.',
    note='only the reader half of the time codec is proved; the writers build numpy structured arrays and write them with tofile (outside the deductive subset): layout, '
         'payload and the writer half of the time codec are bounded only (reference encoder in rtc/refcodec.py written from the CAMx format description).',
    assumptions=['numpy array construction / swapaxes / in-place arithmetic on views / where / max / all / repeat as modelled in pyvc/nparr.py (trusted)',
                 'int32 cast of whole numbers is exact'],
    explanation='mixed: discharged obligations for ConvertCAMxTime + bounded reference-codec round trips')
