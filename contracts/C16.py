"""C16 -- value-to-index lookup returns the containing or nearest cell.

core/_files.py::val2idx is executed symbolically for a coordinate of ARBITRARY length n >= 2
and an arbitrary vector of queries; post-conditions are stated for an arbitrary query q
and (nearest) an arbitrary competitor cell j, so no induction is needed.  np.interp is a
trusted contract whose PRECONDITION (xp strictly increasing) is an obligation at each call.
"""
import z3
from .common import *   # noqa
from pyvc import nparr
from pyvc.nparr import sym_array, SArr

F = 'core/_files.py'
TARGET = F + '::PseudoNetCDFFile.val2idx'


def increasing(a, n):
    i, j = z3.Int('mi'), z3.Int('mj')
    return z3.ForAll([i, j], Implies(And(ge(i, 0), lt(i, j), lt(j, n)), lt(a.get(i), a.get(j))))


def decreasing(a, n):
    i, j = z3.Int('mi'), z3.Int('mj')
    return z3.ForAll([i, j], Implies(And(ge(i, 0), lt(i, j), lt(j, n)), gt(a.get(i), a.get(j))))


class Val2Idx(Contract):
    parallel_paths = False
    prop = 'C16'
    target = TARGET
    max_paths = 300

    def __init__(self, method, direction, bnds, bounds='warn'):
        self.method, self.direction, self.bnds, self.bounds = method, direction, bnds, bounds
        self.name = 'val2idx[%s,%s,bounds-var=%s,bounds=%s]' % (method, direction, bnds, bounds)
        self.prefer_solver = 'z3-4.8.12' if (method == 'bounds' and bnds is None) else None
        self.parallel_paths = (method == 'bounds' and bnds is None)

    def inputs(self, ctx, I):
        n, m = ctx.fresh('n'), ctx.fresh('m')
        x = sym_array('x', (n,), 'f', attrs=dict(units='m'))
        variables = {'x': x}
        e = None
        if self.bnds == '1d':
            e = sym_array('x_edges', (add(n, 1),), 'f')
            variables['x_bounds'] = e
        elif self.bnds == 'nx2':
            e = sym_array('x_bnds2', (n, 2), 'f')
            variables['x_bounds'] = e
        val = sym_array('val', (m,), 'f')
        f = pnc_file(I, variables=variables, dimensions={'x': dim_obj(I, 'x', n)})
        self.x0 = x.buf.get
        return dict(self=f, dim='x', val=val, method=self.method, bounds=self.bounds, n=n, m=m, x=x, e=e)

    def call_args(self, inp):
        return [inp['self'], inp['dim'], inp['val']], dict(method=inp['method'], bounds=inp['bounds'])

    # edges of cell c as the file defines them
    def edge(self, inp, c):
        x, e, n = inp['x'], inp['e'], inp['n']
        if self.bnds == '1d':
            return e.get(c)
        if self.bnds == 'nx2':
            return ite(lt(c, n), e.get(c, 0), e.get(sub(n, 1), 1))
        # derived edges (no bounds variable): midpoints between centres; the two outer edges
        # are extended by half the spacing when the spacing is uniform, else they are the
        # outer centres themselves (this is the library's documented approximation)
        mid = lambda k: sym.truediv(add(x.get(sub(k, 1)), x.get(k)), 2)
        kk = z3.Int('uk')
        d0 = sub(x.get(1), x.get(0))
        uniform = z3.ForAll([kk], Implies(And(ge(kk, 0), lt(kk, sub(n, 1))), eq(sub(x.get(add(kk, 1)), x.get(kk)), d0)))
        first = ite(uniform, sub(x.get(0), sym.truediv(d0, 2)), x.get(0))
        dl = sub(x.get(sub(n, 1)), x.get(sub(n, 2)))
        last = ite(uniform, add(x.get(sub(n, 1)), sym.truediv(dl, 2)), x.get(sub(n, 1)))
        return ite(eq(c, 0), first, ite(eq(c, n), last, mid(c)))

    def requires(self, inp):
        x, e, n, m = inp['x'], inp['e'], inp['n'], inp['m']
        mono = increasing if self.direction == 'ascending' else decreasing
        r = And(ge(n, 2), ge(m, 1), mono(x, n))
        if self.bnds == '1d':
            r = And(r, mono(e, add(n, 1)))
            k = z3.Int('ek')
            inside = (lambda a, b, c: And(lt(a, b), lt(b, c))) if self.direction == 'ascending' else (lambda a, b, c: And(gt(a, b), gt(b, c)))
            r = And(r, z3.ForAll([k], Implies(And(ge(k, 0), lt(k, n)), inside(e.get(k), x.get(k), e.get(add(k, 1))))))
        elif self.bnds == 'nx2':
            k = z3.Int('ek')
            cmp = lt if self.direction == 'ascending' else gt
            r = And(r, z3.ForAll([k], Implies(And(ge(k, 0), lt(k, n)),
                                              And(cmp(e.get(k, 0), x.get(k)), cmp(x.get(k), e.get(k, 1)),
                                                  Implies(lt(k, sub(n, 1)), eq(e.get(k, 1), e.get(add(k, 1), 0)))))))
        if self.bnds is None and self.method == 'bounds':
            pass
        return r

    def query_in_range(self, inp, v):
        x, n = inp['x'], inp['n']
        if self.method == 'bounds':
            lo, hi = self.edge(inp, 0), self.edge(inp, n)
        else:
            lo, hi = x.get(0), x.get(sub(n, 1))
        if self.direction == 'ascending':
            return And(ge(v, lo), le(v, hi))
        return And(le(v, lo), ge(v, hi))

    def ensures(self, inp, res, I):
        x, n, m, val = inp['x'], inp['n'], inp['m'], inp['val']
        if not isinstance(res, SArr):
            return [('returns-index-array', False)]
        q, j = z3.Int('q'), z3.Int('j')
        v = val.get(q)
        r = res.get(q)
        inq = And(ge(q, 0), lt(q, m), self.query_in_range(inp, v))
        out = [('shape', eq(res.shape[0], m)),
               ('frame:coordinate-unchanged', frame_same(x, self.x0, n)),
               ]
        late = [('lemma:index-in-range', Implies(inq, And(ge(r, 0), lt(r, n))))]
        g = (I.ctx.ghost.get('interp') or [None])[-1] if I is not None else None
        if g is not None:
            # staged lemmas about the cell k that np.interp located for this query
            k = g['cell'](v)
            xp, fp, nn = g['xp'], g['fp'], g['n']
            last = sub(nn, 1)
            incell = And(ge(k, 0), lt(k, last), le(xp.get(k), v), lt(v, xp.get(add(k, 1))))
            out.append(('lemma:cell-or-last', Implies(inq, Or(incell, eq(v, xp.get(last))))))
            fk, fk1 = fp.get(k), fp.get(add(k, 1))
            t = sym.truediv(sub(v, xp.get(k)), sub(xp.get(add(k, 1)), xp.get(k)))
            out.append(('lemma:unit-index-step', Implies(And(inq, incell), eq(sub(fk1, fk), 1 if self.direction == 'ascending' else -1))))
            out.append(('lemma:fraction-in-unit-interval', Implies(And(inq, incell), And(ge(t, 0), lt(t, 1)))))
            if self.method == 'nearest':
                out.append(('lemma:samples-are-coordinates', Implies(And(inq, incell), And(
                    eq(x.get(sym.trunc(fk)), xp.get(k)), eq(x.get(sym.trunc(fk1)), xp.get(add(k, 1)))))))
                out.append(('lemma:r-is-an-end-of-the-cell', Implies(And(inq, incell), Or(eq(r, fk), eq(r, fk1)))))
                out.append(('lemma:closer-of-the-two', Implies(And(inq, incell), And(
                    le(sym.abs_(sub(x.get(r), v)), sym.abs_(sub(xp.get(k), v))),
                    le(sym.abs_(sub(x.get(r), v)), sym.abs_(sub(xp.get(add(k, 1)), v)))))))
            else:
                c = z3.Int('ec')
                espec = self.edge(inp, c if self.direction == 'ascending' else sub(n, c))
                out.append(('lemma:edges-as-specified', z3.ForAll([c], Implies(And(ge(c, 0), le(c, n)), eq(xp.get(c), espec)))))
                out.append(('lemma:r-is-lower-index-of-cell', Implies(And(inq, incell), Or(
                    eq(r, sym.min_(fk, fk1)), And(eq(v, xp.get(k)), eq(r, fk))))))
        out += late
        if self.method == 'nearest':
            out.append(('nearest[q,j]', Implies(And(inq, ge(j, 0), lt(j, n)),
                                               le(sym.abs_(sub(x.get(r), v)), sym.abs_(sub(x.get(j), v))))))
        else:
            lo, hi = self.edge(inp, r), self.edge(inp, add(r, 1))
            if self.direction == 'ascending':
                cont = And(le(lo, v), Or(lt(v, hi), And(eq(r, sub(n, 1)), eq(v, hi))))
            else:
                cont = And(ge(lo, v), Or(gt(v, hi), And(eq(r, sub(n, 1)), eq(v, hi))))
            out.append(('containing-cell[q]', Implies(inq, And(ge(r, 0), lt(r, n), cont))))
        if res.mask is not None:
            out.append(('in-range-not-masked[q]', Implies(inq, Not(res.mask.get(q)))))
        return out

    def on_raise(self, inp, exc, I):
        # raising is the requested behaviour only for bounds='error' with an out-of-range query
        return [('no-raise[%s]' % exc, False)]

    def small(self, inp):
        return And(le(inp['n'], 4), le(inp['m'], 2))

    def concretize(self, model, inp):
        d = dict(n=model_value(model, inp['n']), m=model_value(model, inp['m']),
                 x=inp['x'].model_value(model), val=inp['val'].model_value(model))
        if inp['e'] is not None:
            d['e'] = inp['e'].model_value(model)
        return d

    def replay(self, c):
        """replays the counter-model; because the proof is over reals, the model's coordinate
        may miss a float-exact condition (e.g. uniform spacing), so canonical coordinates of the
        same length/direction and queries at centres/edges/mid-cells are tried as well"""
        if 'values' not in c['x'] or 'values' not in c['val']:
            return None
        import numpy as np
        n = len(c['x']['values'])
        sgn = 1 if self.direction == 'ascending' else -1
        cands = [(np.array(c['x']['values'], 'd'), np.array(c['val']['values'], 'd'), c.get('e', {}).get('values') if c.get('e') else None)]
        for base in (np.arange(n, dtype='d') * 10 + 10, np.cumsum(np.arange(1, n + 1, dtype='d'))):
            cands.append((base[::sgn].copy(), None, 'derive'))
        last = None
        for x, val, e in cands:
            r = self.replay_one(x, val, e)
            if r is None:
                continue
            last = r
            if r[0] is False:
                return r
        return last

    def replay_one(self, x, val, e):
        P = import_real()
        import numpy as np
        import warnings
        f = P.PseudoNetCDFFile()
        f.createDimension('x', x.size)
        f.createVariable('x', 'd', ('x',))[:] = x
        d = np.diff(x) / 2
        if (d == d[0]).all():
            derived = np.concatenate([[x[0] - d[0]], x[1:] - d, [x[-1] + d[-1]]])
        else:
            derived = np.concatenate([[x[0]], x[1:] - d, [x[-1]]])
        if self.bnds == '1d':
            edges = np.array(e, 'd') if e is not None and not isinstance(e, str) else derived
            f.createDimension('xe', x.size + 1)
            f.createVariable('x_bounds', 'd', ('xe',))[:] = edges
        elif self.bnds == 'nx2':
            b = np.array(e, 'd') if e is not None and not isinstance(e, str) else np.array([derived[:-1], derived[1:]]).T
            f.createDimension('nv', 2)
            f.createVariable('x_bounds', 'd', ('x', 'nv'))[:] = b
            edges = np.append(b[:, 0], b[-1, 1])
        else:
            edges = derived
        if val is None:
            val = np.concatenate([x, edges, (edges[1:] + edges[:-1]) / 2, (x[1:] * 3 + x[:-1]) / 4])
        else:
            val = np.concatenate([val, x, (edges[1:] + edges[:-1]) / 2])
        try:
            with warnings.catch_warnings():
                warnings.simplefilter('ignore')
                out = f.val2idx('x', val, method=self.method, bounds=self.bounds)
        except Exception as ex:
            return False, dict(raised=type(ex).__name__, message=str(ex)[:200], x=x.tolist(), val=val.tolist())
        bad = []
        if not np.array_equal(f.variables['x'][:], x):
            bad.append('coordinate modified: %s' % f.variables['x'][:].tolist())
        out = np.ma.asarray(out)
        for k, v in enumerate(val):
            lo, hi = (edges[0], edges[-1]) if self.method == 'bounds' else (x[0], x[-1])
            if not (min(lo, hi) <= v <= max(lo, hi)):
                continue
            if np.ma.getmaskarray(out)[k]:
                bad.append('val %r masked' % v)
                continue
            r = int(out[k])
            if not 0 <= r < x.size:
                bad.append('val %r -> index %d out of range' % (v, r))
            elif self.method == 'nearest':
                if abs(x[r] - v) > np.abs(x - v).min():
                    bad.append('val %r -> %d, nearest is %d' % (v, r, int(np.abs(x - v).argmin())))
            else:
                a, b = sorted((edges[r], edges[r + 1]))
                if not (a <= v <= b):
                    bad.append('val %r -> cell %d = [%r, %r]' % (v, r, edges[r], edges[r + 1]))
        return (not bad), dict(x=x.tolist(), val=val.tolist()[:8], edges=np.asarray(edges).tolist(), out=out.tolist()[:8], failed=bad[:4])


def frame_same(arr, get0, n):
    """buffer content of `arr` equals its content at entry"""
    i = z3.Int('fr_i')
    return z3.ForAll([i], Implies(And(ge(i, 0), lt(i, n)), eq(arr.buf.get((i,)), get0((i,)))))


CONTRACTS = [Val2Idx(m, d, b) for m in ('nearest', 'bounds') for d in ('ascending', 'descending')
             for b in (None, '1d', 'nx2')]

META = dict(
    level='proof',
    technique='contract-based deductive verification (np.interp as trusted contract with precondition; arbitrary-query post-conditions)',
    text='val2idx is proved, for coordinates of any length and any query vector, to return for every in-range query the nearest '
         'coordinate (method nearest) or the cell whose edges contain it (method bounds), for ascending and descending '
         'coordinates and the three bounds representations, without modifying the coordinate variable.',
    note='Floats are reals (A-REAL). np.interp/np.round/np.diff/np.concatenate/astype are trusted contracts; the monotonicity '
         'precondition of np.interp is an obligation at each call site. method=exact and the datetime front-ends are covered by '
         'the bounded harness only.',
    assumptions=[sym.A_REAL],
    explanation='')


# ---------------------------------------------------------------------------
# bounded stand-in: real val2idx / time2idx vs brute force (covers dtypes, exact, datetime front-ends)
# ---------------------------------------------------------------------------

def bounded(tier, seed):
    from rtc import harness as H
    import numpy as np
    import warnings
    from datetime import datetime, timedelta, timezone
    P = H.real()
    run = H.Run('C16', tier, seed, budget_s=60 if tier == 'quick' else 400)
    coords = [[10, 20, 30, 40], [1, 2, 4, 8, 16], [0, 1], [0, 100, 200, 300, 400, 500], [5, 6, 8, 9, 13, 14], list(range(1, 49, 2))]
    if tier != 'quick':
        coords += [list(run.nprng.integers(1, 5, n).cumsum()) for n in (3, 4, 6)]

    def edges_of(x):
        d = np.diff(x) / 2
        if (d == d[0]).all():
            return np.concatenate([[x[0] - d[0]], x[1:] - d, [x[-1] + d[-1]]])
        return np.concatenate([[x[0]], x[1:] - d, [x[-1]]])
    for base in coords:
        for sgn in (1, -1):
            for dt in ('f8', 'f4', 'i4'):
                x = np.array(base[::sgn], dtype=dt)
                xd = x.astype('d')
                for bnds in (None, '1d', 'nx2'):
                    e = edges_of(xd)
                    f = P.PseudoNetCDFFile()
                    f.createDimension('x', x.size)
                    f.createVariable('x', dt, ('x',), values=x.copy())
                    if bnds == '1d':
                        f.createDimension('xe', x.size + 1)
                        f.createVariable('x_bounds', 'd', ('xe',), values=e.copy())
                    elif bnds == 'nx2':
                        f.createDimension('nv', 2)
                        f.createVariable('x_bounds', 'd', ('x', 'nv'), values=np.array([e[:-1], e[1:]]).T.copy())
                    eps = np.abs(np.diff(e)).min() * 1e-6
                    qs = np.concatenate([xd, e, (e[1:] + e[:-1]) / 2, e + eps, e - eps, (xd[1:] * 3 + xd[:-1]) / 4,
                                         [e.min() - 3, e.max() + 3]])
                    # queries are not unique in general: every other query once more, the out-of-domain ones twice more
                    qs = np.concatenate([qs, qs[::2], qs[-2:], qs[-2:]])
                    for method in ('nearest', 'bounds', 'exact'):
                        sig = (base, sgn, dt, bnds, method)

                        def t(method=method, f=f, xd=xd, e=e, qs=qs, x=x):
                            out = np.ma.asarray(f.val2idx('x', qs, method=method, bounds='ignore'))
                            if not np.array_equal(np.asarray(f.variables['x'][:]), x):
                                return 'coordinate modified'
                            msk = np.ma.getmaskarray(out)
                            for q, r, m in zip(qs, out.filled(-9), msk):
                                lo, hi = (e.min(), e.max()) if method == 'bounds' else (xd.min(), xd.max())
                                inr = lo <= q <= hi
                                if method == 'exact':
                                    if (q in xd) != (not m):
                                        return 'exact: query %r masked=%s' % (q, m)
                                    if not m and xd[r] != q:
                                        return 'exact: query %r -> %d (%r)' % (q, r, xd[r])
                                    continue
                                if not inr:
                                    continue
                                if m:
                                    return '%s: in-range query %r masked' % (method, q)
                                if not 0 <= r < xd.size:
                                    return '%s: query %r -> index %d' % (method, q, r)
                                if method == 'nearest':
                                    if abs(xd[r] - q) > np.abs(xd - q).min() * (1 + 1e-12) + 1e-300:
                                        return 'nearest: query %r -> %d (x=%r), nearest is %d' % (q, r, xd[r], int(np.abs(xd - q).argmin()))
                                else:
                                    a, b = sorted((e[r], e[r + 1]))
                                    if not a <= q <= b:
                                        return 'bounds: query %r -> cell %d = [%r, %r]' % (q, r, e[r], e[r + 1])
                            return None
                        run.case('C16:val2idx:%s,%s,%s,bounds-var=%s' % (method, 'asc' if sgn > 0 else 'desc', dt, bnds), sig, t)
                    # out-of-range handling as requested
                    qout = np.array([e.min() - 5.0, xd[0], e.max() + 5.0])

                    def t_err(f=f, qout=qout):
                        try:
                            f.val2idx('x', qout, method='nearest', bounds='error')
                        except ValueError:
                            return None
                        return "bounds='error' did not reject an out-of-range value"
                    run.case('C16:val2idx:out-of-range rejected', (base, sgn, dt, bnds), t_err)

                    def t_mask(f=f, qout=qout):
                        out = f.val2idx('x', qout, method='nearest', bounds='ignore', left=np.nan, right=np.nan, clean='mask')
                        m = np.ma.getmaskarray(out)
                        if not (m[0] and m[2] and not m[1]):
                            return 'left/right=nan, clean=mask: masks %r' % m.tolist()
                        return None
                    run.case('C16:val2idx:out-of-range masked', (base, sgn, dt, bnds), t_mask)
    # datetime front-ends
    for step_h, n, tdt in ((1, 6, 'f8'), (24, 4, 'f8'), (1, 6, 'i4'), (3, 5, 'f4')):
        f = P.PseudoNetCDFFile()
        f.createDimension('time', n)
        v = f.createVariable('time', tdt, ('time',), values=(np.arange(n) * step_h).astype(tdt))
        v.units = 'hours since 2001-02-27 00:00:00+0000'
        ref = datetime(2001, 2, 27, tzinfo=timezone.utc)
        times = [ref + timedelta(hours=step_h * i) for i in range(n)]

        def t_time():
            idx = f.time2idx(times, dim='time')
            if not np.array_equal(np.asarray(idx), np.arange(n)):
                return 'time2idx(getTimes()) = %r' % (np.asarray(idx).tolist(),)
            q = [ref + timedelta(hours=step_h * i + 0.4 * step_h) for i in range(n - 1)] + \
                [ref + timedelta(hours=step_h * i + 0.6 * step_h) for i in range(n - 1)]
            idx = np.asarray(f.time2idx(q, dim='time'))
            exp = np.concatenate([np.arange(n - 1), np.arange(1, n)])
            if not np.array_equal(idx, exp):
                return 'time2idx at 0.4/0.6 of a step: %r expected %r' % (idx.tolist(), exp.tolist())
            # instants a millisecond before / after the middle of a step (the nearer coordinate is unambiguous in exact time arithmetic)
            ms = timedelta(milliseconds=1)
            qm = [ref + timedelta(hours=step_h * (i + 0.5)) - ms for i in range(n - 1)] + [ref + timedelta(hours=step_h * (i + 0.5)) + ms for i in range(n - 1)]
            idxm = np.asarray(f.time2idx(qm, dim='time'))
            if not np.array_equal(idxm, exp):
                return 'time2idx one millisecond before / after the middle of a step: %r expected %r' % (idxm.tolist(), exp.tolist())
            got = f.getTimes()
            if [t.replace(tzinfo=timezone.utc) for t in got] != times:
                return 'getTimes differs'
            num = f.date2num(times, 'time')
            if not np.allclose(num, np.arange(n) * step_h):
                return 'date2num(getTimes()) = %r' % (num,)
            # the same instants expressed in other time zones are the same instants
            for off in (timedelta(hours=-5), timedelta(hours=5, minutes=30), timedelta(hours=9)):
                tz = timezone(off)
                local = [t_.astimezone(tz) for t_ in times]
                num = f.date2num(local, 'time')
                if not np.allclose(num, np.arange(n) * step_h):
                    return 'date2num of the same instants written with UTC offset %s = %r' % (off, np.asarray(num).tolist())
                idx = np.asarray(f.time2idx([t_.astimezone(tz) for t_ in q], dim='time'))
                if not np.array_equal(idx, exp):
                    return 'time2idx of instants written with UTC offset %s: %r expected %r' % (off, idx.tolist(), exp.tolist())
            return None
        run.case('C16:time2idx/date2num', (step_h, n, tdt), t_time)
    return run.result(
        rule='real val2idx vs brute-force search: coordinates x directions x dtypes(f8,f4,i4) x bounds representations x methods; queries at every '
             'centre, edge, mid-cell, +-1e-6 cell around every edge, quarter points and beyond both ends; time2idx/date2num on hourly/daily axes',
        bound='coordinates of length 2-6 and one of 24 (quick: 6 shapes), queries with repeated values, 3 dtypes, 3 bounds representations, 3 methods')


def bounded_replay(p):
    return False, p.get('what')
