"""C12 -- decoded times are the true instants for every supported encoding.

getTimes (core/_files.py) and gettimes (coordutil.py) are executed symbolically on a
file with a time axis of ARBITRARY length; the post-condition is stated for an
arbitrary element i:  out[i] is the instant the file encodes (seconds on the
proleptic Gregorian time line, spec functions in pyvc/dt.py).
"""
import z3
from .common import *   # noqa
from pyvc import nparr, dt
from pyvc.nparr import sym_array, SArr
from pyvc.dt import DT, TD, instant_yyyyjjj, days_in_year

F = 'core/_files.py'
CU = 'coordutil.py'


def valid_date(d):
    y, j = sym.floordiv(d, 1000), sym.mod(d, 1000)
    return And(ge(y, 1), le(y, 9999), ge(j, 1), le(j, days_in_year(y)))


def valid_time(t):
    h, m, s = sym.floordiv(t, 10000), sym.mod(sym.floordiv(t, 100), 100), sym.mod(t, 100)
    return And(ge(t, 0), lt(h, 24), lt(m, 60), lt(s, 60))


def hhmmss_seconds(t):
    return add(add(mul(sym.floordiv(t, 10000), 3600), mul(sym.mod(sym.floordiv(t, 100), 100), 60)), sym.mod(t, 100))


def all_elems(n, f):
    i = z3.Int('q_i')
    return z3.ForAll([i], Implies(And(ge(i, 0), lt(i, n)), f(i)))


def is_dt_array(res):
    return isinstance(res, SArr) and res.kind == 'O'


class GetTimesTFLAG(Contract):
    prop = 'C12'

    def __init__(self, target, bounds, with_tstep=True):
        self.target = target
        self.bounds = bounds
        self.with_tstep = with_tstep
        self.name = '%s[TFLAG,bounds=%s%s]' % (target.split('::')[1], bounds, '' if with_tstep else ',no TSTEP attr')

    def inputs(self, ctx, I):
        n, nv = ctx.fresh('ntimes'), ctx.fresh('nvars')
        tflag = sym_array('TFLAG', (n, nv, 2), 'i', attrs=dict(units='<YYYYDDD,HHMMSS>'))
        attrs = {}
        if self.with_tstep:
            attrs['TSTEP'] = ctx.fresh('TSTEP')
        f = pnc_file(I, variables={'TFLAG': tflag}, dimensions={'TSTEP': dim_obj(I, 'TSTEP', n)}, attrs=attrs)
        inp = dict(self=f, n=n, nv=nv, tflag=tflag)
        if 'getTimes' in self.target:
            inp['bounds'] = self.bounds
        else:
            inp['ifile'] = f
            del inp['self']
        return inp

    def call_args(self, inp):
        if 'self' in inp:
            return [inp['self']], dict(bounds=inp['bounds'])
        return [inp['ifile']], {}

    def requires(self, inp):
        tf, n = inp['tflag'], inp['n']
        f = inp.get('self') or inp.get('ifile')
        r = And(ge(n, 1), ge(inp['nv'], 1),
                all_elems(n, lambda i: And(valid_date(tf.get(i, 0, 0)), valid_time(tf.get(i, 0, 1)))))
        if 'TSTEP' in f.attrs:
            r = And(r, ge(f.attrs['TSTEP'], 0))
        return r

    def ensures(self, inp, res, I):
        tf, n = inp['tflag'], inp['n']
        if not is_dt_array(res):
            return [('returns-datetime-array', False)]
        i = z3.Int('i')
        out = [('length', eq(res.shape[0], add(n, 1) if self.bounds else n)),
               ('instant[i]', Implies(And(ge(i, 0), lt(i, n)),
                                      eq(res.get(i).sec, instant_yyyyjjj(tf.get(i, 0, 0), tf.get(i, 0, 1)))))]
        if self.bounds and self.with_tstep:
            f = inp['self']
            last = sub(n, 1)
            out.append(('closing-bound', eq(res.get(n).sec, add(instant_yyyyjjj(tf.get(last, 0, 0), tf.get(last, 0, 1)),
                                                                hhmmss_seconds(f.attrs['TSTEP'])))))
        return out

    def concretize(self, model, inp):
        return dict(n=model_value(model, inp['n']), nv=model_value(model, inp['nv']), tflag=inp['tflag'].model_value(model),
                    TSTEP=model_value(model, (inp.get('self') or inp['ifile']).attrs.get('TSTEP')))

    def replay(self, c):
        vals = c['tflag'].get('values') if isinstance(c.get('tflag'), dict) else None
        n, nv = c['n'], c['nv']
        if not isinstance(n, int) or n > 12 or nv > 4:
            return None
        P = import_real()
        import numpy as np
        fn = real_tflag(c, n, nv)
        f = P.PseudoNetCDFFile()
        f.createDimension('TSTEP', n); f.createDimension('VAR', nv); f.createDimension('DATE-TIME', 2)
        v = f.createVariable('TFLAG', 'i', ('TSTEP', 'VAR', 'DATE-TIME'))
        v[:] = fn
        if c.get('TSTEP') is not None:
            f.TSTEP = c['TSTEP']
        try:
            if 'getTimes' in self.target:
                out = f.getTimes(bounds=self.bounds)
            else:
                from PseudoNetCDF.coordutil import gettimes
                out = gettimes(f)
        except Exception as e:
            return False, dict(raised=type(e).__name__, message=str(e)[:200])
        secs = to_secs(out)
        bad = []
        if len(secs) != n + (1 if self.bounds else 0):
            bad.append('length %d' % len(secs))
        for i in range(min(n, len(secs))):
            exp = instant_yyyyjjj(int(fn[i, 0, 0]), int(fn[i, 0, 1]))
            if abs(float(secs[i]) - float(exp)) > 1e-3:
                bad.append('instant[%d]: got %s expected %s' % (i, float(secs[i]), float(exp)))
        if self.bounds and self.with_tstep and len(secs) == n + 1:
            exp = add(instant_yyyyjjj(int(fn[n - 1, 0, 0]), int(fn[n - 1, 0, 1])), hhmmss_seconds(c['TSTEP']))
            if abs(float(secs[n]) - float(exp)) > 1e-3:
                bad.append('closing-bound: got %s expected %s' % (float(secs[n]), float(exp)))
        return (not bad), dict(tflag=fn[:, 0, :].tolist(), failed=bad[:4])


def to_secs(out):
    from datetime import datetime, timezone
    res = []
    for t in out:
        if t.tzinfo is None:
            t = t.replace(tzinfo=timezone.utc)
        res.append(sym.conc((t - datetime(1, 1, 1, tzinfo=timezone.utc)).total_seconds()))
    return res


def real_tflag(c, n, nv):
    """TFLAG array from the counter-model: the model fixes the uninterpreted function only
    where the proof looked; remaining entries are filled with the first row's values"""
    import numpy as np
    vals = c['tflag'].get('values')
    if vals is None:
        return np.zeros((n, nv, 2), 'i')
    return np.array(vals, dtype='i').reshape(n, nv, 2)


class GetTimesSDATE(Contract):
    """start date / start time / step attributes: times[i] = instant(SDATE, STIME) + i * seconds(TSTEP)"""
    prop = 'C12'
    target = F + '::PseudoNetCDFFile.getTimes'

    def __init__(self, bounds):
        self.bounds = bounds
        self.name = 'getTimes[SDATE/STIME/TSTEP,bounds=%s]' % bounds

    def inputs(self, ctx, I):
        n = ctx.fresh('ntimes')
        attrs = dict(SDATE=ctx.fresh('SDATE'), STIME=ctx.fresh('STIME'), TSTEP=ctx.fresh('TSTEP'))
        f = pnc_file(I, variables={}, dimensions={'TSTEP': dim_obj(I, 'TSTEP', n)}, attrs=attrs)
        return dict(self=f, bounds=self.bounds, n=n)

    def call_args(self, inp):
        return [inp['self']], dict(bounds=inp['bounds'])

    def requires(self, inp):
        a = inp['self'].attrs
        return And(ge(inp['n'], 1), valid_date(a['SDATE']), valid_time(a['STIME']), ge(a['TSTEP'], 0))

    def ensures(self, inp, res, I):
        a = inp['self'].attrs
        n = inp['n']
        if not is_dt_array(res):
            return [('returns-datetime-array', False)]
        i = z3.Int('i')
        m = add(n, 1) if self.bounds else n
        return [('length', eq(res.shape[0], m)),
                ('instant[i]', Implies(And(ge(i, 0), lt(i, m)),
                                       eq(res.get(i).sec, add(instant_yyyyjjj(a['SDATE'], a['STIME']),
                                                              mul(i, hhmmss_seconds(a['TSTEP']))))))]

    def real(self, inp):
        P = import_real()
        import numpy as np
        a = inp['self'].attrs
        f = P.PseudoNetCDFFile()
        f.createDimension('TSTEP', inp['n'])
        f.SDATE, f.STIME, f.TSTEP = a['SDATE'], a['STIME'], a['TSTEP']
        out = f.getTimes(bounds=inp['bounds'])
        from datetime import datetime, timezone
        e = datetime(1, 1, 1, tzinfo=timezone.utc)
        secs = [sym.conc((t - e).total_seconds()) for t in out]
        return SArr((len(secs),), lambda q: DT(secs[q[0]] if not sym.is_sym(q[0]) else None), 'O')

    def replay(self, conc):
        if not hasattr(self, 'real'):
            return None
        inp = revive_(conc)
        try:
            res = self.real(inp)
        except Exception as e:
            return False, dict(raised=type(e).__name__, message=str(e)[:200])
        a = inp['self'].attrs
        m = inp['n'] + (1 if self.bounds else 0)
        bad = []
        if res.shape[0] != m:
            bad.append('length')
        for i in range(min(m, res.shape[0])):
            exp = add(instant_yyyyjjj(a['SDATE'], a['STIME']), mul(i, hhmmss_seconds(a['TSTEP'])))
            if res.get(i).sec != exp:
                bad.append('instant[%d]: got %s expected %s' % (i, float(res.get(i).sec), float(exp)))
        return (not bad), dict(failed=bad[:4])


def revive_(c):
    from pyvc.verify import revive
    return revive(c)


class ParseRefDate(Contract):
    """ASSUMED contract of coordutil._parse_ref_date (strptime based; external C code):
    returns a timezone-aware datetime with valid calendar fields.  Checked by the bounded
    harness against cftime, never proved."""
    prop = 'C12'
    target = CU + '::_parse_ref_date'

    def result(self, ctx, inp):
        y, mo, d = ctx.fresh('ref_year'), ctx.fresh('ref_month'), ctx.fresh('ref_day')
        h, mi, s = ctx.fresh('ref_hour'), ctx.fresh('ref_min'), ctx.fresh('ref_sec')
        ctx.assume(And(ge(y, 1), le(y, 9999), ge(mo, 1), le(mo, 12), ge(d, 1), le(d, dt.days_in_month(y, mo)),
                       ge(h, 0), lt(h, 24), ge(mi, 0), lt(mi, 60), ge(s, 0), lt(s, 60)))
        r = dt.make_dt(None, y, mo, d, h, mi, s, 0, dt.UTC, check=False)
        ctx.ghost['refdate'] = r
        return r


class GetTimesCF(Contract):
    """CF 'unit since reference' with a real-world calendar: out[i] = ref + time[i] * unit"""
    prop = 'C12'
    uses = [ParseRefDate()]
    UNITSEC = {'days': 86400, 'hours': 3600, 'minutes': 60, 'seconds': 1}

    def __init__(self, target, unit, calendar='standard'):
        self.target = target
        self.unit = unit
        self.calendar = calendar
        self.name = '%s[CF %s,%s]' % (target.split('::')[1], unit, calendar)

    def inputs(self, ctx, I):
        n = ctx.fresh('ntimes')
        attrs = dict(units='%s since REFERENCE-DATE' % self.unit)
        if self.calendar is not None:
            attrs['calendar'] = self.calendar
        tv = sym_array('time', (n,), 'f', attrs=attrs)
        f = pnc_file(I, variables={'time': tv}, dimensions={'time': dim_obj(I, 'time', n)})
        if 'getTimes' in self.target:
            return dict(self=f, n=n, time=tv)
        return dict(ifile=f, n=n, time=tv)

    def call_args(self, inp):
        return [inp.get('self') or inp.get('ifile')], {}

    def requires(self, inp):
        return ge(inp['n'], 1)

    def ensures(self, inp, res, I):
        if not is_dt_array(res):
            return [('returns-datetime-array', False)]
        ref = I.ctx.ghost.get('refdate')
        i = z3.Int('i')
        n = inp['n']
        return [('length', eq(res.shape[0], n)),
                ('instant[i]', Implies(And(ge(i, 0), lt(i, n)),
                                       eq(res.get(i).sec, add(ref.sec, mul(inp['time'].get(i), self.UNITSEC[self.unit])))))]

    def on_raise(self, inp, exc, I):
        return [('no-raise[%s]' % exc, False)]


class GetTimesTau0(Contract):
    prop = 'C12'

    def __init__(self, target):
        self.target = target
        self.name = '%s[tau0]' % target.split('::')[1]

    def inputs(self, ctx, I):
        n = ctx.fresh('ntimes')
        tv = sym_array('tau0', (n,), 'f', attrs=dict(units='hours since 1985-01-01 00:00:00 UTC'))
        f = pnc_file(I, variables={'tau0': tv}, dimensions={'time': dim_obj(I, 'time', n)})
        if 'getTimes' in self.target:
            return dict(self=f, n=n, tau0=tv)
        return dict(ifile=f, n=n, tau0=tv)

    def call_args(self, inp):
        return [inp.get('self') or inp.get('ifile')], {}

    def requires(self, inp):
        return ge(inp['n'], 1)

    def ensures(self, inp, res, I):
        if not is_dt_array(res):
            return [('returns-datetime-array', False)]
        i = z3.Int('i')
        e1985 = mul(add(sym.days_before_year(1985), 0), 86400)
        return [('length', eq(res.shape[0], inp['n'])),
                ('instant[i]', Implies(And(ge(i, 0), lt(i, inp['n'])),
                                       eq(res.get(i).sec, add(e1985, mul(inp['tau0'].get(i), 3600)))))]


GT = F + '::PseudoNetCDFFile.getTimes'
GT2 = CU + '::gettimes'
CONTRACTS = ([GetTimesTFLAG(GT, False), GetTimesTFLAG(GT, True), GetTimesTFLAG(GT2, False),
              GetTimesSDATE(False), GetTimesSDATE(True), GetTimesTau0(GT), GetTimesTau0(GT2)] +
             [GetTimesCF(GT, u, c) for u in ('days', 'hours', 'minutes', 'seconds') for c in ('standard', 'gregorian', None)] +
             [GetTimesCF(GT2, u) for u in ('days', 'hours', 'minutes', 'seconds')])

META = dict(
    level='proof',
    technique='contract-based deductive verification (arbitrary-element post-conditions over symbolic-length time axes)',
    text='getTimes / gettimes are proved, for time axes of any length and any valid flags, to return for every element the '
         'instant the encoding denotes: TFLAG (YYYYJJJ,HHMMSS) flags, SDATE/STIME/TSTEP attributes (incl. bounds=True), CF '
         '"unit since reference" with real-world calendars for all four units, and tau0 hours since 1985.',
    note='Floats are mathematical reals (A-REAL; micro-second rounding of timedelta not modelled). datetime/timedelta/strptime '
         'are trusted models; reference-date parsing (_parse_ref_date, strptime in C) is an ASSUMED contract checked only by '
         'the bounded harness; the 365/366-day calendar branch is covered by the bounded harness only.',
    assumptions=[sym.A_REAL],
    explanation='')


# ---------------------------------------------------------------------------
# bounded stand-in: getTimes vs cftime / independent julian arithmetic
# ---------------------------------------------------------------------------

REF_SPELLINGS = [
    ('{Y}-{m}-{d}', 0), ('{Y}-{m}-{d} 00:00:00', 0), ('{Y}-{m}-{d} 00:00:00 UTC', 0), ('{Y}-{m}-{d} 00:00 UTC', 0),
    ('{Y}-{m}-{d} 00 UTC', 0), ('{Y}-{m}-{d} 00:00:00Z', 0), ('{Y}-{m}-{d} 00:00Z', 0), ('{Y}-{m}-{d} 00Z', 0),
    ('{Y}-{m}-{d} 00:00:00+0000', 0), ('{Y}-{m}-{d} 00:00', 0), ('{Y}-{m}-{d} 00', 0), ('{Y}-{m}-{d} 06:30:00', 0),
    ('{Y}-{m}-{d} 00:00:00-0600', -6 * 3600), ('{Y}-{m}-{d} 00:00:00+0530', 5.5 * 3600), ('{Y}-{m}-{d} 12:00:00-06:00', -6 * 3600),
]


def bounded(tier, seed):
    from rtc import harness as H
    import numpy as np
    import cftime
    from datetime import datetime, timedelta, timezone
    P = H.real()
    run = H.Run('C12', tier, seed, budget_s=60 if tier == 'quick' else 500)
    utc = timezone.utc
    years = [1900, 1970, 1999, 2000, 2001, 2100]
    mds = [(1, 1), (2, 28), (3, 1), (12, 31)]
    offsets = [-36524.25, -366, -1, -0.5, 0, 0.5, 1, 30, 365, 366, 36524, 100000.0]      # before and after the reference date
    units = ['days', 'hours', 'minutes', 'seconds']
    stdcals = ['standard', 'gregorian', 'proleptic_gregorian', None]
    if tier == 'quick':
        years, mds = [1970, 2000, 2001], [(1, 1), (3, 1)]

    def mkfile(vals, unitstr, cal):
        f = P.PseudoNetCDFFile()
        f.createDimension('time', len(vals))
        v = f.createVariable('time', 'd', ('time',), values=np.array(vals, 'd'))
        v.units = unitstr
        if cal is not None:
            v.calendar = cal
        return f
    for Y in years:
        for (m, d) in mds:
            for sp, tzoff in REF_SPELLINGS:
                base = sp.format(Y='%04d' % Y, m='%02d' % m, d='%02d' % d)
                for unit in units:
                    for cal in (stdcals if (sp, unit) == (REF_SPELLINGS[1][0], 'hours') or tier != 'quick' else ['standard']):
                        if Y < 1583 and cal in ('standard', 'gregorian', None):
                            continue
                        unitstr = '%s since %s' % (unit, base)
                        f = mkfile(offsets, unitstr, cal)

                        def t(f=f, unitstr=unitstr, cal=cal):
                            got = f.getTimes()
                            exp = cftime.num2date(np.array(offsets, 'd'), unitstr, calendar=cal or 'standard',
                                                  only_use_cftime_datetimes=False, only_use_python_datetimes=True)
                            for g, e, o in zip(got, exp, offsets):
                                e = e.replace(tzinfo=utc)
                                if abs((g - e).total_seconds()) > 1e-3:
                                    return 'offset %r: getTimes %s, cftime %s' % (o, g.isoformat(), e.isoformat())
                            back = f.date2num(got, 'time')
                            if not np.allclose(back, offsets, rtol=1e-9, atol=1e-6):
                                return 'date2num(getTimes()) = %r' % (back.tolist(),)
                            idx = np.asarray(f.time2idx(got, dim='time'))
                            if not np.array_equal(idx, np.arange(len(offsets))):
                                return 'time2idx(getTimes()) = %r' % (idx.tolist(),)
                            return None
                        run.case('C12:CF:%s since <%s> calendar=%s' % (unit, sp, cal), (unitstr, cal), t)
        if run.out_of_time():
            break
    # 365/366-day calendars: compare calendar fields with cftime
    for cal in ('noleap', '365_day', 'all_leap', '366_day'):
        for Y in (years if tier != 'quick' else [2001]):
            for (m, d) in ((1, 1), (3, 1)):
                for unit in units:
                    unitstr = '%s since %04d-%02d-%02d 00:00:00' % (unit, Y, m, d)
                    scale = {'days': 1, 'hours': 24, 'minutes': 1440, 'seconds': 86400}[unit]
                    offs = [0, 0.25 * scale, 1.25 * scale, 58 * scale, 59.5 * scale, 365 * scale, 800.75 * scale]
                    f = mkfile(offs, unitstr, cal)

                    def t(f=f, unitstr=unitstr, cal=cal, offs=offs):
                        got = f.getTimes()
                        exp = cftime.num2date(np.array(offs, 'd'), unitstr, calendar=cal)
                        for g, e, o in zip(got, exp, offs):
                            ge = (g.year, g.month, g.day, g.hour, g.minute, g.second)
                            ee = (e.year, e.month, e.day, e.hour, e.minute, e.second)
                            if ge != ee:
                                return 'offset %r: getTimes %r, cftime %r' % (o, ge, ee)
                        return None
                    run.case('C12:CF-%s:%s' % ('365-day' if cal in ('noleap', '365_day') else '366-day', unit), (unitstr, cal), t)
    # the part of the 365-day branch that IS exact on the unchanged tree (the known findings above concern the time of day, other units
    # and references that are not 1 January): whole days counted from a 1 January, before and after it
    for cal in ('noleap', '365_day'):
        for Y in ((1990, 2001, 2024) if tier == 'quick' else (1970, 1990, 2000, 2001, 2024, 2068)):
            unitstr = 'days since %04d-01-01 00:00:00' % Y
            offs = sorted(set(list(range(-40000, 40001, 1237 if tier == 'quick' else 97)) + [-731, -730, -729, -366, -365, -364, -2, -1, 0, 1, 58, 59, 364, 365, 366, 730]))
            f = mkfile([float(o) for o in offs], unitstr, cal)

            def t(f=f, unitstr=unitstr, cal=cal, offs=offs):
                got = f.getTimes()
                exp = cftime.num2date(np.array(offs, 'd'), unitstr, calendar=cal)
                for g, e, o in zip(got, exp, offs):
                    ge = (g.year, g.month, g.day, g.hour, g.minute, g.second)
                    ee = (e.year, e.month, e.day, e.hour, e.minute, e.second)
                    if ge != ee:
                        return 'offset %r days: getTimes %r, cftime %r' % (o, ge, ee)
                # the same axis read as cell edges (bounds=True) from a time_bounds variable: consecutive whole days
                days = list(range(55, 64)) + list(range(360, 370))
                fb = mkfile([float(o) + 0.5 for o in days[:-1]], unitstr, cal)
                fb.createDimension('tnv', 2)
                tb = fb.createVariable('time_bounds', 'd', ('time', 'tnv'), values=np.array([days[:-1], days[1:]], 'd').T)
                tb.units = unitstr
                fb.variables['time'].bounds = 'time_bounds'
                gotb = fb.getTimes(bounds=True)
                expb = cftime.num2date(np.array(days, 'd'), unitstr, calendar=cal)
                if len(gotb) != len(expb):
                    return 'bounds=True: %d edges, expected %d' % (len(gotb), len(expb))
                for g, e, o in zip(gotb, expb, days):
                    if (g.year, g.month, g.day, g.hour) != (e.year, e.month, e.day, e.hour):
                        return 'bounds=True, edge at %r days: getTimes %r, cftime %r' % (o, (g.year, g.month, g.day, g.hour), (e.year, e.month, e.day, e.hour))
                return None
            run.case('C12:CF-365-day:whole days before and after a 1 January reference', (unitstr, cal), t)
    # IOAPI flags and attributes vs independent julian arithmetic
    def jul(yyyyjjj, hhmmss):
        return datetime(yyyyjjj // 1000, 1, 1, tzinfo=utc) + timedelta(days=yyyyjjj % 1000 - 1, hours=hhmmss // 10000,
                                                                     minutes=hhmmss // 100 % 100, seconds=hhmmss % 100)
    for Y in (range(1970, 2070, 7) if tier != 'quick' else (1999, 2000, 2024, 2040, 2069)):     # (2038 and later: beyond 2**31 seconds since 1970)
        for J in (1, 59, 60, 365, 366):
            if J == 366 and not (Y % 4 == 0 and (Y % 100 != 0 or Y % 400 == 0)):
                continue
            for ST in (0, 5959, 120000, 235959):
                for TS in (100, 3000, 10000, 240000, 1000000):
                    for bnds in (False, True):
                        n = 4
                        f = P.PseudoNetCDFFile()
                        f.createDimension('TSTEP', n)
                        f.SDATE, f.STIME, f.TSTEP = Y * 1000 + J, ST, TS
                        step = timedelta(hours=TS // 10000, minutes=TS // 100 % 100, seconds=TS % 100)
                        exp = [jul(Y * 1000 + J, ST) + i * step for i in range(n + (1 if bnds else 0))]

                        def t(f=f, exp=exp, bnds=bnds):
                            got = list(f.getTimes(bounds=bnds))
                            if len(got) != len(exp) or any(abs((g - e).total_seconds()) > 1e-3 for g, e in zip(got, exp)):
                                return 'SDATE/STIME/TSTEP: got %s expected %s' % ([g.isoformat() for g in got[:3]], [e.isoformat() for e in exp[:3]])
                            return None
                        run.case('C12:IOAPI-attributes bounds=%s' % bnds, (Y, J, ST, TS, bnds), t)
                        # the same instants as TFLAG
                        g = P.PseudoNetCDFFile()
                        g.createDimension('TSTEP', n); g.createDimension('VAR', 1); g.createDimension('DATE-TIME', 2)
                        tf = np.zeros((n, 1, 2), 'i')
                        for i in range(n):
                            e = exp[i]
                            tf[i, 0] = [e.year * 1000 + e.timetuple().tm_yday, e.hour * 10000 + e.minute * 100 + e.second]
                        g.createVariable('TFLAG', 'i', ('TSTEP', 'VAR', 'DATE-TIME'), values=tf)
                        g.TSTEP = TS
                        if TS <= 235959 or not bnds:

                            def t2(g=g, exp=exp, bnds=bnds):
                                got = list(g.getTimes(bounds=bnds))
                                if len(got) != len(exp) or any(abs((a - b).total_seconds()) > 1e-3 for a, b in zip(got, exp)):
                                    return 'TFLAG: got %s expected %s' % ([x.isoformat() for x in got[-2:]], [x.isoformat() for x in exp[-2:]])
                                from PseudoNetCDF.coordutil import gettimes
                                got2 = [x.replace(tzinfo=utc) for x in gettimes(g)]
                                if any(abs((a - b).total_seconds()) > 1e-3 for a, b in zip(got2, exp)):
                                    return 'coordutil.gettimes differs'
                                return None
                            run.case('C12:IOAPI-TFLAG bounds=%s' % bnds, (Y, J, ST, TS, bnds), t2)
                        if not bnds:
                            def t3(g=g, exp=exp, Y=Y, J=J, ST=ST):
                                # CF time variable synthesised from IOAPI metadata decodes to the same instants
                                from PseudoNetCDF.conventions.ioapi._ioapi import add_time_variable
                                h = g.copy()
                                h.SDATE, h.STIME = Y * 1000 + J, ST
                                add_time_variable(h, 'time')
                                tv = h.variables['time']
                                dec = cftime.num2date(np.asarray(tv[:], 'd'), tv.units.strip(), only_use_cftime_datetimes=False,
                                                      only_use_python_datetimes=True)
                                if any(abs((a.replace(tzinfo=utc) - b).total_seconds()) > 1e-3 for a, b in zip(dec, exp)):
                                    return 'synthesised time variable decodes to %s, flags say %s' % (dec[1].isoformat(), exp[1].isoformat())
                                return None
                            run.case('C12:IOAPI-synthesised-time', (Y, J, ST, TS), t3)

                            def t4(f=f, exp=exp):
                                # the same from a file WITHOUT a time-flag variable (start date/time/step attributes only)
                                from PseudoNetCDF.conventions.ioapi._ioapi import add_time_variable
                                h = f.copy()
                                add_time_variable(h, 'time')
                                tv = h.variables['time']
                                dec = cftime.num2date(np.asarray(tv[:], 'd'), tv.units.strip(), only_use_cftime_datetimes=False,
                                                      only_use_python_datetimes=True)
                                if len(dec) != len(exp) or any(abs((a.replace(tzinfo=utc) - b).total_seconds()) > 1e-3 for a, b in zip(dec, exp)):
                                    return 'time variable synthesised from SDATE/STIME/TSTEP decodes to %s, the attributes say %s' % (dec[0].isoformat(), exp[0].isoformat())
                                got = list(h.getTimes())
                                if any(abs((a - b).total_seconds()) > 1e-3 for a, b in zip(got, exp)):
                                    return 'getTimes after synthesising the time variable: %s, the attributes say %s' % (got[0].isoformat(), exp[0].isoformat())
                                return None
                            run.case('C12:IOAPI-synthesised-time from attributes only', (Y, J, ST, TS), t4)
        if run.out_of_time():
            break
    return run.result(
        rule='getTimes vs cftime.num2date for CF variables (reference spellings x units x calendars x offsets), vs independent julian arithmetic for IOAPI '
             'flags/attributes incl. bounds=True, synthesised CF time vs flags; date2num/time2idx inverse',
        bound='reference dates %r x %d spellings x 4 units; offsets %r; IOAPI years sampled 1970-2069, days {1,59,60,365,366}, 4 start times, 5 steps' % (years, len(REF_SPELLINGS), offsets))


def bounded_replay(p):
    return False, p.get('what')
