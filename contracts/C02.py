"""C02 -- dimension slicing selects exactly the requested hyperslab.

The deciding clause (element equality with the orthogonal per-axis selection) is numpy
indexing semantics: bounded run-time contract against an independent `orth` oracle.
"""
import itertools
from .common import *   # noqa

CONTRACTS = []


def norm_sel(sel, n):
    """selector -> (index list, keeps_axis, is_list)"""
    import numpy as np
    if isinstance(sel, slice):
        return list(range(*sel.indices(n))), True, False
    if np.isscalar(sel):
        return [int(sel) % n if -n <= sel < n else None], True, False
    return [int(i) % n if -n <= i < n else None for i in sel], True, True


def orth(arr, dims, sel):
    """independent oracle: apply one selector per axis independently (numpy.take), integers kept as
    length-1 axes; equal-length index lists on several axes are zipped along ONE new axis placed
    where the first such axis was"""
    import numpy as np
    a = np.ma.asarray(arr)
    listaxes = [i for i, d in enumerate(dims) if d in sel and not isinstance(sel[d], slice) and not np.isscalar(sel[d])]
    zipped = len(listaxes) > 1
    out = a
    for ax, d in enumerate(dims):
        if d not in sel:
            continue
        if zipped and ax in listaxes:
            continue
        idx, _, _ = norm_sel(sel[d], a.shape[ax])
        if any(i is None for i in idx):
            raise IndexError('out of range')
        out = np.ma.take(out, idx, axis=ax)
    if zipped:
        L = len(sel[dims[listaxes[0]]])
        pieces = []
        for k in range(L):
            p = out
            for ax in listaxes:
                i = int(sel[dims[ax]][k]) % a.shape[ax]
                p = np.ma.take(p, [i], axis=ax)
            # collapse the list axes: keep one axis (at the first list axis position)
            first = listaxes[0]
            for ax in sorted(listaxes[1:], reverse=True):
                p = np.ma.squeeze(p, axis=ax) if p.shape[ax] == 1 else p
            pieces.append(p)
        out = np.ma.concatenate(pieces, axis=listaxes[0])
    return out


def out_dims(dims, sel, newdim='POINTS'):
    import numpy as np
    listaxes = [i for i, d in enumerate(dims) if d in sel and not isinstance(sel[d], slice) and not np.isscalar(sel[d])]
    if len(listaxes) > 1:
        od = [d for i, d in enumerate(dims) if i not in listaxes]
        od.insert(listaxes[0], newdim)
        return tuple(od)
    return tuple(dims)


def bounded(tier, seed):
    from rtc import harness as H
    import numpy as np
    P = H.real()
    run = H.Run('C02', tier, seed, budget_s=90 if tier == 'quick' else 600)
    specs = H.file_specs(tier, seed)

    def selectors(n):
        s = [0, n - 1, -1, -n, slice(None), slice(0, 1), slice(1, None), slice(None, None, 2), slice(None, None, -1),
             slice(n, 0, -1), slice(2, 1), slice(-100, 100), [0], [n - 1, 0], [0, 0, n - 1]]
        if tier != 'quick':
            s += [slice(-2, None), slice(None, -1), slice(n - 1, None, -2), [-1], list(range(n))[::-1]]
        return s

    def check(f, sel, tag):
        def t():
            before = H.snapshot(f)
            g = f.sliceDimensions(**{k: (list(v) if isinstance(v, list) else v) for k, v in sel.items()})
            r = H.wf(g)
            if r:
                return 'ill-formed result: ' + r
            for vk, v in f.variables.items():
                if vk not in g.variables:
                    return 'variable %s dropped' % vk
                gv = g.variables[vk]
                vsel = {d: s for d, s in sel.items() if d in v.dimensions}
                exp = orth(v[...], v.dimensions, vsel) if vsel else np.ma.asarray(v[...])
                e = H.arr_equal(gv[...], exp)
                if e:
                    return 'variable %s%r: %s' % (vk, tuple(v.dimensions), e)
                if tuple(gv.dimensions) != out_dims(v.dimensions, vsel):
                    return 'variable %s dimensions %r expected %r' % (vk, tuple(gv.dimensions), out_dims(v.dimensions, vsel))
                if [(k, getattr(gv, k)) for k in gv.ncattrs()] != [(k, getattr(v, k)) for k in v.ncattrs()] and \
                        [(k, str(getattr(gv, k))) for k in gv.ncattrs()] != [(k, str(getattr(v, k))) for k in v.ncattrs()]:
                    return 'variable %s attributes not carried over' % vk
            for d, s in sel.items():
                n = len(f.dimensions[d])
                if isinstance(s, list) and sum(1 for x in sel.values() if isinstance(x, list)) > 1:
                    continue
                idx, _, _ = norm_sel(s, n)
                if len(g.dimensions[d]) != len(idx):
                    return 'dimension %s has length %d, expected %d' % (d, len(g.dimensions[d]), len(idx))
            for d in f.dimensions:
                if d in g.dimensions and bool(g.dimensions[d].isunlimited()) != bool(f.dimensions[d].isunlimited()):
                    return 'unlimited flag of %s changed' % d
            return H.same_snapshot(before, H.snapshot(f))
        kinds = tuple(sorted((d, 'list' if isinstance(s, list) else 'slice' if isinstance(s, slice) else 'int') for d, s in sel.items()))
        order = tuple(sel)
        run.case('C02:sliceDimensions:%s' % (tag,), (kinds, order, repr(sel)), t)

    for si, spec in enumerate(specs):
        f = H.make_file(P, spec)
        dims = [d[0] for d in spec['dims']]
        lens = {d[0]: d[1] for d in spec['dims']}
        # single axis
        for d in dims:
            for s in selectors(lens[d]):
                check(f, {d: s}, 'one axis')
        # pairs of axes, both keyword orders
        for d1, d2 in itertools.permutations(dims, 2):
            if run.out_of_time():
                break
            S1, S2 = selectors(lens[d1]), selectors(lens[d2])
            pairs = []
            if tier == 'quick':
                # every (kind, kind) combination with several representatives; list x list with equal lengths
                ints = lambda S: [x for x in S if not isinstance(x, (slice, list))][:3]
                sls = lambda S: [x for x in S if isinstance(x, slice)][1::2]
                n1, n2 = lens[d1], lens[d2]
                pairs += [(a, b) for a in ints(S1) for b in sls(S2)[:3]]
                pairs += [(a, b) for a in sls(S1)[:3] for b in ints(S2)[:2]]
                pairs += [(a, b) for a in ints(S1)[:2] for b in ints(S2)[:2]]
                pairs += [(a, b) for a in sls(S1)[:2] for b in sls(S2)[1:3]]
                pairs += [(a, [n2 - 1, 0]) for a in ints(S1)[:2]] + [([0, n1 - 1], b) for b in ints(S2)[:2]]
                pairs += [(a, [0, 0, n2 - 1]) for a in sls(S1)[:2]] + [([n1 - 1, 0, 0], b) for b in sls(S2)[:2]]
                pairs += [([n1 - 1, 0], [0, n2 - 1]), ([0, n1 - 1, n1 - 1], [n2 - 1, 0, n2 - 1]), ([0], [n2 - 1])]
            else:
                pairs = [(a, b) for a in S1 for b in S2]
            for s1, s2 in pairs:
                    k1 = 'list' if isinstance(s1, list) else 'slice' if isinstance(s1, slice) else 'int'
                    k2 = 'list' if isinstance(s2, list) else 'slice' if isinstance(s2, slice) else 'int'
                    if k1 == 'list' and k2 == 'list' and len(s1) != len(s2):
                        continue
                    pos = 'earlier' if dims.index(d1) < dims.index(d2) else 'later'
                    adj = 'adjacent' if abs(dims.index(d1) - dims.index(d2)) == 1 else 'non-adjacent'
                    check(f, {d1: s1, d2: s2}, 'two %s axes: %s on the %s axis, %s on the other' % (adj, k1, pos, k2))
    # command-line string form
    from PseudoNetCDF.core._functions import slice_dim
    for si, spec in enumerate(specs[:2]):
        f = H.make_file(P, spec)
        for d, n, _ in spec['dims']:
            for txt, sl in (('%s,0' % d, slice(0, 1)), ('%s,1,%d' % (d, n), slice(1, n)), ('%s,0,%d,2' % (d, n), slice(0, n, 2)),
                            ('%s,%d' % (d, n - 1), slice(n - 1, n))):
                def t(f=f, txt=txt, sl=sl, d=d):
                    g = slice_dim(f, txt)
                    for vk, v in f.variables.items():
                        exp = orth(v[...], v.dimensions, {d: sl}) if d in v.dimensions else np.ma.asarray(v[...])
                        e = H.arr_equal(g.variables[vk][...], exp)
                        if e:
                            return 'slice_dim(%r) variable %s: %s' % (txt, vk, e)
                    return H.wf(g)
                run.case('C02:slice_dim string form', (si, txt), t)
    return run.result(
        rule='real sliceDimensions / slice_dim vs an independent orthogonal-selection oracle (numpy.take per axis, zipped lists along one new axis); '
             'every variable compared element-wise incl. masks, dimensions, attributes; inputs snapshotted',
        bound='files of the C01 space; per axis selectors {ints +-, slices with None/+-1/+-2/out-of-range/empty/reversed, lists with repeats}; all single axes, '
              'all ordered pairs of axes (both keyword orders)')


def bounded_replay(p):
    return False, p.get('what')


META = dict(
    level='exploration',
    technique='bounded run-time contract (orthogonal-selection oracle) on the real sliceDimensions; no deductive obligation can state numpy indexing without modelling numpy',
    text='Element equality with the orthogonal hyperslab is numpy indexing semantics; it is checked at run time on the real function '
         'against an independent per-axis numpy.take oracle over all single-axis and two-axis selector combinations of the stated bound.',
    note='bounded only; never counted as proved. numpy.take / numpy.ma are the oracle.',
    assumptions=['numpy.take/numpy.ma semantics (oracle)'],
    explanation='')
