"""C02 -- dimension slicing selects exactly the requested hyperslab.

The deciding clause (element equality with the orthogonal per-axis selection) is numpy
indexing semantics: bounded run-time contract against an independent `orth` oracle.
"""
import itertools
from .common import *   # noqa

import z3
from pyvc.nparr import sym_array, SArr
from pyvc import frontend

F = 'core/_files.py'


class SliceBasic(Contract):
    """base sliceDimensions with basic selectors (integer / slice) on a file with dimensions t, y of ARBITRARY lengths, a
    rank-2 variable v(t, y), a rank-1 variable w(y) and a rank-1 variable u(t):
      * every dimension keeps its name; the selected dimension gets the length of the selection (1 for an integer),
      * every element of every result variable is the element the per-axis selection picks, in order,
      * variables without the selected dimension are element-wise identical,
      * attributes are carried over, the result owns fresh buffers and the input is unchanged."""
    prop = 'C02'
    target = F + '::PseudoNetCDFFile.sliceDimensions'
    max_paths = 200

    def __init__(self, kind):
        self.kind = kind            # 'int' | 'slice' | 'slice-step2' | 'reversed' | 'int+slice'
        self.name = 'sliceDimensions[%s]' % kind

    def inputs(self, ctx, I):
        nt, ny = ctx.fresh('nt'), ctx.fresh('ny')
        self.nt, self.ny = nt, ny
        mod = frontend.load('core/_variables.py')
        node, _ = mod.find('PseudoNetCDFVariable')
        cls = I.classref(mod, node)

        def var(name, dims, shape):
            a = sym_array(name, shape, 'f')
            a.cls = cls
            a.attrs.update(dimensions=dims, _ncattrs=('units',), units='ppb')
            return a
        self.v, self.w, self.u = var('v', ('t', 'y'), (nt, ny)), var('w', ('y',), (ny,)), var('u', ('t',), (nt,))
        self.pre = {k: getattr(self, k).buf.get for k in 'vwu'}
        f = pnc_file(I, dimensions={'t': dim_obj(I, 't', nt, unlimited=True), 'y': dim_obj(I, 'y', ny)},
                     variables=dict(v=self.v, w=self.w, u=self.u), attrs=dict(title='source'))
        self.k = ctx.fresh('k')
        self.a, self.b = ctx.fresh('a'), ctx.fresh('b')
        sel = {}
        if self.kind == 'int':
            sel['t'] = self.k
        elif self.kind == 'slice':
            sel['t'] = slice(self.a, self.b)
        elif self.kind == 'slice-step2':
            sel['y'] = slice(self.a, self.b, 2)
        elif self.kind == 'reversed':
            sel['y'] = slice(None, None, -1)
        elif self.kind == 'int+slice':
            sel['t'] = self.k
            sel['y'] = slice(self.a, self.b)
        elif self.kind in ('index-array', 'index-array+slice'):
            self.m = ctx.fresh('m')
            self.ix = sym_array('index', (self.m,), 'i')
            sel['t'] = self.ix
            if self.kind == 'index-array+slice':
                sel['y'] = slice(self.a, self.b)
        self.sel = sel
        return dict(self=f, dimslices=sel)

    def call_args(self, inp):
        return [inp['self']], dict(inp['dimslices'])

    def requires(self, inp):
        r = And(ge(self.nt, 1), ge(self.ny, 1))
        if self.kind.startswith('index-array'):
            p = z3.Int('rq_p')
            r = And(r, ge(self.m, 0), z3.ForAll([p], Implies(And(ge(p, 0), lt(p, self.m)),
                                                                And(ge(self.ix.get(p), sym.neg(self.nt)), lt(self.ix.get(p), self.nt)))))
        return r

    def small(self, inp):
        r = And(le(self.nt, 3), le(self.ny, 3), ge(self.a, -4), le(self.a, 4), ge(self.b, -4), le(self.b, 4))
        return And(r, le(self.m, 3)) if self.kind.startswith('index-array') else r

    # the selection as the property defines it: index list per axis (start, step, length)
    def spec_axis(self, d, n):
        s = self.sel.get(d)
        if s is None:
            return 0, 1, n
        if isinstance(s, SArr):
            return None, None, s.shape[0]
        if not isinstance(s, slice):
            k = sym.ite(lt(s, 0), add(s, n), s)
            return k, 1, 1
        step = 1 if s.step is None else s.step
        clamp = lambda x, lo, hi: sym.max_(lo, sym.min_(hi, x))
        norm = lambda x: sym.ite(lt(x, 0), add(x, n), x)
        if step > 0:
            start = 0 if s.start is None else clamp(norm(s.start), 0, n)
            stop = n if s.stop is None else clamp(norm(s.stop), 0, n)
            ln = sym.max_(0, sym.floordiv(add(sub(stop, start), step - 1), step))
        else:
            start = sub(n, 1) if s.start is None else clamp(norm(s.start), -1, sub(n, 1))
            stop = -1 if s.stop is None else clamp(norm(s.stop), -1, sub(n, 1))
            ln = sym.max_(0, sym.floordiv(add(sub(start, stop), -step - 1), -step))
        return start, step, ln

    def on_raise(self, inp, exc, I):
        if 'k' in self.kind or self.kind.startswith('int'):
            oob = Or(lt(self.k, sym.neg(self.nt)), ge(self.k, self.nt))
            return [('raises-only-IndexError-for-an-out-of-range-integer (raised %s)' % exc, And(exc == 'IndexError', oob))]
        return [('does-not-raise (raised %s)' % exc, False)]

    def ensures(self, inp, res, I):
        f = inp['self']
        if not hasattr(res, 'attrs') or 'variables' not in res.attrs:
            return [('returns-file', False)]
        dims, vs = res.attrs['dimensions'], res.attrs['variables']
        out = [('is-a-new-file', res is not f), ('dimension-names-in-order', list(dims.keys()) == ['t', 'y']),
               ('variable-names-in-order', list(vs.keys()) == ['v', 'w', 'u']),
               ('file-attributes-carried', res.attrs.get('title') == 'source')]
        if list(dims.keys()) != ['t', 'y'] or list(vs.keys()) != ['v', 'w', 'u']:
            return out
        st, pt, lt_ = self.spec_axis('t', self.nt)
        sy, py, ly = self.spec_axis('y', self.ny)
        if 'k' in self.kind or self.kind.startswith('int'):
            out.append(('integer-in-range-on-return', And(ge(self.k, sym.neg(self.nt)), lt(self.k, self.nt))))
        out += [('length(t)', eq(dims['t'].attrs['_len'], lt_)), ('length(y)', eq(dims['y'].attrs['_len'], ly)),
                ('unlimited-flags-kept', And(eq(dims['t'].attrs['_unlimited'], True), eq(dims['y'].attrs['_unlimited'], False)))]
        i, j = z3.Int('i'), z3.Int('j')
        V, W, U = vs['v'], vs['w'], vs['u']
        ok = all(isinstance(x, SArr) for x in (V, W, U))
        out.append(('variables-are-arrays', ok))
        if not ok:
            return out
        if st is None:          # index array (with repeats, any order): the i-th selected step is index[i], counted from the end if negative
            e = self.ix.get(i)
            it = sym.ite(lt(e, 0), add(e, self.nt), e)
        else:
            it = add(st, mul(i, pt))
        jy = add(sy, mul(j, py))
        out += [('v-shape', And(eq(V.shape[0], lt_), eq(V.shape[1], ly)) if V.ndim == 2 else False),
                ('w-shape', eq(W.shape[0], ly) if W.ndim == 1 else False), ('u-shape', eq(U.shape[0], lt_) if U.ndim == 1 else False)]
        if V.ndim == 2 and W.ndim == 1 and U.ndim == 1:
            out += [('v[i,j] = source[t_i, y_j]', Implies(And(ge(i, 0), lt(i, lt_), ge(j, 0), lt(j, ly)), eq(V.get(i, j), self.pre['v']((it, jy))))),
                    ('w[j] = source[y_j]', Implies(And(ge(j, 0), lt(j, ly)), eq(W.get(j), self.pre['w']((jy,))))),
                    ('u[i] = source[t_i]', Implies(And(ge(i, 0), lt(i, lt_)), eq(U.get(i), self.pre['u']((it,)))))]
        out += [('variable-attributes-carried', all(x.attrs.get('units') == 'ppb' and tuple(x.attrs.get('dimensions', ())) == d
                                                   for x, d in ((V, ('t', 'y')), (W, ('y',)), (U, ('t',))))),
                ('fresh-buffers', all(x.buf is not y.buf for x in (V, W, U) for y in (self.v, self.w, self.u))),
                ('input-unchanged', And(Implies(And(ge(i, 0), lt(i, self.nt), ge(j, 0), lt(j, self.ny)), eq(self.v.buf.get((i, j)), self.pre['v']((i, j)))),
                                        eq(f.attrs['dimensions']['t'].attrs['_len'], self.nt), eq(f.attrs['dimensions']['y'].attrs['_len'], self.ny),
                                        f.attrs['variables'].get('v') is self.v))]
        return out


    # -- replay on the real function with the counter-model's sizes and selectors ----------------------------------
    def concretize(self, model, inp):
        from pyvc.verify import model_value
        c = dict(kind=self.kind, nt=model_value(model, self.nt), ny=model_value(model, self.ny),
                 k=model_value(model, self.k), a=model_value(model, self.a), b=model_value(model, self.b))
        if self.kind.startswith('index-array'):
            c['index'] = self.ix.model_value(model)
        return c

    def concretize_without_model(self, inp):
        return dict(kind=self.kind, nt=4, ny=5, k=-2, a=-4, b=4, index=dict(values=[3, -1, 0, 3]))

    def replay(self, c):
        import numpy as np
        P = import_real()
        nt, ny = int(c['nt']), int(c['ny'])
        if not (1 <= nt <= 40 and 1 <= ny <= 40):
            return None
        kind = c['kind']
        sel = {}
        if kind in ('int', 'int+slice'):
            sel['t'] = int(c['k'])
        if kind == 'slice':
            sel['t'] = slice(int(c['a']), int(c['b']))
        if kind == 'slice-step2':
            sel['y'] = slice(int(c['a']), int(c['b']), 2)
        if kind == 'reversed':
            sel['y'] = slice(None, None, -1)
        if kind in ('int+slice', 'index-array+slice'):
            sel['y'] = slice(int(c['a']), int(c['b']))
        if kind.startswith('index-array'):
            vals = (c.get('index') or {}).get('values')
            if vals is None:
                return None
            sel['t'] = [int(x) for x in vals]
        f = P.PseudoNetCDFFile()
        f.createDimension('t', nt).setunlimited(True)
        f.createDimension('y', ny)
        f.title = 'source'
        rng = np.random.default_rng(2)
        data = dict(v=rng.random((nt, ny)), w=rng.random(ny), u=rng.random(nt))
        for k_, d in (('v', ('t', 'y')), ('w', ('y',)), ('u', ('t',))):
            f.createVariable(k_, 'd', d, values=data[k_].copy(), units='ppb')
        try:
            g = f.sliceDimensions(**{k_: (np.array(v) if isinstance(v, list) else v) for k_, v in sel.items()})
        except IndexError as e:
            oob = 't' in sel and not isinstance(sel['t'], (slice, list)) and not (-nt <= sel['t'] < nt)
            return oob, dict(raised='IndexError', selectors=repr(sel), nt=nt, ny=ny)
        except Exception as e:
            return False, dict(raised=type(e).__name__, message=str(e)[:200], selectors=repr(sel), nt=nt, ny=ny)
        bad = []
        for k_, dims in (('v', ('t', 'y')), ('w', ('y',)), ('u', ('t',))):
            exp = orth(data[k_], dims, sel)
            got = np.asarray(g.variables[k_][...])
            if got.shape != exp.shape or not np.array_equal(got, np.asarray(exp)):
                bad.append('%s: shape %r expected %r' % (k_, got.shape, exp.shape))
            if getattr(g.variables[k_], 'units', None) != 'ppb' or tuple(g.variables[k_].dimensions) != dims:
                bad.append('%s: attributes/dimensions' % k_)
            if not np.array_equal(np.asarray(f.variables[k_][...]), data[k_]):
                bad.append('%s: input modified' % k_)
        for d in ('t', 'y'):
            n = {'t': nt, 'y': ny}[d]
            explen = len(norm_sel(sel[d], n)[0]) if d in sel else n
            if len(g.dimensions[d]) != explen:
                bad.append('len(%s)=%d expected %d' % (d, len(g.dimensions[d]), explen))
        if not g.dimensions['t'].isunlimited() or g.dimensions['y'].isunlimited() or getattr(g, 'title', None) != 'source':
            bad.append('flags/attributes')
        return (not bad), dict(selectors=repr(sel), nt=nt, ny=ny, failed=bad)


CONTRACTS = [SliceBasic(k) for k in ('int', 'slice', 'slice-step2', 'reversed', 'int+slice', 'index-array', 'index-array+slice')]


def norm_sel(sel, n):
    """selector -> (index list, keeps_axis, is_list)"""
    import numpy as np
    if isinstance(sel, slice):
        return list(range(*sel.indices(n))), True, False
    if np.isscalar(sel):
        return [int(sel) % n if -n <= sel < n else None], True, False
    return [int(i) % n if -n <= i < n else None for i in sel], True, True


def orth(arr, dims, sel):
    """independent oracle: apply one selector per axis independently (numpy.take), integers kept as
    length-1 axes; equal-length index lists on several axes are zipped along ONE new axis placed
    where the first such axis was"""
    import numpy as np
    a = np.ma.asarray(arr)
    listaxes = [i for i, d in enumerate(dims) if d in sel and not isinstance(sel[d], slice) and not np.isscalar(sel[d])]
    zipped = len(listaxes) > 1
    out = a
    for ax, d in enumerate(dims):
        if d not in sel:
            continue
        if zipped and ax in listaxes:
            continue
        idx, _, _ = norm_sel(sel[d], a.shape[ax])
        if any(i is None for i in idx):
            raise IndexError('out of range')
        out = np.ma.take(out, idx, axis=ax)
    if zipped:
        L = len(sel[dims[listaxes[0]]])
        pieces = []
        for k in range(L):
            p = out
            for ax in listaxes:
                i = int(sel[dims[ax]][k]) % a.shape[ax]
                p = np.ma.take(p, [i], axis=ax)
            # collapse the list axes: keep one axis (at the first list axis position)
            first = listaxes[0]
            for ax in sorted(listaxes[1:], reverse=True):
                p = np.ma.squeeze(p, axis=ax) if p.shape[ax] == 1 else p
            pieces.append(p)
        out = np.ma.concatenate(pieces, axis=listaxes[0])
    return out


def out_dims(dims, sel, newdim='POINTS'):
    import numpy as np
    listaxes = [i for i, d in enumerate(dims) if d in sel and not isinstance(sel[d], slice) and not np.isscalar(sel[d])]
    if len(listaxes) > 1:
        od = [d for i, d in enumerate(dims) if i not in listaxes]
        od.insert(listaxes[0], newdim)
        return tuple(od)
    return tuple(dims)


# ---------------------------------------------------------------------------
# attributes carried over by the IOAPI wrapper of sliceDimensions (whose createVariable fills in defaults of its own)
# ---------------------------------------------------------------------------
from contracts import C11 as _C11   # noqa: E402


class IoapiSliceAttributes(_C11.SliceTime):
    """ioapi_base.sliceDimensions(TSTEP=window) on the file of the C11 contract (any number of steps / variable columns / rows;
    integer, unit-stride slice or index array): the data variable of the result carries the SOURCE attributes (units,
    long_name, var_desc with values that differ from what the IOAPI createVariable fills in by itself) and no others, and its
    rows are the selected rows"""
    prop = 'C02'

    def __init__(self, kind):
        _C11.SliceTime.__init__(self, kind)
        self.name = 'ioapi.sliceDimensions[TSTEP as %s]: attributes carried over' % kind

    def ensures(self, inp, res, I):
        base = _C11.SliceTime.ensures(self, inp, res, I)
        keep = [c for c in base if c[0] in ('returns-file', 'TFLAG-and-data-variable-present', 'data rows are the selected rows of the source')]
        return keep + [self.attr_clause(res)]

    def on_raise(self, inp, exc, I):
        return [('raises-only-ValueError-from-an-invalid-time-flag (raised %s)' % exc, exc == 'ValueError')]

    def replay(self, c):
        import numpy as np
        from rtc import harness as H, ioapi as IOH
        P = H.real()
        f = IOH.make_ioapi(P, nt=5, nz=2, ny=3, nx=4, sdate=2020366, stime=210000, tstep=10000)
        v = f.variables['V0']
        v.long_name, v.var_desc, v.units = 'Ozone', 'ozone, not padded', 'ppm'
        want = {k: getattr(v, k) for k in v.ncattrs()}
        for sel in {'int': [-1, 2], 'slice': [slice(1, 4)], 'index-array': [np.array([4, 4, 1])]}[c['kind']]:
            try:
                g = f.sliceDimensions(TSTEP=sel)
            except Exception as e:
                return False, dict(raised=type(e).__name__, message=str(e)[:160], TSTEP=repr(sel))
            gv = g.variables['V0']
            got = {k: getattr(gv, k) for k in gv.ncattrs()}
            if got != want:
                return False, dict(TSTEP=repr(sel), attributes_after={k: repr(x) for k, x in got.items()}, source={k: repr(x) for k, x in want.items()})
        return True, dict(kind=c['kind'])


CONTRACTS += [IoapiSliceAttributes(k) for k in ('int', 'slice', 'index-array')]


def bounded(tier, seed):
    from rtc import harness as H
    import numpy as np
    P = H.real()
    run = H.Run('C02', tier, seed, budget_s=90 if tier == 'quick' else 600)
    specs = H.file_specs(tier, seed)

    def selectors(n):
        # (numpy integer scalars -- what argmax() or an index array element gives -- are integers too)
        s = [0, n - 1, -1, -n, np.int64(n - 1), np.int32(-1), slice(None), slice(0, 1), slice(1, None), slice(None, None, 2), slice(None, None, -1),
             slice(n, 0, -1), slice(2, 1), slice(-100, 100), [0], [n - 1, 0], [0, 0, n - 1]]
        if tier != 'quick':
            s += [slice(-2, None), slice(None, -1), slice(n - 1, None, -2), [-1], list(range(n))[::-1]]
        return s

    def check(f, sel, tag):
        def t():
            before = H.snapshot(f)
            g = f.sliceDimensions(**{k: (list(v) if isinstance(v, list) else v) for k, v in sel.items()})
            r = H.wf(g)
            if r:
                return 'ill-formed result: ' + r
            for vk, v in f.variables.items():
                if vk not in g.variables:
                    return 'variable %s dropped' % vk
                gv = g.variables[vk]
                vsel = {d: s for d, s in sel.items() if d in v.dimensions}
                exp = orth(v[...], v.dimensions, vsel) if vsel else np.ma.asarray(v[...])
                e = H.arr_equal(gv[...], exp)
                if e:
                    return 'variable %s%r: %s' % (vk, tuple(v.dimensions), e)
                if tuple(gv.dimensions) != out_dims(v.dimensions, vsel):
                    return 'variable %s dimensions %r expected %r' % (vk, tuple(gv.dimensions), out_dims(v.dimensions, vsel))
                if [(k, getattr(gv, k)) for k in gv.ncattrs()] != [(k, getattr(v, k)) for k in v.ncattrs()] and \
                        [(k, str(getattr(gv, k))) for k in gv.ncattrs()] != [(k, str(getattr(v, k))) for k in v.ncattrs()]:
                    return 'variable %s attributes not carried over' % vk
            for d, s in sel.items():
                n = len(f.dimensions[d])
                if isinstance(s, list) and sum(1 for x in sel.values() if isinstance(x, list)) > 1:
                    continue
                idx, _, _ = norm_sel(s, n)
                if len(g.dimensions[d]) != len(idx):
                    return 'dimension %s has length %d, expected %d' % (d, len(g.dimensions[d]), len(idx))
            for d in f.dimensions:
                if d in g.dimensions and bool(g.dimensions[d].isunlimited()) != bool(f.dimensions[d].isunlimited()):
                    return 'unlimited flag of %s changed' % d
            return H.same_snapshot(before, H.snapshot(f))
        kinds = tuple(sorted((d, 'list' if isinstance(s, list) else 'slice' if isinstance(s, slice) else 'int') for d, s in sel.items()))
        order = tuple(sel)
        run.case('C02:sliceDimensions:%s' % (tag,), (kinds, order, repr(sel)), t)

    for si, spec in enumerate(specs):
        f = H.make_file(P, spec)
        dims = [d[0] for d in spec['dims']]
        lens = {d[0]: d[1] for d in spec['dims']}
        # single axis
        for d in dims:
            for s in selectors(lens[d]):
                check(f, {d: s}, 'one axis')
        # pairs of axes, both keyword orders
        for d1, d2 in itertools.permutations(dims, 2):
            if run.out_of_time():
                break
            S1, S2 = selectors(lens[d1]), selectors(lens[d2])
            pairs = []
            if tier == 'quick':
                # every (kind, kind) combination with several representatives; list x list with equal lengths
                ints = lambda S: [x for x in S if not isinstance(x, (slice, list))][:3]
                sls = lambda S: [x for x in S if isinstance(x, slice)][1::2]
                n1, n2 = lens[d1], lens[d2]
                pairs += [(a, b) for a in ints(S1) for b in sls(S2)[:3]]
                pairs += [(a, b) for a in sls(S1)[:3] for b in ints(S2)[:2]]
                pairs += [(a, b) for a in ints(S1)[:2] for b in ints(S2)[:2]]
                pairs += [(a, b) for a in sls(S1)[:2] for b in sls(S2)[1:3]]
                pairs += [(a, [n2 - 1, 0]) for a in ints(S1)[:2]] + [([0, n1 - 1], b) for b in ints(S2)[:2]]
                pairs += [(a, [0, 0, n2 - 1]) for a in sls(S1)[:2]] + [([n1 - 1, 0, 0], b) for b in sls(S2)[:2]]
                pairs += [([n1 - 1, 0], [0, n2 - 1]), ([0, n1 - 1, n1 - 1], [n2 - 1, 0, n2 - 1]), ([0], [n2 - 1])]
                # numpy integer scalars combined with index lists and slices
                pairs += [(np.int64(n1 - 1), [0, 0, n2 - 1]), ([n1 - 1, 0, 0], np.int32(-1)), (np.int64(0), slice(None, None, -1)), (np.int32(-1), np.int64(0))]
            else:
                pairs = [(a, b) for a in S1 for b in S2]
            for s1, s2 in pairs:
                    k1 = 'list' if isinstance(s1, list) else 'slice' if isinstance(s1, slice) else 'int'
                    k2 = 'list' if isinstance(s2, list) else 'slice' if isinstance(s2, slice) else 'int'
                    if k1 == 'list' and k2 == 'list' and len(s1) != len(s2):
                        continue
                    pos = 'earlier' if dims.index(d1) < dims.index(d2) else 'later'
                    adj = 'adjacent' if abs(dims.index(d1) - dims.index(d2)) == 1 else 'non-adjacent'
                    check(f, {d1: s1, d2: s2}, 'two %s axes: %s on the %s axis, %s on the other' % (adj, k1, pos, k2))
    # command-line string form
    from PseudoNetCDF.core._functions import slice_dim
    for si, spec in enumerate(specs[:2]):
        f = H.make_file(P, spec)
        for d, n, _ in spec['dims']:
            for txt, sl in (('%s,0' % d, slice(0, 1)), ('%s,1,%d' % (d, n), slice(1, n)), ('%s,0,%d,2' % (d, n), slice(0, n, 2)),
                            ('%s,%d' % (d, n - 1), slice(n - 1, n)),
                            # whole-dimension selections, forward and REVERSED (same element count as the dimension), strided reversal
                            ('%s,None,None,-1' % d, slice(None, None, -1)), ('%s,-1,None,-1' % d, slice(-1, None, -1)), ('%s,0,%d,1' % (d, n), slice(0, n, 1)),
                            ('%s,None,None,-2' % d, slice(None, None, -2)), ('%s,None,None,2' % d, slice(None, None, 2))):
                def t(f=f, txt=txt, sl=sl, d=d):
                    g = slice_dim(f, txt)
                    for vk, v in f.variables.items():
                        exp = orth(v[...], v.dimensions, {d: sl}) if d in v.dimensions else np.ma.asarray(v[...])
                        e = H.arr_equal(g.variables[vk][...], exp)
                        if e:
                            return 'slice_dim(%r) variable %s: %s' % (txt, vk, e)
                    return H.wf(g)
                run.case('C02:slice_dim string form', (si, txt), t)
    # the IOAPI wrapper (cmaqfiles/_ioapi.py sliceDimensions): every variable INCLUDING the time flags is the requested hyperslab
    from rtc import ioapi as IOH
    for boundary in (False, True):
        f = IOH.make_ioapi(P, nt=5, nz=3, ny=4, nx=5, boundary=boundary, seed=seed)
        # attributes that are not what the IOAPI constructor would write (long_name other than the padded key)
        f.variables['V0'].long_name = 'Ozone'
        f.variables['V0'].var_desc = 'ozone mixing ratio, not padded'
        nsel = dict(TSTEP=5, LAY=3, ROW=4, COL=5, PERIM=2 * (5 + 4) + 4)
        for d in ('TSTEP', 'LAY') + (('PERIM',) if boundary else ('ROW', 'COL')):
            n = nsel[d]
            for s_ in (0, -1, slice(1, None), slice(None, None, 2), slice(None, None, -1), [0, n - 2, n - 1], [n - 1, n - 1, 1], [n // 2]):
                def t(f=f, d=d, s_=s_):
                    g = f.sliceDimensions(**{d: (list(s_) if isinstance(s_, list) else s_)})
                    for vk, v in f.variables.items():
                        if vk not in g.variables:
                            return 'variable %s dropped' % vk
                        exp = orth(v[...], v.dimensions, {d: s_}) if d in v.dimensions else np.ma.asarray(v[...])
                        e = H.arr_equal(g.variables[vk][...], exp)
                        if e:
                            return 'IOAPI variable %s%r is not the requested hyperslab: %s' % (vk, tuple(v.dimensions), e)
                        if vk not in ('TFLAG', 'ETFLAG'):
                            gv = g.variables[vk]
                            for ak in v.ncattrs():
                                if ak not in gv.ncattrs() or str(getattr(gv, ak)) != str(getattr(v, ak)):
                                    return 'IOAPI variable %s: attribute %s is %r after slicing, the source has %r' % (vk, ak, getattr(gv, ak, None), getattr(v, ak))
                    return None
                run.case('C02:ioapi sliceDimensions(%s)' % d, (boundary, d, repr(s_)), t)
    # selectors given as numpy arrays, ONE array object shared by several dimensions (the `ROW=i, COL=i` idiom), negative entries:
    # same result as with fresh python lists, in both keyword orders, and the caller's array is left alone
    for si, spec in enumerate(specs[:3]):
        f = H.make_file(P, spec)
        lens = {d[0]: d[1] for d in spec['dims']}
        for d1, d2 in itertools.permutations([d for d in lens if lens[d] >= 2], 2):
            if lens[d1] == lens[d2]:
                continue
            for entries in ([-1, 0, -2], [0, -1], [-2, -2, 1, -1]):
                def t(f=f, d1=d1, d2=d2, entries=entries):
                    shared = np.array(entries)
                    exp = f.sliceDimensions(**{d1: list(entries), d2: list(entries)})
                    got = f.sliceDimensions(**{d1: shared, d2: shared})
                    if not np.array_equal(shared, np.array(entries)):
                        return 'the index array handed in by the caller was modified: %r -> %r' % (entries, shared.tolist())
                    for vk in f.variables:
                        if vk not in got.variables:
                            return 'variable %s dropped' % vk
                        e = H.arr_equal(got.variables[vk][...], exp.variables[vk][...])
                        if e:
                            return 'one array shared by %s and %s: variable %s differs from the selection with separate lists: %s' % (d1, d2, vk, e)
                    return None
                run.case('C02:sliceDimensions:one index array shared by two dimensions', (si, d1, d2, tuple(entries)), t)
    return run.result(
        rule='real sliceDimensions / slice_dim vs an independent orthogonal-selection oracle (numpy.take per axis, zipped lists along one new axis); '
             'every variable compared element-wise incl. masks, dimensions, attributes; inputs snapshotted',
        bound='files of the C01 space; per axis selectors {ints +-, slices with None/+-1/+-2/out-of-range/empty/reversed, lists with repeats}; all single axes, '
              'all ordered pairs of axes (both keyword orders); IOAPI gridded and boundary files: every dimension x 8 selectors incl. uneven and repeating index lists (time flags included)')


def bounded_replay(p):
    return False, p.get('what')


META = dict(
    level='other',
    technique='base sliceDimensions proved by pyvc for integer / slice / one-index-array selectors on files of arbitrary size (numpy basic indexing as views, '
              'one index array among slices as trusted model); index lists on several axes, masks and the string form by bounded run-time contract (orthogonal-selection oracle)',
    text='Proved for dimensions of ANY length and any integer / slice bounds (step 1, 2, -1) / index array of any length with repeats and negative entries, on a file with a '
         'rank-2 and two rank-1 variables: dimension lengths are the selection lengths (1 for an integer), every element of every variable is the element the per-axis '
         'selection picks, in order, variables without the selected dimension are identical, attributes and unlimited flags carried, fresh buffers, input unchanged, and only '
         'an out-of-range integer raises (IndexError). Also proved: through the IOAPI wrapper (whose createVariable fills in defaults of its own) a TSTEP window given as integer / slice / index array '
         'leaves the data variable with exactly the source attributes and the selected rows (the C11 contract set-up re-used with a C02 post-condition). Bounded: all single-axis and two-axis selector combinations incl. zipped index lists, masks, against an independent numpy.take oracle.',
    note='numpy slicing (views), arange/size and the single-index-array gather are trusted models (pyvc/nparr.py); the zipped selection (several index lists), masked variables, '
         'rank > 2 and the ioapi / slice_dim wrappers are bounded only.',
    assumptions=['numpy basic indexing = views with start/step/length per axis (slice.indices semantics)', 'numpy indexing with one 1-D integer array among slices keeps the axis in place',
                 'numpy.take/numpy.ma semantics (oracle of the bounded part)'],
    explanation='mixed: discharged obligations for sliceDimensions with basic selectors / one index array + bounded oracle comparison for everything else')
