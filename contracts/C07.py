"""C07 -- saving to netCDF and reopening reproduces the file.

B: real save + pncopen for every flavour x compression over generated files (dtypes, scalar and
masked variables with several fill values, attribute kinds, unlimited dimension).
"""
import itertools
import os
from .common import *   # noqa

import itertools
import z3
from pyvc.exec import Obj, Opaque
from pyvc.models import native

PG = 'pncgen.py'


def make_pvar(ctx, present):
    """abstract source variable: masked data, attributes per presence pattern"""
    vals = dict(missing_value=ctx.fresh('missing_value', 'Real'), fill_value=ctx.fresh('fill_value', 'Real'), _FillValue=ctx.fresh('FillValue_attr', 'Real'))
    attrs = {k: vals[k] for k in present}
    attrs['units'] = 'ppb'
    pv = Obj(None, dict(attrs), tag='pvar')
    pv.ghost['closed'] = True      # the PRESENCE pattern of the three fill attributes is the input of the lemma: an attribute not listed is absent
    pv.attrs['dimensions'] = ('t', 'x')
    pv.attrs['ndim'] = 2
    names = [k for k in ('units',) + tuple(present)]
    pv.attrs['ncattrs'] = native(lambda I, a, k: list(names))
    pv.attrs['typecode'] = native(lambda I, a, k: 'f')
    data = Obj(None, {}, tag='masked-data')
    data.ghost['isa'] = {'numpy.ma.MaskedArray', 'numpy.ma.core.MaskedArray'}

    def filled(I, a, k):
        I.ctx.ghost.setdefault('filled_with', []).append(a[0])
        return Opaque('filled data')
    data.attrs['filled'] = native(filled)
    data.attrs['dtype'] = Opaque('dtype')
    pv.attrs['__getitem__'] = native(lambda I, a, k: data)
    return pv, vals


def make_nfile(ctx):
    """abstract netCDF4 target: createVariable(fill_value=X) gives the variable the attribute _FillValue = X"""
    nf = Obj(None, {'variables': {}}, tag='nfile')

    def create(I, a, k):
        nv = Obj(None, {'ndim': 2}, tag='nvar')
        nv.ghost['closed'] = True  # netCDF4.Variable: _FillValue exists iff created with fill_value; no missing_value / fill_value attribute unless set
        nv.ghost['isa'] = {'netCDF4.Variable', 'netCDF4._netCDF4.Variable'}
        I.ctx.ghost.setdefault('created_with', []).append(k.get('fill_value', 'no-fill-value'))
        if 'fill_value' in k:
            nv.attrs['_FillValue'] = k['fill_value']

        def setnc(I2, a2, k2):
            nv.attrs[a2[0]] = a2[1]
        nv.attrs['setncattr'] = native(setnc)
        nv.attrs['__setitem__'] = native(lambda I2, a2, k2: I2.ctx.ghost.setdefault('written', []).append(a2[1]))
        nf.attrs['variables'][a[0]] = nv
        return nv
    nf.attrs['createVariable'] = native(create)
    nf.attrs['sync'] = native(lambda I, a, k: None)
    nf.attrs['flush'] = native(lambda I, a, k: None)
    return nf


class FillConsistent(Contract):
    """lemma C07/fill-consistent: for a masked source variable carrying any non-empty subset of the attributes
    missing_value / fill_value / _FillValue (arbitrary values), the value used to fill masked cells equals the fill value
    the netCDF variable was created with (so the masked cells are read back as masked)"""
    prop = 'C07'
    target = PG + '::Pseudo2NetCDF.addVariable'

    def __init__(self, present):
        self.present = present
        self.name = 'addVariable[%s]' % ','.join(present)

    def inputs(self, ctx, I):
        pv, self.vals = make_pvar(ctx, self.present)
        pf = Obj(None, {'variables': {'v': pv}}, tag='pfile')
        nf = make_nfile(ctx)
        s = self_obj(I, PG, 'Pseudo2NetCDF', {})
        return dict(self=s, pfile=pf, nfile=nf, k='v', data=True)

    def ensures(self, inp, res, I):
        cw = I.ctx.ghost.get('created_with', [])
        fw = I.ctx.ghost.get('filled_with', [])
        if len(cw) != 1 or len(fw) != 1:
            return [('one-variable-created-and-filled-once', False)]
        created, filled = cw[0], fw[0]
        expect = self.vals[[k for k in ('missing_value', 'fill_value', '_FillValue') if k in self.present][0]]
        return [('created-with-documented-precedence', (not isinstance(created, str)) and eq(created, expect)),
                ('masked-cells-filled-with-the-created-fill-value', (not isinstance(created, str)) and eq(filled, created)),
                ('data-written-once', len(I.ctx.ghost.get('written', [])) == 1)]


PRESENCE = [p for r in (1, 2, 3) for p in itertools.combinations(('missing_value', 'fill_value', '_FillValue'), r)]
CONTRACTS = [FillConsistent(p) for p in PRESENCE]


def make_plain_pvar(ctx, name):
    """abstract source variable without any fill attribute and with plain (unmasked) data"""
    pv = Obj(None, dict(units='1'), tag='pvar:' + name)
    pv.ghost['closed'] = True      # a plain variable: none of the fill attributes
    pv.attrs['dimensions'] = ('t', 'x')
    pv.attrs['ndim'] = 2
    pv.attrs['ncattrs'] = native(lambda I, a, k: ['units'])
    pv.attrs['typecode'] = native(lambda I, a, k: 'f')
    data = Obj(None, {}, tag='plain-data')
    data.attrs['dtype'] = Opaque('dtype')
    pv.attrs['__getitem__'] = native(lambda I, a, k: data)
    return pv


class AddVariablesNoLeak(Contract):
    """addVariables on a file holding a masked variable with a fill value (arbitrary value, any of the three attribute
    spellings) and plain variables without one, in EVERY definition order: each variable is created exactly once, the masked
    one with its fill value, every plain one WITHOUT any fill value -- nothing about one variable leaks into the creation of
    another -- and the data of every variable are written once."""
    prop = 'C07'
    target = PG + '::Pseudo2NetCDF.addVariables'
    max_paths = 40

    def __init__(self, order, attr, datafirst):
        self.order, self.attr, self.datafirst = tuple(order), attr, datafirst
        self.name = 'addVariables[order %s,%s,%s]' % (','.join(order), attr, 'data first' if datafirst else 'define then populate')

    def inputs(self, ctx, I):
        pvm, self.vals = make_pvar(ctx, (self.attr,))
        vs = {}
        for k in self.order:
            vs[k] = pvm if k == 'masked' else make_plain_pvar(ctx, k)
        pf = Obj(None, {'variables': vs}, tag='pfile')
        nf = make_nfile(ctx)
        s = self_obj(I, PG, 'Pseudo2NetCDF', dict(create_variable_kwds={}, datafirst=self.datafirst, verbose=0))
        self.s = s
        return dict(self=s, pfile=pf, nfile=nf)

    def ensures(self, inp, res, I):
        cw = I.ctx.ghost.get('created_with', [])
        if len(cw) != len(self.order):
            return [('every variable created exactly once', False)]
        out = [('every variable created exactly once', list(inp['nfile'].attrs['variables'].keys()) == list(self.order))]
        for k, c in zip(self.order, cw):
            if k == 'masked':
                out.append(('the masked variable is created with its fill value', (not isinstance(c, str)) and eq(c, self.vals[self.attr])))
            else:
                out.append(('plain variable %s is created without a fill value' % k, isinstance(c, str) and c == 'no-fill-value'))
        out.append(('the shared creation keywords are left as they were', self.s.attrs['create_variable_kwds'] == {}))
        out.append(('data of every variable written once', len(I.ctx.ghost.get('written', [])) == len(self.order)))
        return out


    def concretize(self, model, inp):
        from pyvc.verify import model_value
        return dict(order=list(self.order), attr=self.attr, fill=model_value(model, self.vals[self.attr]))

    def concretize_without_model(self, inp):
        return dict(order=list(self.order), attr=self.attr, fill=-999.0)

    def replay(self, c):
        """a real file with the variables in the contract order, saved and re-opened with netCDF4"""
        import numpy as np
        import tempfile, shutil, netCDF4
        P = import_real()
        fill = float(fl(c.get('fill') if c.get('fill') is not None else -999.0))
        if not np.isfinite(fill) or abs(fill) > 1e30:
            fill = -999.0
        f = P.PseudoNetCDFFile()
        f.createDimension('t', 2)
        f.createDimension('x', 3)
        for k in c['order']:
            if k == 'masked':
                v = f.createVariable(k, 'f', ('t', 'x'), values=np.ma.masked_array(np.arange(6.).reshape(2, 3) + 1, mask=[[0, 1, 0], [0, 0, 1]]))
                setattr(v, c['attr'], np.float32(fill))
            else:
                f.createVariable(k, 'f', ('t', 'x'), values=np.array([[fill, 1, 2], [3, fill, 5]], 'f'), units='1')
        d = tempfile.mkdtemp(prefix='verif_c07_')
        try:
            p_ = os.path.join(d, 'o.nc')
            f.save(p_, format='NETCDF4_CLASSIC', verbose=0).close()
            ds = netCDF4.Dataset(p_)
            bad = []
            for k in c['order']:
                has = '_FillValue' in ds.variables[k].ncattrs()
                if (k == 'masked') != has:
                    bad.append('%s: _FillValue %s' % (k, 'present' if has else 'absent'))
                if k != 'masked' and np.ma.getmaskarray(ds.variables[k][...]).any():
                    bad.append('%s: cells equal to the other variable fill value came back masked' % k)
            ds.close()
            return (not bad), dict(order=c['order'], fill=fill, failed=bad)
        finally:
            shutil.rmtree(d, ignore_errors=True)


class AddDimensions(Contract):
    """addDimensions onto a netCDF4 target: every dimension of the source is created exactly once, in order, with its length --
    or with None (netCDF4's spelling of unlimited) when it is unlimited in the source or named in unlimited_dimensions;
    lengths are arbitrary"""
    prop = 'C07'
    target = PG + '::Pseudo2NetCDF.addDimensions'
    max_paths = 40

    def __init__(self, forced):
        self.forced = forced
        self.name = 'addDimensions[%s]' % ('y forced unlimited' if forced else 'flags from the source')

    def inputs(self, ctx, I):
        self.n = dict(t=ctx.fresh('nt'), y=ctx.fresh('ny'), x=ctx.fresh('nx'))
        dims = {'t': dim_obj(I, 't', self.n['t'], unlimited=True), 'y': dim_obj(I, 'y', self.n['y']), 'x': dim_obj(I, 'x', self.n['x'])}
        pf = Obj(None, {'dimensions': dims}, tag='pfile')
        nf = Obj(None, {'dimensions': {}}, tag='nfile')

        def create(I2, a, k):
            size = a[1] if len(a) > 1 else k.get('size')
            I2.ctx.ghost.setdefault('dims_created', []).append((a[0], size))
            # netCDF4.Dataset.dimensions: name -> Dimension; Dimension.isunlimited() is True iff it was created with size None
            nd = Obj(None, {'isunlimited': native(lambda I3, a3, k3: size is None), '__len__': native(lambda I3, a3, k3: 0 if size is None else size)}, tag='ndim')
            nf.attrs['dimensions'][a[0]] = nd
            return nd
        nf.attrs['createDimension'] = native(create)
        nf.attrs['sync'] = native(lambda I2, a, k: None)
        s = self_obj(I, PG, 'Pseudo2NetCDF', dict(unlimited_dimensions=['y'] if self.forced else [], verbose=0))
        return dict(self=s, pfile=pf, nfile=nf)

    def requires(self, inp):
        return And(*[ge(x, 0) for x in self.n.values()])

    def concretize(self, model, inp):
        from pyvc.verify import model_value
        return dict(forced=self.forced, n={k: model_value(model, v) for k, v in self.n.items()})

    def concretize_without_model(self, inp):
        return dict(forced=self.forced, n=dict(t=3, y=2, x=4))

    def replay(self, c):
        """the real converter onto a real NETCDF4 file: dimension names, order, lengths and unlimited flags after save + reopen"""
        import numpy as np
        import tempfile, shutil, netCDF4
        P = import_real()
        from PseudoNetCDF.pncgen import Pseudo2NetCDF
        n = {k: (int(v) if isinstance(v, int) and 1 <= v <= 6 else d) for (k, v), d in zip(sorted(c['n'].items()), (3, 4, 2))}
        f = P.PseudoNetCDFFile()
        for k in ('t', 'y', 'x'):
            d = f.createDimension(k, n[k])
            if k == 't':
                d.setunlimited(True)
        f.createVariable('v', 'f', ('t', 'y', 'x'), values=np.zeros((n['t'], n['y'], n['x']), 'f'), units='1')
        tmp = tempfile.mkdtemp(prefix='verif_c07_')
        try:
            p_ = os.path.join(tmp, 'o.nc')
            conv = Pseudo2NetCDF(verbose=0)
            if c['forced']:
                conv.unlimited_dimensions = ['y']
            conv.convert(f, p_, format='NETCDF4').close()
            ds = netCDF4.Dataset(p_)
            got = [(k, len(d), bool(d.isunlimited())) for k, d in ds.dimensions.items()]
            ds.close()
            want = [('t', n['t'], True), ('y', n['y'], bool(c['forced'])), ('x', n['x'], False)]
            return got == want, dict(forced=c['forced'], got=got, expected=want)
        finally:
            shutil.rmtree(tmp, ignore_errors=True)

    def ensures(self, inp, res, I):
        got = I.ctx.ghost.get('dims_created', [])
        want = [('t', None), ('y', None if self.forced else self.n['y']), ('x', self.n['x'])]
        ok = len(got) == 3 and all(g[0] == w[0] for g, w in zip(got, want))
        out = [('every dimension created once, in order', ok)]
        if ok:
            for (nm, size), (_, w) in zip(got, want):
                out.append(('dimension %s: %s' % (nm, 'created unlimited (None)' if w is None else 'created with its length'),
                            (size is None) if w is None else (size is not None and eq(size, w))))
        return out


CONTRACTS += [AddDimensions(False), AddDimensions(True)]
CONTRACTS += [AddVariablesNoLeak(o, a, d) for o in (('masked', 'p1'), ('p1', 'masked', 'p2'), ('masked', 'p1', 'p2'))
              for a, d in (('fill_value', False), ('missing_value', True))]



def bounded(tier, seed):
    from rtc import harness as H
    import numpy as np
    import os, tempfile, shutil
    P = H.real()
    from PseudoNetCDF import pncopen
    run = H.Run('C07', tier, seed, budget_s=90 if tier == 'quick' else 600)
    flavours = ['NETCDF3_CLASSIC', 'NETCDF3_64BIT_OFFSET', 'NETCDF4_CLASSIC', 'NETCDF4']
    tmp = tempfile.mkdtemp(prefix='verif_c07_')

    def build(dtypes, fills, unlimited, rs):
        f = P.PseudoNetCDFFile()
        d = f.createDimension('t', 3)
        if unlimited:
            d.setunlimited(True)
        f.createDimension('y', 2)
        f.createDimension('x', 4)
        f.createDimension('c', 5)
        f.createVariable('x', 'd', ('x',), values=np.arange(4.) * 2.5, units='m')
        for dt in dtypes:
            shape = (3, 2, 4)
            if np.dtype(dt).kind == 'f':
                vals = (rs.random(shape) * 200 - 100).astype(dt)
                vals.flat[0] = -0.0
                vals.flat[1] = np.finfo(dt).tiny / 4
                vals.flat[2] = np.finfo(dt).max
            else:
                info = np.iinfo(dt)
                vals = rs.integers(info.min // 2, info.max // 2, shape).astype(dt)
                vals.flat[0], vals.flat[1] = info.max - 3, info.min + 3
            f.createVariable('v_' + dt, dt, ('t', 'y', 'x'), values=vals, units='1', long_name='v ' + dt)
        for fi, fv in enumerate(fills):
            dt = 'f4' if fi % 2 == 0 else 'f8'
            vals = (rs.random((3, 4)) * 50 + 1).astype(dt)
            m = np.zeros((3, 4), bool)
            m.flat[[1, 5, 6]] = True
            mv = np.ma.masked_where(m, vals)
            if fv is None:
                f.createVariable('m%d' % fi, dt, ('t', 'x'), values=mv, units='u')
            else:
                f.createVariable('m%d' % fi, dt, ('t', 'x'), values=mv, fill_value=fv, units='u')
        # plain variables defined AFTER the masked ones, holding the very numbers used as fill values above: nothing about
        # an earlier variable may leak into them (no _FillValue attribute, no masked cell)
        # (not the netCDF DEFAULT fill numbers ~9.97e36: netCDF4 masks those in any variable by convention)
        nums = [fv for fv in fills if fv is not None and abs(fv) < 1e30] + [-999.0, 7.5]
        for dt in ('f4', 'f8', 'i4'):
            vals = np.resize(np.array([x for x in nums if dt != 'i4' or (float(x).is_integer() and abs(x) < 2 ** 31)], dt), (3, 4))
            f.createVariable('after_' + dt, dt, ('t', 'x'), values=vals, units='u')
        f.createVariable('s', 'd', (), values=np.array(3.25))
        f.createVariable('name', 'c', ('y', 'c'), values=np.array([list('hello'), list('world')], dtype='S1'))
        f.title = 'a title'
        f.ival = np.int32(7)
        f.fval = np.float64(2.5)
        f.aval = np.array([1.5, 2.5, 3.5], 'f')
        f.iarr = np.array([1, 2, 3], 'i')
        return f

    def compare(f, g):
        if [(k, len(d), bool(d.isunlimited())) for k, d in f.dimensions.items()] != [(k, len(d), bool(d.isunlimited())) for k, d in g.dimensions.items()]:
            return 'dimensions differ: %r vs %r' % ([(k, len(d), bool(d.isunlimited())) for k, d in f.dimensions.items()],
                                                   [(k, len(d), bool(d.isunlimited())) for k, d in g.dimensions.items()])
        if list(f.ncattrs()) != list(g.ncattrs()):
            return 'global attribute names %r vs %r' % (list(f.ncattrs()), list(g.ncattrs()))
        for k in f.ncattrs():
            if not H._eqv(getattr(f, k), getattr(g, k)):
                return 'global attribute %s: %r vs %r' % (k, getattr(f, k), getattr(g, k))
        if list(f.variables) != list(g.variables):
            return 'variable names/order %r vs %r' % (list(f.variables), list(g.variables))
        for vk, v in f.variables.items():
            w = g.variables[vk]
            if tuple(v.dimensions) != tuple(w.dimensions):
                return 'variable %s dimensions' % vk
            a, b = v[...], w[...]
            if np.asarray(np.ma.getdata(a)).dtype != np.asarray(np.ma.getdata(b)).dtype:
                return 'variable %s dtype %s vs %s' % (vk, np.ma.getdata(a).dtype, np.ma.getdata(b).dtype)
            if np.asarray(np.ma.getdata(a)).dtype.kind == 'S':
                if not np.array_equal(np.ma.getdata(a), np.ma.getdata(b)):
                    return 'variable %s characters differ' % vk
            else:
                e = H.arr_equal(b, a)
                if e:
                    return 'variable %s: %s' % (vk, e)
                da, db = np.ma.getdata(a), np.ma.getdata(b)
                ma = np.ma.getmaskarray(a)
                if da.dtype.kind == 'f' and not np.array_equal(np.signbit(da[~ma]), np.signbit(db[~ma])):
                    return 'variable %s: sign bit of an unmasked value changed' % vk
            fills_src = [k for k in ('fill_value', '_FillValue', 'missing_value') if k in v.ncattrs()]
            if not fills_src and not np.ma.isMaskedArray(a) and '_FillValue' in w.ncattrs():
                return 'variable %s has no fill value in the source but _FillValue=%r in the file' % (vk, getattr(w, '_FillValue'))
            fa = [k for k in v.ncattrs() if k not in ('fill_value', '_FillValue', 'missing_value')]
            fb = [k for k in w.ncattrs() if k not in ('fill_value', '_FillValue', 'missing_value')]
            if fa != fb:
                return 'variable %s attribute names %r vs %r' % (vk, fa, fb)
            for k in fa:
                if not H._eqv(getattr(v, k), getattr(w, k)):
                    return 'variable %s attribute %s: %r vs %r' % (vk, k, getattr(v, k), getattr(w, k))
        return None
    try:
        n = 0
        fillsets = [[None, -999.0, 1e20], [0.0, -1.0], [9.96921e36, 1.0]]
        for fl, cl, unl, fs in itertools.product(flavours, (0, 4), (True, False), range(len(fillsets))):
            if fl.startswith('NETCDF3') and cl:
                continue
            dts = ['i1', 'i2', 'i4', 'f4', 'f8'] + (['i8', 'u1', 'u2', 'u4'] if fl == 'NETCDF4' else [])
            rs = np.random.default_rng(seed + n)
            n += 1
            f = build(dts, fillsets[fs], unl, rs)
            path = os.path.join(tmp, 'f%d.nc' % n)

            def t(f=f, path=path, fl=fl, cl=cl):
                before = H.snapshot(f)
                out = f.save(path, format=fl, complevel=cl, verbose=0)
                out.close()
                g = pncopen(path, format='netcdf')
                try:
                    e = compare(f, g)
                finally:
                    g.close()
                return e or H.same_snapshot(before, H.snapshot(f))
            run.case('C07:save/reopen %s%s fills=%r' % (fl, ' compressed' if cl else '', fillsets[fs]), (fl, cl, unl, fs), t)
        # NETCDF4 holds any number of unlimited dimensions: every unlimited flag comes back (an unlimited dimension that is not the
        # first one, two of them, all of them; record dimension of length 0 excluded: netCDF4 cannot tell it from a new one)
        for which in (('t',), ('y',), ('t', 'y'), ('t', 'y', 'x'), ('x', 't')):
            f = P.PseudoNetCDFFile()
            for k_, n_ in (('t', 3), ('y', 2), ('x', 4)):
                d_ = f.createDimension(k_, n_)
                if k_ in which:
                    d_.setunlimited(True)
            f.createVariable('v', 'f', ('t', 'y', 'x'), values=np.arange(24., dtype='f').reshape(3, 2, 4), units='1')
            path = os.path.join(tmp, 'unl_%s.nc' % '_'.join(which))

            def t(f=f, path=path):
                f.save(path, format='NETCDF4', verbose=0).close()
                g = pncopen(path, format='netcdf')
                try:
                    return compare(f, g)
                finally:
                    g.close()
            run.case('C07:NETCDF4 with unlimited dimensions %s' % ','.join(which), which, t)
        # variable attributes whose NAMES collide with attributes of the netCDF4 variable object (scale, name, datatype, dimensions,
        # dtype, shape ...) and attribute values of another type than the variable: names, values and value types come back
        for fl in flavours:
            f = P.PseudoNetCDFFile()
            f.createDimension('x', 3)
            v = f.createVariable('conc', 'f', ('x',), values=np.array([1., 2., 3.], 'f'), units='ppb')
            odd = dict(scale=2.5, name='an alias', datatype='ratio', valid_min=np.float64(0.25), valid_range=np.array([0., 10.], 'd'), flag=np.int16(3))
            for k_, val_ in odd.items():
                setattr(v, k_, val_)
            # global attributes given as plain python integers, at and beyond the 32-bit range (NETCDF4 holds 64-bit integers)
            gints = dict(small=7, top32=2 ** 31 - 1, bottom32=-2 ** 31)
            if fl == 'NETCDF4':
                gints.update(ncells=2 ** 31 + 5, stamp_ms=1700000000000, negbig=-2 ** 40)
            for k_, val_ in gints.items():
                setattr(f, k_, val_)
            path = os.path.join(tmp, 'odd_%s.nc' % fl)

            def t(f=f, path=path, fl=fl, odd=odd, gints=gints):
                import netCDF4
                f.save(path, format=fl, verbose=0).close()
                ds = netCDF4.Dataset(path)
                try:
                    for k_, val_ in gints.items():
                        if k_ not in ds.ncattrs():
                            return 'global attribute %r (python int %d) is missing from the saved file' % (k_, val_)
                        if int(ds.getncattr(k_)) != val_:
                            return 'global attribute %r: %d saved as %r' % (k_, val_, ds.getncattr(k_))
                    w = ds.variables['conc']
                    have = list(w.ncattrs())
                    for k_, val_ in odd.items():
                        if k_ not in have:
                            return 'variable attribute %r is missing from the saved file (attributes: %r)' % (k_, have)
                        got = w.getncattr(k_)
                        if not H._eqv(got, val_):
                            return 'variable attribute %r: %r saved as %r' % (k_, val_, got)
                        if np.asarray(got).dtype.kind != np.asarray(val_).dtype.kind or (np.asarray(val_).dtype.kind in 'fiu' and np.asarray(got).dtype.itemsize != np.asarray(val_).dtype.itemsize):
                            return 'variable attribute %r: type %s saved as %s' % (k_, np.asarray(val_).dtype, np.asarray(got).dtype)
                finally:
                    ds.close()
                return None
            run.case('C07:variable attributes with reserved names / other types (%s)' % fl, fl, t)
        # scalar (0-dimensional) variables: a masked one whose hidden value differs from the fill value, and a plain one
        for fl in flavours:
            f = P.PseudoNetCDFFile()
            f.createDimension('x', 2)
            f.createVariable('x', 'f', ('x',), values=np.array([1., 2.], 'f'))
            f.createVariable('sf_masked', 'f', (), values=np.ma.masked_array(3.5, mask=True), fill_value=-999.)
            f.createVariable('sf_plain', 'd', (), values=np.array(2.25))
            path = os.path.join(tmp, 'scalar_%s.nc' % fl)

            def t(f=f, path=path, fl=fl):
                f.save(path, format=fl, verbose=0).close()
                g = pncopen(path, format='netcdf')
                try:
                    a = np.ma.asarray(g.variables['sf_masked'][...])
                    if not np.ma.getmaskarray(a).all():
                        return 'masked scalar variable came back unmasked with value %r' % (np.ma.getdata(a).tolist(),)
                    b = np.ma.asarray(g.variables['sf_plain'][...])
                    if np.ma.getmaskarray(b).any() or float(b) != 2.25:
                        return 'plain scalar variable came back as %r' % (b,)
                finally:
                    g.close()
                return None
            run.case('C07:scalar variables, masked and plain (%s)' % fl, fl, t)
        # explicit missing_value different from fill_value
        for mvv, fvv in ((-999.0, -1.0), (-1.0, -999.0)):
            f = P.PseudoNetCDFFile()
            f.createDimension('x', 4)
            v = f.createVariable('m', 'f', ('x',), values=np.ma.masked_values([1., 2., -5., 4.], -5.), fill_value=fvv)
            v.missing_value = mvv
            path = os.path.join(tmp, 'mv%d.nc' % int(abs(mvv)))

            def t(f=f, path=path):
                f.save(path, format='NETCDF4_CLASSIC', verbose=0).close()
                g = pncopen(path, format='netcdf')
                try:
                    a = g.variables['m'][...]
                    if not np.array_equal(np.ma.getmaskarray(a), [False, False, True, False]):
                        return 'masked cell came back as %r (mask %r)' % (np.ma.getdata(a).tolist(), np.ma.getmaskarray(a).tolist())
                finally:
                    g.close()
                return None
            run.case('C07:masked cell with missing_value=%r fill_value=%r' % (mvv, fvv), (mvv, fvv), t)
    finally:
        shutil.rmtree(tmp, ignore_errors=True)
    return run.result(
        rule='real save + pncopen: dimensions (names, order, lengths, unlimited), global/variable attributes, variable names/order/dtypes/dimension tuples, masks and '
             'bit-identical unmasked data (sign bit included) compared field by field',
        bound='4 flavours x compression {0,4} x unlimited {yes,no} x 3 fill-value sets {default,-999,1e20 | 0,-1 | 9.97e36,1}; dtypes i1 i2 i4 f4 f8 (+i8 u1 u2 u4 for NETCDF4), scalar and char variables, str/int/float/array attributes')


def bounded_replay(p):
    return False, p.get('what')


META = dict(
    level='other',
    technique='fill-value consistency lemma (all presence patterns of the three fill attributes) and the no-leak property of addVariables proved by pyvc against an abstract netCDF4 target; libnetcdf round trip by bounded run-time contract',
    text='Proved: for a masked source variable with any non-empty subset of missing_value / fill_value / _FillValue and arbitrary values, Pseudo2NetCDF.addVariable creates the netCDF variable '
         'with the documented precedence and addVariableData fills masked cells with exactly that value; addVariables on a masked variable plus plain variables in every definition order '
         '(define-then-populate and data-first): each variable is created once, the masked one with its fill value, every plain one WITHOUT a fill value, the shared creation keywords are left untouched; addDimensions: every dimension created once, in order, with its (arbitrary) length, or None when unlimited / forced unlimited. Bounded: save followed by open compared field by field for every flavour/compression.',
    note='netCDF4 target modelled by its attribute contract (createVariable(fill_value=X) => _FillValue = X); libnetcdf/HDF5 persistence is external and bounded only.',
    assumptions=['libnetcdf/HDF5 persistence (external)'],
    explanation='mixed: proof obligations for the fill-value lemma + bounded exploration of the real save/open round trip')
