"""C06 -- file arithmetic, eval and mask follow masked-array semantics.

P: the 16 operator methods dispatch to pncbo with exactly the operator string of the
table, the receiver as left operand, the argument as right operand and the receiver's
coordinate-exclusion list (modular: pncbo is replaced by a recording contract).
B: real operators / eval / mask against direct numpy.ma evaluation on snapshots.
"""
import itertools
from .common import *   # noqa
from pyvc.exec import Opaque

F = 'core/_files.py'
FN = 'core/_functions.py'

TABLE = {'__add__': '+', '__sub__': '-', '__mul__': '*', '__truediv__': '/', '__floordiv__': '//', '__pow__': '**',
         '__mod__': '%', '__and__': '&', '__or__': '|', '__xor__': '^', '__lt__': '<', '__gt__': '>', '__le__': '<=',
         '__ge__': '>=', '__eq__': '==', '__ne__': '!='}


class PncboRecorder(Contract):
    """ASSUMED here (checked by the bounded harness): pncbo returns the element-wise result; this
    summary only records how it was called"""
    prop = 'C06'
    target = FN + '::pncbo'

    def result(self, ctx, inp):
        ctx.ghost.setdefault('pncbo_calls', []).append(dict(inp))
        r = Opaque('pncbo-result')
        ctx.ghost['pncbo_result'] = r
        return r


class Operator(Contract):
    prop = 'C06'
    uses = [PncboRecorder()]

    def __init__(self, meth):
        self.meth = meth
        self.target = F + '::PseudoNetCDFFile.' + meth
        self.name = 'PseudoNetCDFFile.%s' % meth

    def inputs(self, ctx, I):
        me = pnc_file(I)
        me.attrs['_operator_exclude_vars'] = ('coordA', 'coordB')
        other = pnc_file(I)
        return dict(self=me, lhs=other)

    def ensures(self, inp, res, I):
        calls = I.ctx.ghost.get('pncbo_calls', [])
        if len(calls) != 1:
            return [('dispatches-once-to-pncbo', False)]
        c = calls[0]
        op = c.get('op')
        return [('dispatches-once-to-pncbo', True),
                ('operator-string', isinstance(op, str) and op.replace(' ', '') == TABLE[self.meth]),
                ('left-operand-is-receiver', c.get('ifile1') is inp['self']),
                ('right-operand-is-argument', c.get('ifile2') is inp['lhs']),
                ('coordinate-pass-through-list', c.get('coordkeys') is inp['self'].attrs['_operator_exclude_vars']),
                ('returns-pncbo-result', res is I.ctx.ghost.get('pncbo_result'))]


CONTRACTS = [Operator(m) for m in TABLE]


import z3
from pyvc.nparr import sym_array, SArr
from pyvc import frontend

_OPS = {'+': add, '-': sub, '*': mul}


class Pncbo(Contract):
    """pncbo(op, f1, f2) itself, for files whose dimension t has ARBITRARY length, op in + - *: variables v (plain in both files)
    and m (masked in both files), a coordinate variable c (in coordkeys) and a variable only in f1:
      * v[i] = f1.v[i] op f2.v[i] for every element; m likewise with mask = mask1 OR mask2;
      * c and the variable missing from f2 are copies of f1's; units text '(u1) op (u2)'; other attributes from f1;
      * dimensions copied, fresh buffers, both inputs unchanged."""
    prop = 'C06'
    target = FN + '::pncbo'
    max_paths = 60

    def __init__(self, op):
        self.op = op
        self.name = 'pncbo[%s]' % op

    def inputs(self, ctx, I):
        n = ctx.fresh('nt')
        self.n = n
        mod = frontend.load('core/_variables.py')
        node, _ = mod.find('PseudoNetCDFVariable')
        cls = I.classref(mod, node)
        mnode, _ = mod.find('PseudoNetCDFMaskedVariable')
        mcls = I.classref(mod, mnode)

        def var(name, masked=False, units='ppb'):
            a = sym_array(name, (n,), 'f')
            a.cls = mcls if masked else cls
            a.attrs.update(dimensions=('t',), _ncattrs=('units', 'long_name'), units=units, long_name='L' + name[:1])
            if masked:
                a.mask = sym_array(name + '_mask', (n,), 'b')
            return a
        self.v1 = dict(v=var('v1'), m=var('m1', True), c=var('c1'), only1=var('o1'))
        self.v2 = dict(v=var('v2', units='ppm'), m=var('m2', True, units='ppm'), c=var('c2'))
        self.pre1 = {k: a.buf.get for k, a in self.v1.items()}
        self.pre2 = {k: a.buf.get for k, a in self.v2.items()}
        self.mpre = (self.v1['m'].mask.buf.get, self.v2['m'].mask.buf.get)
        f1 = pnc_file(I, dimensions={'t': dim_obj(I, 't', n, unlimited=True)}, variables=dict(self.v1), attrs=dict(title='one'))
        f1.attrs['_operator_exclude_vars'] = ('c',)
        f2 = pnc_file(I, dimensions={'t': dim_obj(I, 't', n, unlimited=True)}, variables=dict(self.v2), attrs=dict(title='two'))
        self.f1, self.f2 = f1, f2
        return dict(op=self.op, ifile1=f1, ifile2=f2)

    def requires(self, inp):
        return ge(self.n, 1)

    def small(self, inp):
        return le(self.n, 2)

    def ensures(self, inp, res, I):
        if not hasattr(res, 'attrs') or 'variables' not in res.attrs:
            return [('returns-file', False)]
        vs = res.attrs['variables']
        out = [('is-a-new-file', res is not self.f1 and res is not self.f2), ('variables', list(vs.keys()) == ['v', 'm', 'c', 'only1']),
               ('file-attributes-of-the-left-operand', res.attrs.get('title') == 'one'),
               ('dimension-copied', 't' in res.attrs['dimensions'] and eq(res.attrs['dimensions']['t'].attrs['_len'], self.n))]
        if list(vs.keys()) != ['v', 'm', 'c', 'only1'] or not all(isinstance(x, SArr) for x in vs.values()):
            return out + [('variables-are-arrays', False)]
        i = z3.Int('i')
        rng = And(ge(i, 0), lt(i, self.n))
        f = _OPS[self.op]
        V, M, C, O = vs['v'], vs['m'], vs['c'], vs['only1']
        m1, m2 = self.mpre[0]((i,)), self.mpre[1]((i,))
        out += [('shapes', And(*[eq(x.shape[0], self.n) for x in (V, M, C, O)])),
                ('v[i] = left[i] op right[i]', Implies(rng, eq(V.get(i), f(self.pre1['v']((i,)), self.pre2['v']((i,)))))),
                ('v has no masked element', V.mask is None or Implies(rng, sym.Not(V.mask.get(i)))),
                ('m is masked where either operand is', M.mask is not None and Implies(rng, eq(M.mask.get(i), sym.Or(m1, m2)))),
                ('m[i] = left[i] op right[i] where unmasked', Implies(And(rng, sym.Not(m1), sym.Not(m2)), eq(M.get(i), f(self.pre1['m']((i,)), self.pre2['m']((i,)))))),
                ('coordinate variable copied from the left operand', Implies(rng, eq(C.get(i), self.pre1['c']((i,))))),
                ('variable missing on the right copied from the left operand', Implies(rng, eq(O.get(i), self.pre1['only1']((i,))))),
                ('units text', V.attrs.get('units') == '(ppb) %s (ppm)' % self.op and M.attrs.get('units') == '(ppb) %s (ppm)' % self.op
                 and C.attrs.get('units') == 'ppb' and O.attrs.get('units') == 'ppb'),
                ('other attributes from the left operand', V.attrs.get('long_name') == 'Lv' and M.attrs.get('long_name') == 'Lm'),
                ('fresh-buffers', all(x.buf is not a.buf for x in (V, M, C, O) for a in list(self.v1.values()) + list(self.v2.values()))),
                ('inputs-unchanged', Implies(rng, And(*[eq(a.buf.get((i,)), self.pre1[k]((i,))) for k, a in self.v1.items()],
                                                      *[eq(a.buf.get((i,)), self.pre2[k]((i,))) for k, a in self.v2.items()],
                                                      eq(self.v1['m'].mask.buf.get((i,)), m1), eq(self.v2['m'].mask.buf.get((i,)), m2))))]
        return out


    # -- replay on the real function -----------------------------------------------------------------------------------
    def concretize(self, model, inp):
        from pyvc.verify import model_value
        return dict(op=self.op, n=model_value(model, self.n))

    def concretize_without_model(self, inp):
        return dict(op=self.op, n=4)

    def replay(self, c):
        import numpy as np
        P = import_real()
        from PseudoNetCDF.core._functions import pncbo
        out = None
        for n in (int(c['n']), 4):
            if not 1 <= n <= 50:
                continue
            rng = np.random.default_rng(6)

            def mk(title, with_only):
                f = P.PseudoNetCDFFile()
                f.createDimension('t', n).setunlimited(True)
                f.title = title
                d = dict(v=rng.random(n) + 1, m=np.ma.masked_array(rng.random(n) + 1, mask=rng.random(n) < 0.4), c=rng.random(n))
                if with_only:
                    d['only1'] = rng.random(n)
                for k_, a in d.items():
                    f.createVariable(k_, 'd', ('t',), values=a.copy(), units='ppb' if title == 'one' else 'ppm', long_name='L' + k_[:1])
                f._operator_exclude_vars = ('c',)
                return f, d
            f1, d1 = mk('one', True)
            f2, d2 = mk('two', False)
            try:
                g = pncbo(c['op'], f1, f2)
            except Exception as e:
                return False, dict(raised=type(e).__name__, message=str(e)[:200], n=n)
            import operator
            fn = {'+': operator.add, '-': operator.sub, '*': operator.mul}[c['op']]
            bad = []
            if not np.array_equal(np.asarray(g.variables['v'][...]), fn(d1['v'], d2['v'])):
                bad.append('v')
            gm = np.ma.asarray(g.variables['m'][...])
            em = fn(d1['m'], d2['m'])
            if not np.array_equal(np.ma.getmaskarray(gm), np.ma.getmaskarray(em)) or not np.array_equal(gm.compressed(), em.compressed()):
                bad.append('m (mask or values)')
            if not np.array_equal(np.asarray(g.variables['c'][...]), d1['c']) or not np.array_equal(np.asarray(g.variables['only1'][...]), d1['only1']):
                bad.append('copied variables')
            if g.variables['v'].units != '(ppb) %s (ppm)' % c['op'] or getattr(g, 'title', None) != 'one':
                bad.append('attributes')
            for f, d in ((f1, d1), (f2, d2)):
                for k_, a in d.items():
                    x = f.variables[k_][...]
                    if not np.array_equal(np.ma.getdata(x), np.ma.getdata(a)) or not np.array_equal(np.ma.getmaskarray(x), np.ma.getmaskarray(a)):
                        bad.append('input %s modified' % k_)
            r = (not bad, dict(op=c['op'], n=n, failed=bad))
            if bad:
                return r
            out = out or r
        return out


CONTRACTS += [Pncbo(op) for op in ("+", "-", "*")]


class MaskMethod(Contract):
    """PseudoNetCDFFile.mask(...) with threshold predicates on a file whose dimension t has ARBITRARY length: variables v (plain),
    m (already masked) and the coordinate variable c; thresholds are arbitrary reals:
      * an element of v / m is masked afterwards exactly when it was masked before or ANY given predicate holds for it
        (greater: x > g, greater_equal: x >= g, less: x < l, less_equal: x <= l, equal: x == e), inclusive bounds inclusive;
      * unmasked elements keep their values; the coordinate variable is copied unmasked; attributes carried; the input
        (values and masks) is unchanged and the result owns fresh buffers."""
    prop = 'C06'
    target = F + '::PseudoNetCDFFile.mask'
    max_paths = 60

    def __init__(self, preds):
        self.preds = tuple(preds)
        self.name = 'mask[%s]' % ','.join(preds)

    def inputs(self, ctx, I):
        n = ctx.fresh('nt')
        self.n = n
        mod = frontend.load('core/_variables.py')
        cls = I.classref(mod, mod.find('PseudoNetCDFVariable')[0])
        mcls = I.classref(mod, mod.find('PseudoNetCDFMaskedVariable')[0])

        def var(name, masked=False):
            a = sym_array(name, (n,), 'f')
            a.cls = mcls if masked else cls
            a.attrs.update(dimensions=('t',), _ncattrs=('units',), units='ppb')
            if masked:
                a.mask = sym_array(name + '_mask', (n,), 'b')
            return a
        self.vars = dict(v=var('v'), m=var('m', True), c=var('c'))
        self.pre = {k: a.buf.get for k, a in self.vars.items()}
        self.mpre = self.vars['m'].mask.buf.get
        f = pnc_file(I, dimensions={'t': dim_obj(I, 't', n, unlimited=True)}, variables=dict(self.vars), attrs=dict(title='src'))
        f.attrs['_operator_exclude_vars'] = ('c',)
        self.f = f
        self.thr = {p: ctx.fresh('thr_' + p, 'Real') for p in self.preds}
        return dict(self=f, kw=dict(self.thr))

    def call_args(self, inp):
        return [inp['self']], dict(inp['kw'])

    def requires(self, inp):
        return ge(self.n, 1)

    def small(self, inp):
        return le(self.n, 2)

    def hit(self, x):
        cmp = dict(greater=gt, greater_equal=ge, less=lt, less_equal=le, equal=eq)
        return sym.Or(*[cmp[p](x, t) for p, t in self.thr.items()])

    def ensures(self, inp, res, I):
        if not hasattr(res, 'attrs') or 'variables' not in res.attrs:
            return [('returns-file', False)]
        vs = res.attrs['variables']
        out = [('is-a-new-file', res is not self.f), ('variables', list(vs.keys()) == ['v', 'm', 'c']), ('file-attributes', res.attrs.get('title') == 'src')]
        if list(vs.keys()) != ['v', 'm', 'c'] or not all(isinstance(x, SArr) for x in vs.values()):
            return out + [('variables-are-arrays', False)]
        i = z3.Int('i')
        rng = And(ge(i, 0), lt(i, self.n))
        V, M, C = vs['v'], vs['m'], vs['c']
        xv, xm, m0 = self.pre['v']((i,)), self.pre['m']((i,)), self.mpre((i,))
        vmask = V.mask.get(i) if V.mask is not None else False
        mmask = M.mask.get(i) if M.mask is not None else False
        out += [('shapes', And(*[eq(x.shape[0], self.n) for x in (V, M, C)])),
                ('v masked exactly where a predicate holds', Implies(rng, eq(vmask, self.hit(xv)))),
                ('m masked exactly where it was masked or a predicate holds', Implies(rng, eq(mmask, sym.Or(m0, self.hit(xm))))),
                ('unmasked elements keep their values', Implies(rng, And(Implies(sym.Not(vmask), eq(V.get(i), xv)), Implies(sym.Not(mmask), eq(M.get(i), xm))))),
                ('coordinate variable copied unmasked', Implies(rng, And(eq(C.get(i), self.pre['c']((i,))), sym.Not(C.mask.get(i)) if C.mask is not None else True))),
                ('attributes carried', all(x.attrs.get('units') == 'ppb' and tuple(x.attrs.get('dimensions', ())) == ('t',) for x in (V, M, C))),
                ('fresh-buffers', all(x.buf is not a.buf for x in (V, M, C) for a in self.vars.values())),
                ('input-unchanged', Implies(rng, And(*[eq(a.buf.get((i,)), self.pre[k]((i,))) for k, a in self.vars.items()], eq(self.vars['m'].mask.buf.get((i,)), m0))))]
        return out


    # -- replay on the real function -----------------------------------------------------------------------------------
    def concretize(self, model, inp):
        from pyvc.verify import model_value
        return dict(preds=list(self.preds), n=model_value(model, self.n), thr={p: model_value(model, t) for p, t in self.thr.items()},
                    v=self.vars['v'].model_value(model), m=self.vars['m'].model_value(model), mmask=self.vars['m'].mask.model_value(model))

    def concretize_without_model(self, inp):
        return dict(preds=list(self.preds), n=0, thr={p: 1.0 for p in self.preds})

    def replay(self, c):
        import numpy as np
        P = import_real()
        thr = {p: float(fl(c['thr'][p])) for p in c['preds']}
        cands = []
        try:
            vv, mm, mk = (c[k]['values'] for k in ('v', 'm', 'mmask'))
            cands.append((np.array([float(fl(x)) for x in vv]), np.array([float(fl(x)) for x in mm]), np.array([bool(x) for x in mk])))
        except Exception:
            pass
        # canonical data: every threshold itself, just below and just above it
        pts = sorted({t + d for t in thr.values() for d in (-1., 0., 1.)})
        cands.append((np.array(pts), np.array(pts[::-1]), np.array([i % 3 == 0 for i in range(len(pts))])))
        cmp = dict(greater=np.greater, greater_equal=np.greater_equal, less=np.less, less_equal=np.less_equal, equal=np.equal)
        out = None
        for v, m, mk in cands:
            if len(v) == 0:
                continue
            f = P.PseudoNetCDFFile()
            f.createDimension('t', len(v)).setunlimited(True)
            f.title = 'src'
            f.createVariable('v', 'd', ('t',), values=v.copy(), units='ppb')
            f.createVariable('m', 'd', ('t',), values=np.ma.masked_array(m.copy(), mask=mk.copy()), units='ppb')
            f.createVariable('c', 'd', ('t',), values=np.arange(len(v), dtype='d'), units='ppb')
            f._operator_exclude_vars = ('c',)
            try:
                g = f.mask(**thr)
            except Exception as e:
                return False, dict(raised=type(e).__name__, message=str(e)[:200], thresholds=thr)
            hit = lambda x: np.logical_or.reduce([cmp[p](x, t) for p, t in thr.items()])
            gv, gm = np.ma.asarray(g.variables['v'][...]), np.ma.asarray(g.variables['m'][...])
            bad = []
            if not np.array_equal(np.ma.getmaskarray(gv), hit(v)):
                bad.append('mask of v %r expected %r' % (np.ma.getmaskarray(gv).tolist(), hit(v).tolist()))
            if not np.array_equal(np.ma.getmaskarray(gm), mk | hit(m)):
                bad.append('mask of m %r expected %r' % (np.ma.getmaskarray(gm).tolist(), (mk | hit(m)).tolist()))
            if not np.array_equal(gv.compressed(), v[~hit(v)]) or not np.array_equal(gm.compressed(), m[~(mk | hit(m))]):
                bad.append('values of unmasked elements')
            if np.ma.getmaskarray(g.variables['c'][...]).any():
                bad.append('coordinate masked')
            if not np.array_equal(np.asarray(f.variables['v'][...]), v) or not np.array_equal(np.ma.getmaskarray(f.variables['m'][...]), mk):
                bad.append('input modified')
            r = (not bad, dict(thresholds=thr, v=v.tolist(), m=m.tolist(), m_mask=mk.tolist(), failed=bad))
            if bad:
                return r
            out = out or r
        return out


CONTRACTS += [MaskMethod(p) for p in (('greater',), ('less_equal',), ('greater', 'greater_equal'), ('greater', 'less'), ('equal', 'less', 'greater_equal'))]


def bounded(tier, seed):
    from rtc import harness as H
    import numpy as np
    import operator
    P = H.real()
    run = H.Run('C06', tier, seed, budget_s=80 if tier == 'quick' else 600)
    OPS = {'+': operator.add, '-': operator.sub, '*': operator.mul, '/': operator.truediv, '//': operator.floordiv,
           '**': operator.pow, '%': operator.mod, '<': operator.lt, '>': operator.gt, '<=': operator.le, '>=': operator.ge,
           '==': operator.eq, '!=': operator.ne}

    def mk(dt, seed_, special, masked):
        f = P.PseudoNetCDFFile()
        f.createDimension('t', 2); f.createDimension('x', 4)
        rs = np.random.default_rng(seed_)
        f.createVariable('x', 'd', ('x',), values=np.arange(4.) + seed_)
        f.setCoords(['x'])
        vals = (rs.random((2, 4)) * 8 - 2).astype(dt) if np.dtype(dt).kind == 'f' else rs.integers(-3, 6, (2, 4)).astype(dt)
        if special:
            vals.flat[0] = 0
            vals.flat[1] = 1
            vals.flat[4] = 3      # cells exactly at the thresholds used for mask()
            vals.flat[5] = -1
            if np.dtype(dt).kind == 'f':
                vals.flat[2] = np.inf
                vals.flat[3] = np.nan
        if masked:
            vals = np.ma.masked_where(rs.random((2, 4)) < 0.3, vals)
            f.createVariable('v', dt, ('t', 'x'), values=vals, fill_value=-999)
        else:
            f.createVariable('v', dt, ('t', 'x'), values=vals)
        if seed_ == 1:
            f.createVariable('only_left', dt, ('t',), values=np.arange(2).astype(dt))
        return f
    for dt in ('f4', 'f8', 'i4', 'i2'):
        for special in (False, True):
            for m1, m2 in itertools.product((False, True), repeat=2):
                for opn, opf in OPS.items():
                    if opn == '**' and np.dtype(dt).kind == 'i':
                        continue   # negative integer powers raise in numpy: outside the domain
                    a, b = mk(dt, 1, special, m1), mk(dt, 2, special, m2)

                    def t(a=a, b=b, opn=opn, opf=opf):
                        sa, sb = H.snapshot(a), H.snapshot(b)
                        with np.errstate(all='ignore'):
                            r = opf(a, b)
                            x, y = a.variables['v'][...], b.variables['v'][...]
                            # plain operands follow ndarray arithmetic, masked operands numpy.ma arithmetic
                            x = np.ma.asarray(x) if isinstance(x, np.ma.MaskedArray) else np.asarray(x)
                            y = np.ma.asarray(y) if isinstance(y, np.ma.MaskedArray) else np.asarray(y)
                            exp = np.ma.masked_invalid(opf(x, y))
                        e = H.wf(r)
                        if e:
                            return 'ill-formed: ' + e
                        got = np.ma.asarray(r.variables['v'][...])
                        mg, me = np.ma.getmaskarray(got), np.ma.getmaskarray(exp)
                        if not np.array_equal(mg, me):
                            return 'masks differ: got %s expected %s' % (mg.astype(int).tolist(), me.astype(int).tolist())
                        gd, ed = np.where(mg, 0, np.ma.getdata(got)).astype('d'), np.where(me, 0, np.ma.getdata(exp)).astype('d')
                        if not np.allclose(gd, ed, rtol=1e-6, atol=0):
                            return 'values differ: got %s expected %s' % (gd.tolist(), ed.tolist())
                        e = H.arr_equal(r.variables['x'][...], a.variables['x'][...])
                        if e:
                            return 'coordinate variable not passed through from the left operand: ' + e
                        e = H.arr_equal(r.variables['only_left'][...], a.variables['only_left'][...])
                        if e:
                            return 'variable missing on the right not copied: ' + e
                        return H.same_snapshot(sa, H.snapshot(a)) or H.same_snapshot(sb, H.snapshot(b))
                    run.case('C06:operator %s (%s%s)' % (opn, 'masked operand' if (m1 or m2) else 'plain', ', special values' if special else ''),
                             (dt, special, m1, m2, opn), t)
    # eval
    for dt in ('f4', 'f8', 'i4'):
        for masked in (False, True):
            a = mk(dt, 3, False, masked)
            for expr, fn in (('w = v * 2 + 1', lambda v: v * 2 + 1), ('w = np.abs(v) ** 0.5', lambda v: np.abs(v) ** 0.5),
                             ('w = v[:, ::-1] - v', lambda v: v[:, ::-1] - v), ('w = v.mean(1, keepdims=True)', lambda v: v.mean(1, keepdims=True))):
                def t(a=a, expr=expr, fn=fn):
                    sa = H.snapshot(a)
                    r = a.eval(expr)
                    exp = fn(np.ma.asarray(a.variables['v'][...]))
                    if 'w' not in r.variables:
                        return 'assigned variable missing'
                    if expr.endswith('keepdims=True)'):
                        if np.ma.asarray(r.variables['w'][...]).size != exp.size:
                            return 'shape'
                        e = H.arr_equal(np.ma.asarray(r.variables['w'][...]).reshape(exp.shape), exp, exact=False)
                    else:
                        e = H.arr_equal(r.variables['w'][...], exp, exact=False)
                    return e or H.same_snapshot(sa, H.snapshot(a))
                run.case('C06:eval', (dt, masked, expr), t)
    # eval on a file that has a GLOBAL ATTRIBUTE with the name of a variable the expression reads: the file's ARRAY is what is evaluated
    for dt in ('f4', 'i4'):
        for masked in (False, True):
            def t_clash(dt=dt, masked=masked):
                a = mk(dt, 3, False, masked)
                a.v = 1000.0                    # global attribute named like the variable v
                a.scale = 3                     # an attribute that is NOT a variable name stays usable in expressions
                r = a.eval('w = v * 2 + scale')
                exp = np.ma.asarray(a.variables['v'][...]) * 2 + 3
                if 'w' not in r.variables:
                    return 'assigned variable missing'
                return H.arr_equal(r.variables['w'][...], exp, exact=False)
            run.case('C06:eval with a global attribute named like a variable', (dt, masked), t_clash)
    # mask(): all predicate combinations
    thr = dict(less=-1.0, less_equal=0.0, greater=3.0, greater_equal=3.0, values=1.0, equal=0.0)
    keys = list(thr)
    for dt in ('f4', 'f8'):
        for masked in (False, True):
            a = mk(dt, 5, True, masked)
            v0 = np.ma.asarray(a.variables['v'][...])
            for k in range(1, len(keys) + 1):
                for combo in itertools.combinations(keys, k):
                    for invalid in (False, True):
                        kw = {c: thr[c] for c in combo}
                        kw2 = dict(kw, invalid=invalid)

                        def t(a=a, kw=kw, kw2=kw2, invalid=invalid, v0=v0):
                            sa = H.snapshot(a)
                            r = a.mask(**kw2)
                            d = np.ma.getdata(v0)
                            m = np.ma.getmaskarray(v0).copy()
                            with np.errstate(all='ignore'):
                                if 'less' in kw: m |= d < kw['less']
                                if 'less_equal' in kw: m |= d <= kw['less_equal']
                                if 'greater' in kw: m |= d > kw['greater']
                                if 'greater_equal' in kw: m |= d >= kw['greater_equal']
                                if 'values' in kw: m |= np.isclose(d, kw['values'])
                                if 'equal' in kw: m |= d == kw['equal']
                                if invalid: m |= ~np.isfinite(d)
                            got = np.ma.asarray(r.variables['v'][...])
                            if not np.array_equal(np.ma.getmaskarray(got), m):
                                return 'mask %s expected %s' % (np.ma.getmaskarray(got).astype(int).tolist(), m.astype(int).tolist())
                            gd = np.ma.getdata(got)
                            if not np.array_equal(gd[~m], d[~m], equal_nan=True):
                                return 'unmasked values altered'
                            e = H.arr_equal(r.variables['x'][...], a.variables['x'][...])
                            if e:
                                return 'coordinate variable masked/altered: ' + e
                            return H.same_snapshot(sa, H.snapshot(a))
                        run.case('C06:mask(%s%s)' % (','.join(combo), ',invalid' if invalid else ''), (dt, masked, combo, invalid), t)
            # where= on matching dims
            w = np.ma.getdata(v0) > 2

            def t_where(a=a, w=w, v0=v0):
                r = a.mask(where=w, dims=('t', 'x'))
                m = np.ma.getmaskarray(v0) | w
                got = np.ma.asarray(r.variables['v'][...])
                if not np.array_equal(np.ma.getmaskarray(got), m):
                    return 'where: mask differs'
                return None
            run.case('C06:mask(where)', (dt, masked), t_where)
    # mask_vals (the function behind `pncgen --mask type,value`): cells that satisfy the predicate OR were already masked are masked,
    # no unmasked value changes; also chained (`--mask less,2 --mask greater,7`)
    from PseudoNetCDF.core._functions import mask_vals
    preds = {'greater': np.greater, 'less': np.less, 'greater_equal': np.greater_equal, 'less_equal': np.less_equal, 'equal': np.equal, 'not_equal': np.not_equal}
    for dt in ('f', 'd', 'i'):
        for chain in (('greater,7',), ('less,2',), ('less_equal,3',), ('greater_equal,8',), ('equal,5',), ('not_equal,5',), ('less,2', 'greater,7'), ('greater,7', 'less,2')):
            def t_mv(dt=dt, chain=chain):
                f = P.PseudoNetCDFFile()
                f.createDimension('t', 3)
                f.createDimension('x', 4)
                data = (np.arange(12).reshape(3, 4)).astype(dt)
                old = np.zeros((3, 4), bool)
                old[0, 1] = old[1, 2] = old[2, 3] = True       # already masked cells with ordinary values underneath (1, 6, 11)
                f.createVariable('v', dt, ('t', 'x'), values=np.ma.masked_array(data.copy(), mask=old.copy()), units='1')
                f.createVariable('plain', dt, ('t', 'x'), values=data.copy() + 1, units='1')
                g = f
                expm, expm2 = old.copy(), np.zeros((3, 4), bool)
                for md in chain:
                    g = mask_vals(g, md)
                    nm, val = md.split(',')
                    expm |= preds[nm](data, float(val))
                    expm2 |= preds[nm](data + 1, float(val))
                for vk, em, dd in (('v', expm, data), ('plain', expm2, data + 1)):
                    out = np.ma.asarray(g.variables[vk][...])
                    gm = np.ma.getmaskarray(out)
                    if not np.array_equal(gm, em):
                        return 'mask_vals %s: mask of %s is %r, expected predicate OR already masked %r' % (' then '.join(chain), vk, gm.astype(int).tolist(), em.astype(int).tolist())
                    if not np.array_equal(np.ma.getdata(out)[~em], dd[~em]):
                        return 'mask_vals %s: an unmasked value of %s changed' % (' then '.join(chain), vk)
                return None
            run.case('C06:mask_vals', (dt, chain), t_mv)
    return run.result(
        rule='real operators / eval / mask vs direct numpy.ma evaluation on snapshots; masks exact, values rtol 1e-6; coordinate variables passed through; inputs unchanged',
        bound='pairs of conforming files (2x4), dtypes f4 f8 i4 i2, masked/unmasked operands, operands containing 0, 1, inf, nan; 13 operators; all 2^6 x 2 predicate combinations of mask()')


def bounded_replay(p):
    return False, p.get('what')


META = dict(
    level='other',
    technique='operator dispatch (16 methods), pncbo itself (+, -, * on plain and masked variables of arbitrary length; eval of the concrete operator text) and '
              'mask() with threshold predicates proved by pyvc; the other operators, eval() and the remaining mask() options by bounded run-time contract against numpy.ma',
    text='Proved: each of the 16 operator methods calls pncbo exactly once with the operator string of the table, receiver left, argument right and the '
         "receiver's coordinate-exclusion list, and returns its result; pncbo for + - * on files of ANY length: every element is left op right, a masked variable is masked "
         'exactly where either operand is, coordinate variables and variables missing on the right are copies of the left, units text, attributes, fresh buffers, both inputs '
         'unchanged; mask() with greater / greater_equal / less / less_equal / equal (alone and combined, ARBITRARY thresholds, any length): an element is masked afterwards '
         'exactly when it was masked before or any given predicate holds (inclusive bounds inclusive), unmasked elements keep their values, the coordinate variable stays '
         'unmasked, input unchanged. Bounded: all 16 operators, division by zero / invalid results, eval and all 2^6 x 2 mask() option combinations against numpy.ma on snapshots.',
    note='numpy element-wise arithmetic, masked_invalid / masked_where (copying) and getmaskarray are trusted models; NaN/inf production (/, **, %) and comparisons are bounded only.',
    assumptions=['numpy.ma semantics (oracle of the bounded part; masked_where/masked_invalid/getmaskarray models of the proof part)'],
    explanation='mixed: proof obligations for dispatch and for pncbo(+,-,*) + bounded exploration for the remaining value semantics')
