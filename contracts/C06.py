"""C06 -- file arithmetic, eval and mask follow masked-array semantics.

P: the 16 operator methods dispatch to pncbo with exactly the operator string of the
table, the receiver as left operand, the argument as right operand and the receiver's
coordinate-exclusion list (modular: pncbo is replaced by a recording contract).
B: real operators / eval / mask against direct numpy.ma evaluation on snapshots.
"""
import itertools
from .common import *   # noqa
from pyvc.exec import Opaque

F = 'core/_files.py'
FN = 'core/_functions.py'

TABLE = {'__add__': '+', '__sub__': '-', '__mul__': '*', '__truediv__': '/', '__floordiv__': '//', '__pow__': '**',
         '__mod__': '%', '__and__': '&', '__or__': '|', '__xor__': '^', '__lt__': '<', '__gt__': '>', '__le__': '<=',
         '__ge__': '>=', '__eq__': '==', '__ne__': '!='}


class PncboRecorder(Contract):
    """ASSUMED here (checked by the bounded harness): pncbo returns the element-wise result; this
    summary only records how it was called"""
    prop = 'C06'
    target = FN + '::pncbo'

    def result(self, ctx, inp):
        ctx.ghost.setdefault('pncbo_calls', []).append(dict(inp))
        r = Opaque('pncbo-result')
        ctx.ghost['pncbo_result'] = r
        return r


class Operator(Contract):
    prop = 'C06'
    uses = [PncboRecorder()]

    def __init__(self, meth):
        self.meth = meth
        self.target = F + '::PseudoNetCDFFile.' + meth
        self.name = 'PseudoNetCDFFile.%s' % meth

    def inputs(self, ctx, I):
        me = pnc_file(I)
        me.attrs['_operator_exclude_vars'] = ('coordA', 'coordB')
        other = pnc_file(I)
        return dict(self=me, lhs=other)

    def ensures(self, inp, res, I):
        calls = I.ctx.ghost.get('pncbo_calls', [])
        if len(calls) != 1:
            return [('dispatches-once-to-pncbo', False)]
        c = calls[0]
        op = c.get('op')
        return [('dispatches-once-to-pncbo', True),
                ('operator-string', isinstance(op, str) and op.replace(' ', '') == TABLE[self.meth]),
                ('left-operand-is-receiver', c.get('ifile1') is inp['self']),
                ('right-operand-is-argument', c.get('ifile2') is inp['lhs']),
                ('coordinate-pass-through-list', c.get('coordkeys') is inp['self'].attrs['_operator_exclude_vars']),
                ('returns-pncbo-result', res is I.ctx.ghost.get('pncbo_result'))]


CONTRACTS = [Operator(m) for m in TABLE]


def bounded(tier, seed):
    from rtc import harness as H
    import numpy as np
    import operator
    P = H.real()
    run = H.Run('C06', tier, seed, budget_s=80 if tier == 'quick' else 600)
    OPS = {'+': operator.add, '-': operator.sub, '*': operator.mul, '/': operator.truediv, '//': operator.floordiv,
           '**': operator.pow, '%': operator.mod, '<': operator.lt, '>': operator.gt, '<=': operator.le, '>=': operator.ge,
           '==': operator.eq, '!=': operator.ne}

    def mk(dt, seed_, special, masked):
        f = P.PseudoNetCDFFile()
        f.createDimension('t', 2); f.createDimension('x', 4)
        rs = np.random.default_rng(seed_)
        f.createVariable('x', 'd', ('x',), values=np.arange(4.) + seed_)
        f.setCoords(['x'])
        vals = (rs.random((2, 4)) * 8 - 2).astype(dt) if np.dtype(dt).kind == 'f' else rs.integers(-3, 6, (2, 4)).astype(dt)
        if special:
            vals.flat[0] = 0
            vals.flat[1] = 1
            vals.flat[4] = 3      # cells exactly at the thresholds used for mask()
            vals.flat[5] = -1
            if np.dtype(dt).kind == 'f':
                vals.flat[2] = np.inf
                vals.flat[3] = np.nan
        if masked:
            vals = np.ma.masked_where(rs.random((2, 4)) < 0.3, vals)
            f.createVariable('v', dt, ('t', 'x'), values=vals, fill_value=-999)
        else:
            f.createVariable('v', dt, ('t', 'x'), values=vals)
        if seed_ == 1:
            f.createVariable('only_left', dt, ('t',), values=np.arange(2).astype(dt))
        return f
    for dt in ('f4', 'f8', 'i4', 'i2'):
        for special in (False, True):
            for m1, m2 in itertools.product((False, True), repeat=2):
                for opn, opf in OPS.items():
                    if opn == '**' and np.dtype(dt).kind == 'i':
                        continue   # negative integer powers raise in numpy: outside the domain
                    a, b = mk(dt, 1, special, m1), mk(dt, 2, special, m2)

                    def t(a=a, b=b, opn=opn, opf=opf):
                        sa, sb = H.snapshot(a), H.snapshot(b)
                        with np.errstate(all='ignore'):
                            r = opf(a, b)
                            x, y = a.variables['v'][...], b.variables['v'][...]
                            # plain operands follow ndarray arithmetic, masked operands numpy.ma arithmetic
                            x = np.ma.asarray(x) if isinstance(x, np.ma.MaskedArray) else np.asarray(x)
                            y = np.ma.asarray(y) if isinstance(y, np.ma.MaskedArray) else np.asarray(y)
                            exp = np.ma.masked_invalid(opf(x, y))
                        e = H.wf(r)
                        if e:
                            return 'ill-formed: ' + e
                        got = np.ma.asarray(r.variables['v'][...])
                        mg, me = np.ma.getmaskarray(got), np.ma.getmaskarray(exp)
                        if not np.array_equal(mg, me):
                            return 'masks differ: got %s expected %s' % (mg.astype(int).tolist(), me.astype(int).tolist())
                        gd, ed = np.where(mg, 0, np.ma.getdata(got)).astype('d'), np.where(me, 0, np.ma.getdata(exp)).astype('d')
                        if not np.allclose(gd, ed, rtol=1e-6, atol=0):
                            return 'values differ: got %s expected %s' % (gd.tolist(), ed.tolist())
                        e = H.arr_equal(r.variables['x'][...], a.variables['x'][...])
                        if e:
                            return 'coordinate variable not passed through from the left operand: ' + e
                        e = H.arr_equal(r.variables['only_left'][...], a.variables['only_left'][...])
                        if e:
                            return 'variable missing on the right not copied: ' + e
                        return H.same_snapshot(sa, H.snapshot(a)) or H.same_snapshot(sb, H.snapshot(b))
                    run.case('C06:operator %s (%s%s)' % (opn, 'masked operand' if (m1 or m2) else 'plain', ', special values' if special else ''),
                             (dt, special, m1, m2, opn), t)
    # eval
    for dt in ('f4', 'f8', 'i4'):
        for masked in (False, True):
            a = mk(dt, 3, False, masked)
            for expr, fn in (('w = v * 2 + 1', lambda v: v * 2 + 1), ('w = np.abs(v) ** 0.5', lambda v: np.abs(v) ** 0.5),
                             ('w = v[:, ::-1] - v', lambda v: v[:, ::-1] - v), ('w = v.mean(1, keepdims=True)', lambda v: v.mean(1, keepdims=True))):
                def t(a=a, expr=expr, fn=fn):
                    sa = H.snapshot(a)
                    r = a.eval(expr)
                    exp = fn(np.ma.asarray(a.variables['v'][...]))
                    if 'w' not in r.variables:
                        return 'assigned variable missing'
                    if expr.endswith('keepdims=True)'):
                        if np.ma.asarray(r.variables['w'][...]).size != exp.size:
                            return 'shape'
                        e = H.arr_equal(np.ma.asarray(r.variables['w'][...]).reshape(exp.shape), exp, exact=False)
                    else:
                        e = H.arr_equal(r.variables['w'][...], exp, exact=False)
                    return e or H.same_snapshot(sa, H.snapshot(a))
                run.case('C06:eval', (dt, masked, expr), t)
    # mask(): all predicate combinations
    thr = dict(less=-1.0, less_equal=0.0, greater=3.0, greater_equal=3.0, values=1.0, equal=0.0)
    keys = list(thr)
    for dt in ('f4', 'f8'):
        for masked in (False, True):
            a = mk(dt, 5, True, masked)
            v0 = np.ma.asarray(a.variables['v'][...])
            for k in range(1, len(keys) + 1):
                for combo in itertools.combinations(keys, k):
                    for invalid in (False, True):
                        kw = {c: thr[c] for c in combo}
                        kw2 = dict(kw, invalid=invalid)

                        def t(a=a, kw=kw, kw2=kw2, invalid=invalid, v0=v0):
                            sa = H.snapshot(a)
                            r = a.mask(**kw2)
                            d = np.ma.getdata(v0)
                            m = np.ma.getmaskarray(v0).copy()
                            with np.errstate(all='ignore'):
                                if 'less' in kw: m |= d < kw['less']
                                if 'less_equal' in kw: m |= d <= kw['less_equal']
                                if 'greater' in kw: m |= d > kw['greater']
                                if 'greater_equal' in kw: m |= d >= kw['greater_equal']
                                if 'values' in kw: m |= np.isclose(d, kw['values'])
                                if 'equal' in kw: m |= d == kw['equal']
                                if invalid: m |= ~np.isfinite(d)
                            got = np.ma.asarray(r.variables['v'][...])
                            if not np.array_equal(np.ma.getmaskarray(got), m):
                                return 'mask %s expected %s' % (np.ma.getmaskarray(got).astype(int).tolist(), m.astype(int).tolist())
                            gd = np.ma.getdata(got)
                            if not np.array_equal(gd[~m], d[~m], equal_nan=True):
                                return 'unmasked values altered'
                            e = H.arr_equal(r.variables['x'][...], a.variables['x'][...])
                            if e:
                                return 'coordinate variable masked/altered: ' + e
                            return H.same_snapshot(sa, H.snapshot(a))
                        run.case('C06:mask(%s%s)' % (','.join(combo), ',invalid' if invalid else ''), (dt, masked, combo, invalid), t)
            # where= on matching dims
            w = np.ma.getdata(v0) > 2

            def t_where(a=a, w=w, v0=v0):
                r = a.mask(where=w, dims=('t', 'x'))
                m = np.ma.getmaskarray(v0) | w
                got = np.ma.asarray(r.variables['v'][...])
                if not np.array_equal(np.ma.getmaskarray(got), m):
                    return 'where: mask differs'
                return None
            run.case('C06:mask(where)', (dt, masked), t_where)
    return run.result(
        rule='real operators / eval / mask vs direct numpy.ma evaluation on snapshots; masks exact, values rtol 1e-6; coordinate variables passed through; inputs unchanged',
        bound='pairs of conforming files (2x4), dtypes f4 f8 i4 i2, masked/unmasked operands, operands containing 0, 1, inf, nan; 13 operators; all 2^6 x 2 predicate combinations of mask()')


def bounded_replay(p):
    return False, p.get('what')


META = dict(
    level='other',
    technique='operator dispatch proved by pyvc (modular, recording contract for pncbo); numpy.ma value semantics by bounded run-time contract',
    text='Proved: each of the 16 operator methods calls pncbo exactly once with the operator string of the table, receiver left, argument right, and the '
         "receiver's coordinate-exclusion list, and returns its result. Bounded: element-wise results, masks, eval and all mask() predicate combinations "
         'against numpy.ma on snapshots.',
    note='pncbo/eval/mask value semantics are numpy.ma semantics: bounded only.',
    assumptions=['numpy.ma semantics (oracle)'],
    explanation='mixed: proof obligations for dispatch + bounded exploration for value semantics')
