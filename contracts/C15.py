"""C15 -- format auto-detection depends only on the file, not on history.

getreader / registerreader are verified for an ARBITRARY registry: `_readers` is a
symbolic-length list of (name, reader) records; names are abstract strings (equality
only), readers abstract classes whose isMine(*args) is an uninterpreted predicate
of (reader, args).  The frame condition (the registry content is unchanged by
getreader) gives history independence: the reader chosen is a function of the
arguments and the registry only, and the registry is the same before every call.
"""
import z3
from .common import *   # noqa
from pyvc.arrays import SymList, AbsStr, AbsVal, symlist_same, val_eq
from pyvc.exec import BoundModel, Opaque
from pyvc.sym import PyExc

GR = '_getreader.py'

_name = z3.Function('reg.name', z3.IntSort(), z3.IntSort())
_reader = z3.Function('reg.reader', z3.IntSort(), z3.IntSort())
_accepts = z3.Function('reader.isMine', z3.IntSort(), z3.IntSort(), z3.BoolSort())
_hasismine = z3.Function('reader.has_isMine', z3.IntSort(), z3.BoolSort())


def reader_val(rid, path_id):
    """abstract reader class: .isMine(*args) -> accepts(reader, path); calling it may raise"""
    def is_mine(I, obj):
        def call(I2, recv, args, kw):
            return _accepts(recv.vid, path_id)
        return BoundModel(call, obj, trusted='reader.isMine(*args): pure predicate of (reader class, arguments)')
    return AbsVal(rid, 'reader', {'isMine': is_mine})


def registry(ctx, path_id):
    n = ctx.fresh('nreaders')
    ctx.assume(ge(n, 1))
    return SymList(n, lambda i: (AbsStr(_name(i)), reader_val(_reader(i), path_id)), '_readers')


def _obj_getattr_hook(I, obj, name):
    return None


class GetReader(Contract):
    prop = 'C15'
    target = GR + '::getreader'
    max_paths = 200

    def __init__(self, with_format):
        self.with_format = with_format
        self.name = 'getreader[%s]' % ('format given' if with_format else 'auto-detect')

    def inputs(self, ctx, I):
        path = AbsStr(ctx.fresh('path'))
        reg = registry(ctx, path.sid)
        ctx.modstate[(GR, '_readers')] = reg
        self.reg0 = (reg.n, reg.get)
        self.reg = reg
        kw = {}
        if self.with_format:
            kw['format'] = AbsStr(ctx.fresh('format'))
        # readers without isMine are opened by trial; the outcome is an unknown boolean
        from pyvc import models
        return dict(args=(path,), kwds=kw, path=path)

    def call_args(self, inp):
        return list(inp['args']), dict(inp['kwds'])

    def ensures(self, inp, res, I):
        reg = I.ctx.modstate[(GR, '_readers')]
        n0, get0 = self.reg0
        out = [('frame:registry-unchanged', symlist_same(reg, n0, get0)),
               ('frame:registry-same-object', reg is self.reg)] + self.global_frame(I)
        return out

    def global_frame(self, I):
        """history independence needs more than an unchanged registry: the function may neither
        write any module-level variable nor read one other than the registry"""
        w = sorted(set(e[2] for e in I.ctx.events if e[0] == 'global-write'))
        r = sorted(set(e[2] for e in I.ctx.events if e[0] == 'global-read' and e[2] != '_readers'))
        return [('frame:no-module-global-written %s' % (w or ''), not w),
                ('determinism:no-other-module-state-read %s' % (r or ''), not r)]

    def on_raise(self, inp, exc, I):
        reg = I.ctx.modstate[(GR, '_readers')]
        n0, get0 = self.reg0
        return [('frame:registry-unchanged[raise %s]' % exc, symlist_same(reg, n0, get0)),
                ('raises-only-TypeError', exc == 'TypeError')] + self.global_frame(I)

    loops = {0: LoopSpec(inv=lambda env: True)}

    def concretize(self, model, inp):
        n = model.eval(self.reg0[0], model_completion=True).as_long()
        return dict(nreaders=n, note='abstract registry of %d entries; the extension of the path names a registered reader' % n)

    def replay(self, c):
        """history dependence on the real code: open an extension-less IOAPI-like netCDF
        file, then a *.nc file, then the first again; compare reader and registry"""
        import_real()
        import tempfile, os, shutil, netCDF4
        import PseudoNetCDF._getreader as G
        from PseudoNetCDF import getreader
        d = tempfile.mkdtemp()
        try:
            p1 = os.path.join(d, 'plainfile')
            p2 = os.path.join(d, 'b.nc')
            for p in (p1, p2):
                f = netCDF4.Dataset(p, 'w', format='NETCDF3_CLASSIC')
                f.createDimension('x', 2)
                f.createVariable('x', 'f', ('x',))[:] = [1, 2]
                f.close()
            before = list(G._readers)
            r1 = getreader(p1)
            getreader(p2)
            r2 = getreader(p1)
            after = list(G._readers)
            ok = (r1 is r2) and before == after
            return ok, dict(first=str(r1), second=str(r2), registry_len_before=len(before), registry_len_after=len(after))
        finally:
            shutil.rmtree(d)


class RegisterReader(Contract):
    """registerreader(name, reader): inserts (name, reader) at the front iff the name
    is not registered yet; otherwise leaves the registry unchanged; returns whether
    it inserted."""
    prop = 'C15'
    target = GR + '::registerreader'

    def inputs(self, ctx, I):
        pid = ctx.fresh('anypath')
        reg = registry(ctx, pid)
        ctx.modstate[(GR, '_readers')] = reg
        self.reg0 = (reg.n, reg.get)
        self.reg = reg
        self.pid = pid
        return dict(name=AbsStr(ctx.fresh('newname')), reader=reader_val(ctx.fresh('newreader'), pid))

    def ensures(self, inp, res, I):
        reg = I.ctx.modstate[(GR, '_readers')]
        n0, get0 = self.reg0
        j = z3.Int('rr_j')
        present = z3.Exists([j], And(ge(j, 0), lt(j, n0), val_eq(get0(j)[0], inp['name'])))
        k = z3.Int('rr_k')
        shifted = z3.ForAll([k], Implies(And(ge(k, 0), lt(k, n0)), val_eq(reg.get(add(k, 1)), get0(k))))
        inserted = And(eq(reg.n, add(n0, 1)), val_eq(reg.get(0), (inp['name'], inp['reader'])), shifted)
        return [('returns-whether-inserted', eq(sym.truthy(res) if not isinstance(res, bool) else res, Not(present))),
                ('absent=>inserted-at-front', Implies(Not(present), inserted)),
                ('present=>unchanged', Implies(present, symlist_same(reg, n0, get0)))]


CONTRACTS = [GetReader(False), GetReader(True), RegisterReader()]

META = dict(
    level='proof',
    technique='contract-based deductive verification: frame condition on the module registry for an arbitrary (symbolic-length) registry',
    text='getreader is proved to leave the module-level registry unchanged (content and identity) on every path, for a '
         'registry of arbitrary length and arbitrary isMine predicates, with and without an explicit format; '
         'registerreader is proved to insert at the front iff the name is absent. History independence follows: the '
         'reader chosen is a function of the arguments and the registry, and the registry is invariant under getreader.',
    note='Reader classes are abstract: isMine is an uninterpreted pure predicate of (class, arguments) (isMine methods that '
         'themselves have side effects are outside this contract); os.path.splitext/isfile are uninterpreted; strings are '
         'compared by equality only; filtered list comprehensions are abstracted as fresh lists of source elements.',
    assumptions=[],
    explanation='')
