"""C15 -- format auto-detection depends only on the file, not on history.

getreader / registerreader are verified for an ARBITRARY registry: `_readers` is a
symbolic-length list of (name, reader) records; names are abstract strings (equality
only), readers abstract classes whose isMine(*args) is an uninterpreted predicate
of (reader, args).  The frame condition (the registry content is unchanged by
getreader) gives history independence: the reader chosen is a function of the
arguments and the registry only, and the registry is the same before every call.
"""
import z3
from .common import *   # noqa
from pyvc.arrays import SymList, AbsStr, AbsVal, symlist_same, val_eq
from pyvc.exec import BoundModel, Opaque
from pyvc.sym import PyExc

GR = '_getreader.py'

_name = z3.Function('reg.name', z3.IntSort(), z3.IntSort())
_reader = z3.Function('reg.reader', z3.IntSort(), z3.IntSort())
_accepts = z3.Function('reader.isMine', z3.IntSort(), z3.IntSort(), z3.BoolSort())
_hasismine = z3.Function('reader.has_isMine', z3.IntSort(), z3.BoolSort())


def reader_val(rid, path_id):
    """abstract reader class: .isMine(*args) -> accepts(reader, path); calling it may raise"""
    def is_mine(I, obj):
        def call(I2, recv, args, kw):
            return _accepts(recv.vid, path_id)
        return BoundModel(call, obj, trusted='reader.isMine(*args): pure predicate of (reader class, arguments)')
    return AbsVal(rid, 'reader', {'isMine': is_mine})


def registry(ctx, path_id):
    n = ctx.fresh('nreaders')
    ctx.assume(ge(n, 1))
    return SymList(n, lambda i: (AbsStr(_name(i)), reader_val(_reader(i), path_id)), '_readers')


def _obj_getattr_hook(I, obj, name):
    return None


class GetReader(Contract):
    prop = 'C15'
    target = GR + '::getreader'
    max_paths = 200

    def __init__(self, with_format):
        self.with_format = with_format
        self.name = 'getreader[%s]' % ('format given' if with_format else 'auto-detect')

    def inputs(self, ctx, I):
        path = AbsStr(ctx.fresh('path'))
        reg = registry(ctx, path.sid)
        ctx.modstate[(GR, '_readers')] = reg
        self.reg0 = (reg.n, reg.get)
        self.reg = reg
        kw = {}
        if self.with_format:
            kw['format'] = AbsStr(ctx.fresh('format'))
        # readers without isMine are opened by trial; the outcome is an unknown boolean
        from pyvc import models
        return dict(args=(path,), kwds=kw, path=path)

    def call_args(self, inp):
        return list(inp['args']), dict(inp['kwds'])

    def ensures(self, inp, res, I):
        reg = I.ctx.modstate[(GR, '_readers')]
        n0, get0 = self.reg0
        out = [('frame:registry-unchanged', symlist_same(reg, n0, get0)),
               ('frame:registry-same-object', reg is self.reg)] + self.global_frame(I)
        return out

    def global_frame(self, I):
        """history independence needs more than an unchanged registry: the function may neither
        write any module-level variable nor read one other than the registry"""
        w = sorted(set(e[2] for e in I.ctx.events if e[0] == 'global-write'))
        r = sorted(set(e[2] for e in I.ctx.events if e[0] == 'global-read' and e[2] != '_readers'))
        return [('frame:no-module-global-written %s' % (w or ''), not w),
                ('determinism:no-other-module-state-read %s' % (r or ''), not r)]

    def on_raise(self, inp, exc, I):
        reg = I.ctx.modstate[(GR, '_readers')]
        n0, get0 = self.reg0
        return [('frame:registry-unchanged[raise %s]' % exc, symlist_same(reg, n0, get0)),
                ('raises-only-TypeError', exc == 'TypeError')] + self.global_frame(I)

    loops = {0: LoopSpec(inv=lambda env: True)}

    def concretize(self, model, inp):
        n = model.eval(self.reg0[0], model_completion=True).as_long()
        return dict(nreaders=n, note='abstract registry of %d entries; the extension of the path names a registered reader' % n)

    def replay(self, c):
        """history dependence on the real code: open an extension-less IOAPI-like netCDF
        file, then a *.nc file, then the first again; compare reader and registry"""
        import_real()
        import tempfile, os, shutil, netCDF4
        import PseudoNetCDF._getreader as G
        from PseudoNetCDF import getreader
        d = tempfile.mkdtemp()
        try:
            p1 = os.path.join(d, 'plainfile')
            p2 = os.path.join(d, 'b.nc')
            for p in (p1, p2):
                f = netCDF4.Dataset(p, 'w', format='NETCDF3_CLASSIC')
                f.createDimension('x', 2)
                f.createVariable('x', 'f', ('x',))[:] = [1, 2]
                f.close()
            before = list(G._readers)
            r1 = getreader(p1)
            getreader(p2)
            r2 = getreader(p1)
            after = list(G._readers)
            ok = (r1 is r2) and before == after
            return ok, dict(first=str(r1), second=str(r2), registry_len_before=len(before), registry_len_after=len(after))
        finally:
            shutil.rmtree(d)


class RegisterReader(Contract):
    """registerreader(name, reader): inserts (name, reader) at the front iff the name
    is not registered yet; otherwise leaves the registry unchanged; returns whether
    it inserted."""
    prop = 'C15'
    target = GR + '::registerreader'

    def inputs(self, ctx, I):
        pid = ctx.fresh('anypath')
        reg = registry(ctx, pid)
        ctx.modstate[(GR, '_readers')] = reg
        self.reg0 = (reg.n, reg.get)
        self.reg = reg
        self.pid = pid
        return dict(name=AbsStr(ctx.fresh('newname')), reader=reader_val(ctx.fresh('newreader'), pid))

    def ensures(self, inp, res, I):
        reg = I.ctx.modstate[(GR, '_readers')]
        n0, get0 = self.reg0
        j = z3.Int('rr_j')
        present = z3.Exists([j], And(ge(j, 0), lt(j, n0), val_eq(get0(j)[0], inp['name'])))
        k = z3.Int('rr_k')
        shifted = z3.ForAll([k], Implies(And(ge(k, 0), lt(k, n0)), val_eq(reg.get(add(k, 1)), get0(k))))
        inserted = And(eq(reg.n, add(n0, 1)), val_eq(reg.get(0), (inp['name'], inp['reader'])), shifted)
        return [('returns-whether-inserted', eq(sym.truthy(res) if not isinstance(res, bool) else res, Not(present))),
                ('absent=>inserted-at-front', Implies(Not(present), inserted)),
                ('present=>unchanged', Implies(present, symlist_same(reg, n0, get0)))]


class GetReaderProved(Contract):
    """summary of getreader used while verifying pncopen: returns some reader class; its frame (registry unchanged, no
    module global written) is what the GetReader contracts above prove"""
    prop = 'C15'
    target = GR + '::getreader'

    def apply(self, I, func, args, kwargs):
        I.ctx.ghost.setdefault('calls', []).append('getreader')
        I.ctx.trust_contract = getattr(I.ctx, 'trust_contract', set())
        I.ctx.trust_contract.add(self.target + ' (proved: contracts getreader[...])')
        return Opaque('reader class chosen by getreader')


class GetReaderDict(Contract):
    """getreaderdict() for an ARBITRARY registry: the result is a NEW dictionary built from the registry as it is at the call
    (every (name, reader) pair, later entries win on a lookup), the registry is untouched, no module-level variable is written
    and none other than the registry is read -- in particular the result cannot be a table kept from an earlier call"""
    prop = 'C15'
    target = GR + '::getreaderdict'
    name = 'getreaderdict'

    def inputs(self, ctx, I):
        reg = registry(ctx, ctx.fresh('anypath'))
        ctx.modstate[(GR, '_readers')] = reg
        self.reg0 = (reg.n, reg.get)
        self.reg = reg
        return {}

    def call_args(self, inp):
        return [], {}

    def ensures(self, inp, res, I):
        from pyvc.arrays import SymDict
        reg = I.ctx.modstate[(GR, '_readers')]
        n0, get0 = self.reg0
        w = sorted(set(e[2] for e in I.ctx.events if e[0] == 'global-write'))
        r = sorted(set(e[2] for e in I.ctx.events if e[0] == 'global-read' and e[2] != '_readers'))
        return [('result-is-a-dictionary-of-the-current-registry', isinstance(res, SymDict) and symlist_same(res, n0, get0)),
                ('result-is-not-the-registry-itself', res is not reg),
                ('frame:registry-unchanged', symlist_same(reg, n0, get0)), ('frame:registry-same-object', reg is self.reg),
                ('frame:registry-not-mutated', not reg.mutations),
                ('frame:no-module-global-written %s' % (w or ''), not w), ('determinism:no-other-module-state-read %s' % (r or ''), not r)]

    def concretize(self, model, inp):
        return dict(nreaders=model.eval(self.reg0[0], model_completion=True).as_long())

    def concretize_without_model(self, inp):
        return dict(nreaders=1)

    def replay(self, c):
        """on the real code: a reader registered between two calls must be in the second dictionary, the two results are
        distinct objects, writing into one does not reach the registry"""
        import_real()
        import PseudoNetCDF._getreader as G
        saved = list(G._readers)
        try:
            d1 = G.getreaderdict()
            G.registerreader('verif_late_reader', object)
            d2 = G.getreaderdict()
            bad = []
            if 'verif_late_reader' not in d2:
                bad.append('a reader registered after the first call is missing from the second dictionary')
            if d1 is d2:
                bad.append('two calls return the same object')
            d2['verif_scribble'] = None
            if any(k == 'verif_scribble' for k, _ in G._readers) or 'verif_scribble' in G.getreaderdict():
                bad.append('writing into the result changes later results')
            return not bad, dict(failed=bad)
        finally:
            G._readers[:] = saved


class GetReaderDictProved(Contract):
    """summary of getreaderdict used while verifying pncopen: a new dictionary of the registry as it is at the call -- what the
    contract getreaderdict above proves (looking a name up in it yields the reader of the last entry with that name or raises
    KeyError: language semantics of dict, pyvc.arrays.SymDict)"""
    prop = 'C15'
    target = GR + '::getreaderdict'

    def apply(self, I, func, args, kwargs):
        from pyvc.arrays import SymDict
        I.ctx.ghost.setdefault('calls', []).append('getreaderdict')
        I.ctx.trust_contract = getattr(I.ctx, 'trust_contract', set())
        I.ctx.trust_contract.add(self.target + ' (proved: contract getreaderdict)')
        return SymDict(I.ctx.modstate[(GR, '_readers')])


class PncOpen(Contract):
    """pncopen(path, [format=F]) for an ARBITRARY registry: the registry is the same list with the same content afterwards
    (also when it raises), no module-level variable is written and none other than the registry is read -- opening a file,
    with or without naming its format, cannot change what a later auto-detection returns.  With a format the reader comes
    from a dictionary copy of the registry and getreader is not consulted; without, getreader is called exactly once."""
    prop = 'C15'
    target = GR + '::pncopen'
    uses = [GetReaderProved(), GetReaderDictProved()]
    max_paths = 60

    def __init__(self, with_format):
        self.with_format = with_format
        self.name = 'pncopen[%s]' % ('format given' if with_format else 'auto-detect')

    def inputs(self, ctx, I):
        path = AbsStr(ctx.fresh('path'))
        reg = registry(ctx, path.sid)
        ctx.modstate[(GR, '_readers')] = reg
        self.reg0 = (reg.n, reg.get)
        self.reg = reg
        kw = {}
        if self.with_format:
            kw['format'] = AbsStr(ctx.fresh('format'))
        return dict(args=(path,), kwds=kw)

    def call_args(self, inp):
        return list(inp['args']), dict(inp['kwds'])

    def frame(self, I):
        reg = I.ctx.modstate[(GR, '_readers')]
        n0, get0 = self.reg0
        w = sorted(set(e[2] for e in I.ctx.events if e[0] == 'global-write'))
        r = sorted(set(e[2] for e in I.ctx.events if e[0] == 'global-read' and e[2] != '_readers'))
        return [('frame:registry-unchanged', symlist_same(reg, n0, get0)), ('frame:registry-same-object', reg is self.reg),
                ('frame:registry-not-mutated-in-between', not reg.mutations),
                ('frame:no-module-global-written %s' % (w or ''), not w), ('determinism:no-other-module-state-read %s' % (r or ''), not r)]

    def ensures(self, inp, res, I):
        calls = I.ctx.ghost.get('calls', [])
        return self.frame(I) + [('reader-lookup', calls == (['getreaderdict'] if self.with_format else ['getreader']))]

    def on_raise(self, inp, exc, I):
        return self.frame(I) + [('raises-only-KeyError-for-an-unknown-format (raised %s)' % exc, exc == 'KeyError' and self.with_format)]


CONTRACTS = [GetReader(False), GetReader(True), RegisterReader(), GetReaderDict(), PncOpen(False), PncOpen(True)]


def bounded(tier, seed):
    """histories on the real code: every operation of the catalogue (auto-detecting and format-naming opens of files with
    registered, unregistered and no suffix) must leave the registry as it was and must not change what getreader answers
    for any probe file"""
    from rtc import harness as H
    import numpy as np
    import os, tempfile, shutil, itertools, netCDF4
    P = H.real()
    import PseudoNetCDF._getreader as G
    from PseudoNetCDF import pncopen, getreader
    run = H.Run('C15', tier, seed, budget_s=60 if tier == 'quick' else 300)
    tmp = tempfile.mkdtemp(prefix='verif_c15_')
    try:
        files = {}
        for nm in ('plain', 'a.nc', 'b.dat', 'c.out', 'd.dat'):
            p = os.path.join(tmp, nm)
            ds = netCDF4.Dataset(p, 'w', format='NETCDF3_CLASSIC')
            ds.createDimension('x', 2)
            ds.createVariable('x', 'f', ('x',))[:] = [1, 2]
            ds.close()
            files[nm] = p
        ops = [('getreader(%s)' % nm, (lambda p: (lambda: getreader(p)))(p)) for nm, p in files.items()]
        ops += [('pncopen(%s)' % nm, (lambda p: (lambda: pncopen(p).close()))(p)) for nm, p in files.items()]
        ops += [('pncopen(%s, format=netcdf)' % nm, (lambda p: (lambda: pncopen(p, format='netcdf').close()))(p)) for nm, p in files.items()]
        ops += [('pncopen(%s, format=ioapi)' % nm, (lambda p: (lambda: pncopen(p, format='ioapi')))(p)) for nm, p in list(files.items())[:2]]

        def probe():
            return {nm: getreader(p) for nm, p in files.items()}
        base_reg = list(G._readers)
        base = probe()
        depth = 2 if tier == 'quick' else 3
        for seq in itertools.chain.from_iterable(itertools.product(range(len(ops)), repeat=k) for k in range(1, depth + 1)):
            if run.out_of_time():
                break
            names = [ops[i][0] for i in seq]

            def t(seq=seq, names=names):
                for i in seq:
                    try:
                        ops[i][1]()
                    except Exception:
                        pass            # an open may fail (wrong format named); the registry must still be as it was
                    now = list(G._readers)
                    if len(now) != len(base_reg) or any(a[0] != b[0] or a[1] is not b[1] for a, b in zip(now, base_reg)):
                        extra = [a[0] for a in now if all(a[0] != b[0] for b in base_reg)]
                        G._readers[:] = base_reg       # restore so that later histories start from the same registry
                        return 'the reader registry changed during %s (new names %r)' % (ops[i][0], extra)
                got = probe()
                diff = [nm for nm in files if got[nm] is not base[nm]]
                if diff:
                    return 'after this history getreader answers %s for %s (it answered %s before)' % (got[diff[0]].__name__, diff[0], base[diff[0]].__name__)
                return None
            run.case('C15:history ' + ' ; '.join(names[-1:]), tuple(names), t)
        # --- the other self-describing formats (shipped samples, copied under names with no suffix and with a foreign suffix) ---
        import PseudoNetCDF.testcase as T
        sbase = os.path.dirname(T.__file__)
        samples = [('uamiv', 'camxfiles/uamiv/test.uamiv'), ('lateral_boundary', 'camxfiles/lateral_boundary/test.lateral_boundary'),
                   ('ffi1001', 'icarttfiles/test.ffi1001'), ('bpch', 'geoschemfiles/test.bpch')]
        pool = {}
        for fmt, rel in samples:
            for nm in ('noext_' + fmt, 'as_' + fmt + '.dat'):
                d_ = os.path.join(tmp, 'pool_' + nm.replace('.', '_'))
                os.makedirs(d_, exist_ok=True)
                shutil.copy(os.path.join(sbase, rel), os.path.join(d_, nm))
                if fmt == 'bpch':
                    for x_ in ('tracerinfo.dat', 'diaginfo.dat'):
                        shutil.copy(os.path.join(sbase, 'geoschemfiles', x_), d_)
                pool[nm] = (fmt, os.path.join(d_, nm))
        # meteorological formats whose isMine answers with a numpy boolean (one3d family), under their own suffix
        for fmt in ('humidity', 'vertical_diffusivity'):
            d_ = os.path.join(tmp, 'pool_met_' + fmt)
            os.makedirs(d_, exist_ok=True)
            shutil.copy(os.path.join(sbase, 'camxfiles', fmt, 'test.' + fmt), os.path.join(d_, 'sample.' + fmt))
            pool['sample.' + fmt] = (fmt, os.path.join(d_, 'sample.' + fmt))
        # a short ICARTT file written by the library itself (fewer than 28 lines)
        from PseudoNetCDF.icarttfiles.ffi1001 import ncf2ffi1001
        sf = P.PseudoNetCDFFile()
        sf.createDimension('POINTS', 3)
        for k_, v_ in dict(PI_NAME='A', ORGANIZATION_NAME='Org', SOURCE_DESCRIPTION='i', MISSION_NAME='M', VOLUME_INFO='1, 1', TIME_INTERVAL='1',
                           INDEPENDENT_VARIABLE='Start_UTC', SDATE='2010, 01, 02', WDATE='2010, 01, 03').items():
            setattr(sf, k_, v_)
        sf.createVariable('Start_UTC', 'd', ('POINTS',), values=np.arange(3) * 60., units='seconds')
        sf.createVariable('O3', 'd', ('POINTS',), values=np.array([1., 2., 3.]), units='ppbv', missing_value=-999.)
        d_ = os.path.join(tmp, 'pool_short_icartt')
        os.makedirs(d_)
        ncf2ffi1001(sf, os.path.join(d_, 'short_icartt')).close()
        pool['short_icartt'] = ('ffi1001', os.path.join(d_, 'short_icartt'))

        # HDF5-based netCDF files without suffix: a good one and a damaged one (cut short; the signature is intact)
        d_ = os.path.join(tmp, 'pool_h5')
        os.makedirs(d_)
        ds = netCDF4.Dataset(os.path.join(d_, 'h5_good'), 'w', format='NETCDF4')
        ds.createDimension('x', 3)
        ds.createVariable('x', 'f', ('x',))[:] = [1, 2, 3]
        ds.close()
        raw5 = open(os.path.join(d_, 'h5_good'), 'rb').read()
        open(os.path.join(d_, 'h5_damaged'), 'wb').write(raw5[:max(64, len(raw5) // 3)])
        pool['h5_good'] = ('netcdf', os.path.join(d_, 'h5_good'))
        damaged = os.path.join(d_, 'h5_damaged')

        def same_content(a, e):
            # (the reader CLASS may differ -- a specialised netCDF reader registered earlier claims plain netCDF files --: the property
            # speaks of the dimensions and the variable data presented)
            if {k: len(v) for k, v in a.dimensions.items()} != {k: len(v) for k, v in e.dimensions.items()}:
                return 'dimensions differ'
            if list(a.variables.keys()) != list(e.variables.keys()):
                return 'variable names differ'
            for k in list(a.variables.keys())[:6]:
                x, y = np.ma.asarray(a.variables[k][...]), np.ma.asarray(e.variables[k][...])
                if x.shape != y.shape or x.dtype.kind in 'fiu' and not np.ma.allequal(x, y):
                    return 'variable %s differs' % k
            return None
        for nm, (fmt, path) in pool.items():
            def t_named(fmt=fmt, path=path):
                return same_content(pncopen(path), pncopen(path, format=fmt))
            run.case('C15:auto-detected = format named (%s)' % fmt, nm, t_named)
        def answer(pth):
            try:
                return getreader(pth)
            except Exception as e_:
                return type(e_).__name__
        base2 = {nm: answer(pth) for nm, (fmt, pth) in pool.items()}
        base_damaged = answer(damaged)
        def fresh_process(order):
            """reader names answered for the paths, in this order, by a FRESH interpreter (class-level caches start empty)"""
            import subprocess, sys, json as js
            code = ("import sys, json, warnings\nwarnings.simplefilter('ignore')\nfrom PseudoNetCDF import getreader\nout = []\n"
                    "for p in sys.argv[1:]:\n    try:\n        out.append(getreader(p).__name__)\n    except Exception as e:\n        out.append('raises ' + type(e).__name__)\n"
                    "print(json.dumps(out))\n")
            env = dict(os.environ, PYTHONPATH=os.path.join(os.environ.get('VERIF_REPO', '/repo'), 'src'), PYTHONDONTWRITEBYTECODE='1')
            r = subprocess.run([sys.executable, '-c', code] + list(order), capture_output=True, text=True, env=env, timeout=120)
            return js.loads(r.stdout.strip().splitlines()[-1])

        def t_late():
            # a reader registered AFTER the package was imported (a user's subclass) is found by name and preferred for its suffix,
            # like the built-in ones -- in a fresh interpreter, so that the registry of this process stays as it is
            import subprocess, sys
            code = ("import sys, os, warnings\nwarnings.simplefilter('ignore')\nimport PseudoNetCDF as pnc\nfrom PseudoNetCDF import PseudoNetCDFFile, pncopen, getreader\n"
                    "from PseudoNetCDF._getreader import getreaderdict\ngetreaderdict()\n"
                    "class verifsounding(PseudoNetCDFFile):\n"
                    "    @classmethod\n    def isMine(cls, path, *a, **k):\n        return open(path).read(5) == 'SOUND'\n"
                    "    def __init__(self, path, *a, **k):\n        self.createDimension('z', 2)\n        import numpy as np\n        self.createVariable('z', 'f', ('z',), values=np.array([1., 2.], 'f'))\n"
                    "class verifprofile(verifsounding):\n    pass\n"
                    "p = sys.argv[1]\nopen(p, 'w').write('SOUNDING 1 2')\n"
                    "r = getreader(p)\nassert r is verifprofile, 'auto-detection of x.verifprofile chose %s' % r.__name__\n"
                    "f = pncopen(p, format='verifprofile')\nassert type(f) is verifprofile, type(f).__name__\n"
                    "g = pncopen(p, format='verifsounding')\nassert type(g) is verifsounding, type(g).__name__\nprint('OK')\n")
            env = dict(os.environ, PYTHONPATH=os.path.join(os.environ.get('VERIF_REPO', '/repo'), 'src'), PYTHONDONTWRITEBYTECODE='1')
            r = subprocess.run([sys.executable, '-c', code, os.path.join(tmp, 'late.verifprofile')], capture_output=True, text=True, env=env, timeout=120)
            if r.stdout.strip().endswith('OK'):
                return None
            return 'a reader registered after import is not found: ' + (r.stderr.strip().splitlines() or ['?'])[-1][:200]
        run.case('C15:a reader registered after the package import is found by name and by suffix', 'verifprofile', t_late)

        def t_h5():
            # the answer for an HDF5-based file must not depend on which HDF5-based file the process looked at first
            good = pool['h5_good'][1]
            a = fresh_process([good, damaged, good])
            b = fresh_process([damaged, good, damaged])
            if not (a[0] == a[2] == b[1]):
                return 'the reader for the good HDF5-based file depends on history: %r when it is looked at first, %r after the damaged one' % (a[0], b[1])
            if not (b[0] == b[2] == a[1]):
                return 'the answer for the damaged HDF5-based file depends on history: %r when it is looked at first, %r after the good one' % (b[0], a[1])
            return None
        run.case('C15:history over a good and a damaged HDF5-based file (fresh processes)', 'both orders', t_h5)
        for a_, b_ in itertools.permutations(list(pool)[::2] + ['short_icartt'], 2):
            def t_hist(a_=a_, b_=b_):
                for nm in (a_, b_, a_):
                    pncopen(pool[nm][1])
                got = {nm: answer(pth) for nm, (fmt, pth) in pool.items()}
                diff = [nm for nm in pool if got[nm] is not base2[nm]]
                if diff:
                    return 'after opening %s, %s, %s getreader answers %s for %s (it answered %s before)' % (a_, b_, a_, got[diff[0]].__name__, diff[0], base2[diff[0]].__name__)
                return None
            run.case('C15:history over the pool of self-describing formats', (a_, b_), t_hist)
    finally:
        shutil.rmtree(tmp, ignore_errors=True)
    return run.result(
        rule='auto-detected open = open with the format named (reader, dimensions, variable data) for every pool file; every history of opens: registry (names, order, identity of reader classes) unchanged after every operation; getreader answers the same reader for every probe file as before the history',
        bound='5 small netCDF files (no suffix, .nc, .dat x2, .out); 17 operations (getreader / pncopen auto / pncopen with format netcdf or ioapi); all sequences of length <= %d; pool of the other self-describing formats (uamiv, lateral_boundary, ffi1001, bpch samples under names without suffix and with a foreign suffix, a short ICARTT file written by the library): auto-detected = format named, and all ordered pairs of opens' % depth)


def bounded_replay(p):
    return False, p.get('what')


META = dict(
    level='proof',
    technique='contract-based deductive verification: frame condition on the module registry for an arbitrary (symbolic-length) registry',
    text='getreader and pncopen (with and without an explicit format) are proved to leave the module-level registry unchanged (content and identity) on every path, for a '
         'registry of arbitrary length and arbitrary isMine predicates, with and without an explicit format; '
         'registerreader is proved to insert at the front iff the name is absent; getreaderdict is proved to return a new dictionary of the registry as it is at the call '
         '(no table kept between calls, no module-level variable written or read besides the registry) and pncopen uses that proved summary. History independence follows: the '
         'reader chosen is a function of the arguments and the registry, and the registry is invariant under getreader.',
    note='Reader classes are abstract: isMine is an uninterpreted pure predicate of (class, arguments) (isMine methods that '
         'themselves have side effects are outside this contract); os.path.splitext/isfile are uninterpreted; strings are '
         'compared by equality only; filtered list comprehensions are abstracted as fresh lists of source elements.',
    assumptions=[],
    explanation='')
