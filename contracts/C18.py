"""C18 -- GEOS-Chem binary punch read/write round trip and scaling (bounded, reference encoder)."""
from .common import *   # noqa

CONTRACTS = []


def bounded(tier, seed):
    from rtc import harness as H, refcodec as R
    import numpy as np
    import os, tempfile, shutil
    P = H.real()
    from PseudoNetCDF.geoschemfiles import bpch1, bpch2
    from PseudoNetCDF.pncgen import pncgen
    run = H.Run('C18', tier, seed, budget_s=80 if tier == 'quick' else 500)
    rng = np.random.default_rng(seed + 18)
    tmp = tempfile.mkdtemp(prefix='verif_c18_')
    # first: the reference decoder must parse the shipped sample (sanity of the spec)
    sample = open(os.path.join(os.environ.get('VERIF_REPO', '/repo'), 'src/PseudoNetCDF/testcase/geoschemfiles/test.bpch'), 'rb').read()
    run.case('C18:reference decoder parses the shipped sample', 'test.bpch', lambda: None if len(R.bpch_decode(sample)) > 0 else 'no blocks')
    tracers = [('NOx', 'NOx tracer', 1.4e-2, 1, 1, 1.0e9, 'ppbv'), ('Ox', 'Ox tracer', 4.8e-2, 1, 2, 2.5e8, 'ppbv'),
               ('CO', 'CO tracer', 2.8e-2, 1, 4, 1.0, 'v/v'), ('NOxsrc', 'NOx anthro', 1.4e-2, 1, 1001, 3.0, 'kg/s'),
               ('COsrc', 'CO anthro', 2.8e-2, 1, 1004, 7.0e2, 'kg/s')]
    cats = [(0, 'IJ-AVG-$', 'Tracer concentration'), (1000, 'ANTHSRCE', 'Anthropogenic emissions')]
    try:
        for ci, (ntimes, nlays, nest) in enumerate([(1, [3, 3, 1, 1, 1], (1, 1, 1)), (2, [2, 3, 2, 1, 1], (1, 1, 1)), (3, [3, 1, 2, 1, 1], (5, 7, 1)),
                                                    (2, [1, 1, 1, 1, 1], (1, 1, 1))]):
            d = os.path.join(tmp, 'c%d' % ci)
            os.makedirs(d)
            open(os.path.join(d, 'tracerinfo.dat'), 'w').write(R.tracerinfo_text(tracers))
            open(os.path.join(d, 'diaginfo.dat'), 'w').write(R.diaginfo_text(cats))
            nj, ni = 4, 5
            blocks = []
            for t in range(ntimes):
                for (nm, full, mw, c, num, scale, unit), nl in zip(tracers, nlays):
                    cat = 'IJ-AVG-$' if num < 1000 else 'ANTHSRCE'
                    blocks.append(dict(category=cat, tracer=num % 1000, unit=unit, tau0=140256. + 24 * t, tau1=140280. + 24 * t, start=nest,
                                       data=(rng.random((nl, nj, ni)) * 5 + 0.5).astype('f')))
            raw = R.bpch_encode(blocks)
            path = os.path.join(d, 'gen.bpch')
            open(path, 'wb').write(raw)
            sig = (ntimes, nlays, nest)

            def key(b):
                nm = [t[0] for t in tracers if t[4] % 1000 == b['tracer'] and (t[4] >= 1000) == (b['category'] == 'ANTHSRCE')][0]
                return '%s_%s' % (b['category'], nm)

            def t_noscale(path=path, raw=raw, d=d):
                f = bpch1(path, noscale=True)
                out = os.path.join(d, 'rewrite.bpch')
                pncgen(f, out, format='bpch', verbose=0).close()
                b2 = open(out, 'rb').read()
                if b2 != raw:
                    i = next((i for i, (x, y) in enumerate(zip(raw, b2)) if x != y), min(len(raw), len(b2)))
                    return 'write(read(file, noscale)) differs from the file at byte %d (lengths %d / %d)' % (i, len(raw), len(b2))
                return None
            run.case('C18:noscale read/write reproduces the bytes', sig, t_noscale)

            def t_scaled(path=path, blocks=blocks, ntimes=ntimes):
                f = bpch1(path)
                g = bpch1(path, noscale=True)
                per = len(blocks) // ntimes
                for bi, b in enumerate(blocks[:per]):
                    k = key(b)
                    tr = [t for t in tracers if '%s_%s' % ('IJ-AVG-$' if t[4] < 1000 else 'ANTHSRCE', t[0]) == k][0]
                    v, w = f.variables[k], g.variables[k]
                    for ti in range(ntimes):
                        raw_t = blocks[ti * per + bi]['data']
                        if not np.array_equal(np.asarray(w[ti]), raw_t):
                            return 'raw values of %s at time %d differ from the encoded block' % (k, ti)
                        if not np.allclose(np.asarray(v[ti], 'd'), raw_t.astype('d') * tr[5], rtol=1e-6):
                            return 'scaled values of %s != raw x %g' % (k, tr[5])
                    if v.units.strip() != tr[6]:
                        return 'unit of %s %r, tracer table says %r' % (k, v.units, tr[6])
                tb = np.asarray(f.variables['tau0'][:])
                if not np.array_equal(tb, [140256. + 24 * t for t in range(ntimes)]):
                    return 'tau0 %r' % tb.tolist()
                return None
            run.case('C18:scaled read = raw x scale, unit from tracer table', sig, t_scaled)

            def t_rewrite_scaled(path=path, blocks=blocks, d=d):
                f = bpch1(path)            # scaled
                out = os.path.join(d, 'rewrite_scaled.bpch')
                pncgen(f, out, format='bpch', verbose=0).close()
                dec = R.bpch_decode(open(out, 'rb').read())
                if len(dec) != len(blocks):
                    return '%d blocks written, %d expected' % (len(dec), len(blocks))
                for a, b in zip(dec, blocks):
                    if (a['category'], a['tracer'], a['start'], a['tau0'], a['tau1']) != (b['category'], b['tracer'], tuple(b['start']), b['tau0'], b['tau1']):
                        return 'block header %r expected %r' % ((a['category'], a['tracer'], a['start'], a['tau0']), (b['category'], b['tracer'], b['start'], b['tau0']))
                    if a['data'].shape != b['data'].shape or not np.allclose(a['data'], b['data'], rtol=2e-6):
                        return 'tracer data of %s/%d not preserved by write(read(file))' % (b['category'], b['tracer'])
                return None
            run.case('C18:write(read(file)) with scaling returns the raw data', sig, t_rewrite_scaled)

            def t_bpch2(path=path, blocks=blocks, ntimes=ntimes):
                f = bpch1(path)
                g = bpch2(path)
                per = len(blocks) // ntimes
                for b in blocks[:per]:
                    k = key(b)
                    if k not in g.variables:
                        return 'bpch2 lacks %s' % k
                    a, c = np.asarray(f.variables[k][:]), np.asarray(g.variables[k][:])
                    if a.shape != c.shape or not np.allclose(a, c, rtol=1e-6):
                        return 'bpch1 and bpch2 present different data for %s' % k
                return None
            run.case('C18:memory-mapped and block-walking readers agree', sig, t_bpch2)
    finally:
        shutil.rmtree(tmp, ignore_errors=True)
    return run.result(
        rule='reference bpch encoder -> bpch1(noscale) -> ncf2bpch -> bytes identical; scaled read = raw x scale with unit from generated tracerinfo/diaginfo; write(read) decoded by the reference decoder; bpch1 vs bpch2',
        bound='1-3 time blocks, 2 categories x 5 tracers with differing scales, per-tracer layer counts 1-3, nested-grid offsets, 4x5 grid')


def bounded_replay(p):
    return False, p.get('what')


META = dict(
    level='exploration',
    technique='bounded run-time contract with an independent bpch encoder/decoder',
    text='byte round trip without scaling, scaling law, write/read through the reference decoder, agreement of both readers, on generated files.',
    note='bounded only.',
    assumptions=[], explanation='')
