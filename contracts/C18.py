"""C18 -- GEOS-Chem binary punch read/write round trip and scaling (bounded, reference encoder)."""
from .common import *   # noqa

import z3
from pyvc.exec import Obj, Opaque
from pyvc.models import native
from pyvc.nparr import sym_array, SArr
from pyvc.arrays import AbsStr
from pyvc.sym import is_sym

BP = 'geoschemfiles/_bpch.py'

_SCALE = z3.Function('tracerinfo.SCALE', z3.IntSort(), z3.RealSort())
_MOLWT = z3.Function('tracerinfo.MOLWT', z3.IntSort(), z3.RealSort())
_CARBON = z3.Function('tracerinfo.C', z3.IntSort(), z3.IntSort())
_UNIT = z3.Function('tracerinfo.UNIT', z3.IntSort(), z3.IntSort())


class TracerVariable(Contract):
    """_tracer_lookup.__missing__(key) for a data tracer (bpch1 reader), for records of ANY shape (time, layer, latitude,
    longitude), any tracer id, any category offset from the diagnostic table and an ARBITRARY tracer table:
      * the row of the tracer table used is number  (category offset + tracer id);
      * with scaling every element is raw * SCALE of that row and the unit / molecular weight / carbon count come from that
        same row; without scaling every element is the raw value;
      * tracerid, category and the base unit of the record header are carried; nested-grid offsets (STARTI/J/K) are the header's
        start indices minus one; the record is rejected (ValueError) when its leading and trailing markers disagree;
      * the memory map is not written."""
    prop = 'C18'
    target = BP + '::_tracer_lookup.__missing__'
    max_paths = 60

    def __init__(self, noscale, in_table, nested):
        self.noscale, self.in_table, self.nested = noscale, in_table, nested
        self.name = 'tracer variable[%s,%s,%s]' % ('no scaling' if noscale else 'scaled', 'category in diaginfo' if in_table else 'category not in diaginfo',
                                                   'nested grid' if nested else 'global grid')

    def inputs(self, ctx, I):
        T, L, J, K = (ctx.fresh(n) for n in ('ntimes', 'nlays', 'nlat', 'nlon'))
        self.shape = (T, L, J, K)
        self.raw = sym_array('raw', self.shape, 'f')
        self.raw0 = self.raw.buf.get
        self.tracerid, self.offset = ctx.fresh('tracerid'), ctx.fresh('offset')
        self.start = [ctx.fresh('start_i'), ctx.fresh('start_j'), ctx.fresh('start_l')] if self.nested else [1, 1, 1]
        self.spad, self.epad = sym_array('f0', (T,), 'i'), sym_array('f2', (T,), 'i')
        self.group, self.base_unit, self.reserved = AbsStr(ctx.fresh('category')), AbsStr(ctx.fresh('base_unit')), AbsStr(ctx.fresh('reserved'))
        start, dimsz = self.start, [K, J, L]
        hdr_fields = {'f7': self.group, 'f8': self.tracerid, 'f9': self.base_unit, 'f12': self.reserved,
                      'f14': SArr((3,), lambda q: nparr_select(start, q[0]), 'i', tag='f14'), 'f13': SArr((3,), lambda q: nparr_select(dimsz, q[0]), 'i', tag='f13')}
        grp = self.group
        strip_tok = Obj(None, {'decode': native(lambda I2, a, k: grp)}, tag='bytes')
        hdr_fields['f7'] = Obj(None, {'strip': native(lambda I2, a, k: strip_tok)}, tag='S40')
        header0 = Obj(None, {'__getitem__': native(lambda I2, a, k: hdr_fields[a[0]])}, tag='header[0]')
        headers = Obj(None, {'__getitem__': native(lambda I2, a, k: header0 if a[0] == 0 else Opaque('other header'))}, tag='header')
        f1dt = Obj(None, {'shape': (L, J, K)}, tag='dtype(f1)')
        datadt = Obj(None, {'__getitem__': native(lambda I2, a, k: f1dt)}, tag='dtype(data)')
        dfields = {'f0': self.spad, 'f1': self.raw, 'f2': self.epad}
        data = Obj(None, {'__getitem__': native(lambda I2, a, k: dfields[a[0]]), 'dtype': datadt}, tag='data')
        rec = Obj(None, {'__getitem__': native(lambda I2, a, k: {'header': headers, 'data': data}[a[0]])}, tag='memmap[key]')
        off = self.offset
        in_table = self.in_table

        def diag_get(I2, a, k):
            return {'offset': off} if in_table else (a[1] if len(a) > 1 else None)
        diag = Obj(None, {'get': native(diag_get)}, tag='diaginfo')

        def tracer_row(I2, a, k):
            o = a[0]
            fields = {'SCALE': _SCALE(sym.to_z3(o)), 'MOLWT': _MOLWT(sym.to_z3(o)), 'C': _CARBON(sym.to_z3(o)), 'UNIT': AbsStr(_UNIT(sym.to_z3(o)))}
            I2.ctx.ghost.setdefault('tracer_rows', []).append(o)
            return Obj(None, {'__getitem__': native(lambda I3, a3, k3: fields[a3[0]])}, tag='tracerinfo row')
        tracers = Obj(None, {'__getitem__': native(tracer_row)}, tag='tracerinfo')
        parent = pnc_file(I, dimensions={'time': dim_obj(I, 'time', T), 'layer': dim_obj(I, 'layer', L), 'latitude': dim_obj(I, 'latitude', J), 'longitude': dim_obj(I, 'longitude', K)})
        me = self_obj(I, BP, '_tracer_lookup', dict(noscale=self.noscale, nogroup=False, _tracer_data=tracers, _diag_data=diag, _memmap={'IJ-AVG-$_NOx': rec}, _parent=parent,
                                                    _special_keys=set(), _keys=['IJ-AVG-$_NOx'], _example_key='IJ-AVG-$_NOx'))
        return dict(self=me, key='IJ-AVG-$_NOx')

    def requires(self, inp):
        T, L, J, K = self.shape
        return And(ge(T, 1), ge(L, 1), ge(J, 1), ge(K, 1), ge(self.tracerid, 1), ge(self.offset, 0), *[ge(x, 1) for x in self.start if is_sym(x)])

    def small(self, inp):
        return And(*[le(x, 2) for x in self.shape])

    def row(self):
        return add(self.tracerid, self.offset if self.in_table else 0)

    def ensures(self, inp, res, I):
        if not isinstance(res, SArr) or res.ndim != 4:
            return [('returns a 4-d variable', False)]
        q = tuple(z3.Int('q%d' % k) for k in range(4))
        rng = And(*[And(ge(i, 0), lt(i, n)) for i, n in zip(q, self.shape)])
        o = self.row()
        rows = I.ctx.ghost.get('tracer_rows', [])
        a = res.attrs
        exp = self.raw0(q) if self.noscale else mul(self.raw0(q), _SCALE(sym.to_z3(o)))
        out = [('shape', And(*[eq(x, y) for x, y in zip(res.shape, self.shape)])),
               ('tracer-table row = category offset + tracer id', len(rows) >= 1 and And(*[eq(r, o) for r in rows])),
               ('every element = raw value%s' % ('' if self.noscale else ' * SCALE of that row'), Implies(rng, eq(res.get(q), exp))),
               ('unit, molecular weight and carbon count from the same row', isinstance(a.get('units'), AbsStr) and And(eq(a['units'].sid, _UNIT(sym.to_z3(o))), eq(a.get('kgpermole'), _MOLWT(sym.to_z3(o))),
                                                                                                                 eq(a.get('carbon'), _CARBON(sym.to_z3(o))), eq(a.get('scale'), _SCALE(sym.to_z3(o))))),
               ('tracer id, category and base unit of the header carried', And(eq(a.get('tracerid'), self.tracerid), a.get('category') is self.group, a.get('base_units') is self.base_unit)),
               ('memory map not written', Implies(rng, eq(self.raw.buf.get(q), self.raw0(q)))),
               ('accepted only when every leading marker equals its trailing marker', Implies(And(ge(q[0], 0), lt(q[0], self.shape[0])), eq(self.spad.get((q[0],)), self.epad.get((q[0],)))))]
        if self.nested:
            off1 = lambda x: sub(x, 1)
            nz = Or(*[ne(off1(x), 0) for x in self.start])
            out.append(('nested-grid offsets = header start indices - 1 (when any is non-zero)',
                        Implies(nz, And(eq(a.get('STARTI', 0), off1(self.start[0])), eq(a.get('STARTJ', 0), off1(self.start[1])), eq(a.get('STARTK', 0), off1(self.start[2]))))
                        if all(k in a for k in ('STARTI', 'STARTJ', 'STARTK')) else sym.Not(nz)))
        return out

    def concretize(self, model, inp):
        from pyvc.verify import model_value
        mv = lambda x: model_value(model, x) if is_sym(x) else x
        return dict(noscale=self.noscale, in_table=self.in_table, shape=[mv(x) for x in self.shape], tracerid=mv(self.tracerid), offset=mv(self.offset), start=[mv(x) for x in self.start])

    def concretize_without_model(self, inp):
        return dict(noscale=self.noscale, in_table=self.in_table, shape=[2, 3, 2, 4], tracerid=3, offset=100, start=[3, 2, 4] if self.nested else [1, 1, 1])

    def replay(self, c):
        """a native structured record + tracer/diagnostic tables handed to the real _tracer_lookup; markers agree, then one marker is broken"""
        import numpy as np
        import_real()
        from PseudoNetCDF.geoschemfiles._bpch import _tracer_lookup
        from PseudoNetCDF import PseudoNetCDFFile
        T, L, J, K = [min(max(int(x), 1), 4) for x in c['shape']]
        tid = int(c['tracerid']) if 1 <= int(c['tracerid']) <= 10 ** 6 else 3
        off = (int(c['offset']) if 1 <= int(c['offset']) <= 10 ** 6 else 100) if c['in_table'] else 0
        start = [min(max(int(x), 1), 50) for x in c['start']]
        hdt = np.dtype([('f7', 'S40'), ('f8', '>i4'), ('f9', 'S40'), ('f10', '>f8'), ('f11', '>f8'), ('f12', 'S40'), ('f13', '>i4', (3,)), ('f14', '>i4', (3,))])
        ddt = np.dtype([('f0', '>i4'), ('f1', '>f4', (L, J, K)), ('f2', '>i4')])
        rec = np.zeros((T,), dtype=np.dtype([('header', hdt), ('data', ddt)]))
        rec['header']['f7'] = b'IJ-AVG-$'.ljust(40)
        rec['header']['f8'] = tid
        rec['header']['f9'] = b'v/v'.ljust(40)
        rec['header']['f13'] = [K, J, L]
        rec['header']['f14'] = start
        raw = (np.arange(T * L * J * K, dtype='f').reshape(T, L, J, K) + 1) / 8
        rec['data']['f1'] = raw
        rec['data']['f0'] = rec['data']['f2'] = L * J * K * 4 + 8
        before = rec.copy()
        row = lambda r: dict(SCALE=2.0 + r, MOLWT=0.001 * (r + 1), C=1 + r % 3, UNIT='unit%d' % r)

        class Table(dict):
            def __missing__(self, r):
                return row(r)
        diag = {'IJ-AVG-$': dict(offset=off)} if c['in_table'] else {}
        parent = PseudoNetCDFFile()
        for k_, n_ in zip(('time', 'layer', 'latitude', 'longitude'), (T, L, J, K)):
            parent.createDimension(k_, n_)
        key = 'IJ-AVG-$_X'
        tl = _tracer_lookup(parent, {key: rec}, Table(), diag, [key, 'BXHGHT-$_BXHEIGHT'], noscale=c['noscale'])
        bad = []
        v = tl[key]
        exp_row = tid + off
        exp = raw if c['noscale'] else raw * np.float32(1) * (2.0 + exp_row)
        if v.shape != (T, L, J, K) or not np.allclose(np.asarray(v[...], 'd'), exp, rtol=1e-6):
            bad.append('values are not raw%s' % ('' if c['noscale'] else ' x SCALE of row %d' % exp_row))
        if getattr(v, 'units', None) != 'unit%d' % exp_row or getattr(v, 'kgpermole', None) != 0.001 * (exp_row + 1) or getattr(v, 'carbon', None) != 1 + exp_row % 3:
            bad.append('unit / molecular weight / carbon count not from row %d (units %r)' % (exp_row, getattr(v, 'units', None)))
        if int(getattr(v, 'tracerid', -1)) != tid or getattr(v, 'category', None) != 'IJ-AVG-$':
            bad.append('tracer id / category not carried')
        if any(x != 1 for x in start):
            got = [int(getattr(v, a_, -999)) for a_ in ('STARTI', 'STARTJ', 'STARTK')]
            if got != [x - 1 for x in start]:
                bad.append('nested-grid offsets %r, header start indices %r' % (got, start))
        if rec.tobytes() != before.tobytes():
            bad.append('the memory map was written')
        rec2 = rec.copy()
        rec2['data']['f2'][T - 1] += 4
        tl2 = _tracer_lookup(parent, {key: rec2}, Table(), diag, [key, 'BXHGHT-$_BXHEIGHT'], noscale=c['noscale'])
        try:
            tl2[key]
            bad.append('a record whose leading and trailing markers disagree was accepted')
        except ValueError:
            pass
        return (not bad), dict(shape=[T, L, J, K], tracerid=tid, offset=off, start=start, noscale=c['noscale'], failed=bad)

    def on_raise(self, inp, exc, I):
        t = z3.Int('t')
        differ = z3.Exists([t], And(ge(t, 0), lt(t, self.shape[0]), ne(self.spad.get(t), self.epad.get(t))))
        return [('raises only ValueError, only when a leading and a trailing record marker disagree (raised %s)' % exc, And(exc == 'ValueError', differ))]


class WriterRecords(Contract):
    """ncf2bpch(ncffile, outpath) for a bpch-convention file with TWO tracer variables of different layer counts, different
    scale factors, different categories / tracer ids / nested-grid starts, an ARBITRARY number of time blocks and arbitrary sizes
    and values: the records handed to the output file are
        record 0            the general header (markers 40 / 80, file type, title)
        record 1 + t        one time block per element of tau0/tau1, in order, holding for EACH variable (in file order)
                            its own header (markers 36 / 168, model name / resolution / polar flags of the file, category,
                            tracer id, base unit, reserved text, tau0[t], tau1[t], dim = reversed shape + STARTI/J/K + 1,
                            skip = 4 x cell count + 8), data markers 4 x cell count and data = values[t] / that variable's OWN
                            scale (values[t] when the file is not scaled)
    and nothing else is written (record count = 1 + number of time blocks)."""
    prop = 'C18'
    target = BP + '::ncf2bpch'
    max_paths = 60

    def __init__(self, noscale):
        self.noscale = noscale
        self.name = 'writer records[%s]' % ('no scaling' if noscale else 'scaled')

    KEYS = ('IJ-AVG-$_NOx', 'BXHGHT-$_BXHEIGHT')

    def inputs(self, ctx, I):
        T, J, K = (ctx.fresh(n) for n in ('ntimes', 'nlat', 'nlon'))
        L = [ctx.fresh('nlays_a'), ctx.fresh('nlays_b')]
        self.T, self.J, self.K, self.L = T, J, K, L
        self.scale = [ctx.fresh('scale_a', 'Real'), ctx.fresh('scale_b', 'Real')]
        self.tid = [ctx.fresh('tracerid_a'), ctx.fresh('tracerid_b')]
        self.start = [[ctx.fresh('start%s_%s' % (x, k)) for x in 'ijk'] for k in 'ab']
        self.cat = ['IJ-AVG-$', 'BXHGHT-$']
        self.unit = [AbsStr(ctx.fresh('base_unit_a')), AbsStr(ctx.fresh('base_unit_b'))]
        self.resv = [AbsStr(ctx.fresh('reserved_a')), AbsStr(ctx.fresh('reserved_b'))]
        self.vals, variables = [], {}
        for n, key in enumerate(self.KEYS):
            v = sym_array('vals_%d' % n, (T, L[n], J, K), 'f', attrs=dict(
                tracerid=self.tid[n], category=self.cat[n], base_units=self.unit[n], reserved=self.resv[n], scale=self.scale[n],
                STARTI=self.start[n][0], STARTJ=self.start[n][1], STARTK=self.start[n][2], units='ppbv'))
            self.vals.append(v)
            variables[key] = v
        self.tau0, self.tau1 = sym_array('tau0', (T,), 'f'), sym_array('tau1', (T,), 'f')
        variables['tau0'], variables['tau1'] = self.tau0, self.tau1
        variables['time'] = sym_array('time', (T,), 'f', attrs=dict(units='hours since 1985-01-01 00:00:00 UTC'))
        self.modelres = sym_array('modelres', (2,), 'f')
        self.halfpolar, self.center180 = ctx.fresh('halfpolar'), ctx.fresh('center180')
        self.modelname, self.ftype, self.toptitle = 'GEOS5_47L', 'CTM bin 02', 'GEOS-CHEM binary punch file v. 2.0'
        f = pnc_file(I, variables=variables,
                     dimensions={'time': dim_obj(I, 'time', T), 'layer': dim_obj(I, 'layer', L[0]), 'latitude': dim_obj(I, 'latitude', J), 'longitude': dim_obj(I, 'longitude', K)},
                     attrs=dict(modelname=self.modelname, modelres=self.modelres, halfpolar=self.halfpolar, center180=self.center180,
                                ftype=self.ftype, toptitle=self.toptitle, noscale=self.noscale))
        return dict(ncffile=f, outpath='/out/x.bpch', verbose=0)

    # ---- the loop over the time blocks ---------------------------------------------------------------------------------
    def time_havoc(self, env):
        """everything the loop may write: every field of the record being assembled (`time_data`, written through the aliases
        tdv / header / data), the file log and the record count"""
        I = env.interp
        td = env['time_data']
        for path, leaf in td.leaves():
            if hasattr(leaf, 'havoc'):
                leaf.havoc(I)
            else:
                leaf.value = AbsStr(I.ctx.fresh('text_' + '_'.join(path)))
        g = self._file(I)
        for lg in g['logs'].values():
            lg.havoc(I)
        g['nrec'] = I.ctx.fresh('nrec')

    def time_inv(self, env):
        from pyvc.recarr import intern_str
        I = env.interp
        g = self._file(I)
        td = env['time_data']
        ti = env.it
        from pyvc.recarr import log_for
        for path, leaf in td.leaves():
            log_for(I, g, getattr(td, 'rtag', id(td.dt)), path, leaf)      # (the part of the file not written yet: arbitrary)
        r = z3.Int('rblock')
        out = [('record count = 1 + blocks written', eq(g['nrec'], add(ti, 1))), ('index in range', And(ge(ti, 0), le(ti, self.T)))]
        G = lambda nm: self._log(g, (nm,)).get((0,))
        out.append(('general header stays', And(eq(G('SPAD1'), 40), eq(G('EPAD1'), 40), eq(G('SPAD2'), 80), eq(G('EPAD2'), 80),
                                                eq(G('ftype'), intern_str(I, self.ftype)), eq(G('toptitle'), intern_str(I, self.toptitle)))))
        # the constant part of the record under assembly (set before the loop, written with every block)
        for n, key in enumerate(self.KEYS):
            hd = td.fields[key].fields['header']
            val = lambda nm, *idx: (hd.fields[nm].get((0,) + tuple(idx)) if hasattr(hd.fields[nm], 'get') else hd.fields[nm].key(I))
            out.append(('%s: constant header part of the record under assembly' % key,
                        And(eq(val('SPAD1'), 36), eq(val('EPAD1'), 36), eq(val('SPAD2'), 168), eq(val('EPAD2'), 168), eq(val('modelname'), intern_str(I, self.modelname)),
                            eq(val('modelres', 0), self.modelres.get((0,))), eq(val('modelres', 1), self.modelres.get((1,))), eq(val('halfpolar'), self.halfpolar), eq(val('center180'), self.center180))))
        for nm, f in self.block_clauses(I, g, add(r, 1), r):
            out.append((nm, z3.ForAll([r] + [z3.Int('w%d' % k) for k in range(3)], Implies(And(ge(r, 0), lt(r, ti)), f)) if is_sym(f) else f))
        return out

    @property
    def loops(self):
        return {'iter:enumerate(': LoopSpec(inv=self.time_inv, havoc=self.time_havoc)}

    def requires(self, inp):
        return And(ge(self.T, 1), ge(self.J, 1), ge(self.K, 1), ge(self.L[0], 1), ge(self.L[1], 1), ne(self.scale[0], 0), ne(self.scale[1], 0))

    def small(self, inp):
        return And(le(self.T, 2), le(self.J, 2), le(self.K, 2), le(self.L[0], 2), le(self.L[1], 2))

    # ---- replay on the real writer ----------------------------------------------------------------------------------------
    def concretize(self, model, inp):
        from pyvc.verify import model_value
        mv = lambda x: model_value(model, x)
        return dict(noscale=self.noscale, T=mv(self.T), J=mv(self.J), K=mv(self.K), L=[mv(x) for x in self.L], scale=[str(mv(x)) for x in self.scale],
                    tid=[mv(x) for x in self.tid], start=[[mv(x) for x in row] for row in self.start])

    def concretize_without_model(self, inp):
        return dict(noscale=self.noscale, T=3, J=2, K=3, L=[3, 1], scale=['0.5', '4'], tid=[1, 7], start=[[1, 1, 1], [3, 2, 4]])

    def replay(self, c):
        """a real in-memory file with two tracer variables handed to the real ncf2bpch; the bytes are read back with the
        independent reference decoder (rtc/refcodec.py) and compared field by field"""
        import numpy as np
        import tempfile, shutil
        P = import_real()
        from PseudoNetCDF.geoschemfiles._bpch import ncf2bpch
        from rtc import refcodec as R
        clip = lambda x, lo, hi, d: int(x) if isinstance(x, int) and lo <= x <= hi else d
        T, J, K = clip(c['T'], 1, 4, 3), clip(c['J'], 1, 3, 2), clip(c['K'], 1, 4, 3)
        L = [clip(c['L'][0], 1, 3, 3), clip(c['L'][1], 1, 3, 1)]
        scale = []
        for k, sc in enumerate(c['scale']):
            try:
                v = float(fl(sc))
            except Exception:
                v = 0.0
            scale.append(v if 1e-6 <= abs(v) <= 1e6 else (0.5, 4.0)[k])
        if scale[0] == scale[1]:
            scale[1] = scale[0] * 8
        tid = [clip(c['tid'][0], 1, 10 ** 6, 1), clip(c['tid'][1], 1, 10 ** 6, 7)]
        start = [[clip(x, 1, 500, d) for x, d in zip(row, dflt)] for row, dflt in zip(c['start'], ([1, 1, 1], [3, 2, 4]))]
        f = P.PseudoNetCDFFile()
        for k_, n_ in (('time', T), ('layer', L[0]), ('layer_b', L[1]), ('latitude', J), ('longitude', K)):
            f.createDimension(k_, n_)
        f.modelname, f.modelres, f.halfpolar, f.center180 = 'GEOS5_47L', np.array([5.0, 4.0], 'f'), 1, 1
        f.ftype, f.toptitle, f.noscale = 'CTM bin 02', 'GEOS-CHEM binary punch file v. 2.0', bool(c['noscale'])
        vals = []
        cats, units = ['IJ-AVG-$', 'BXHGHT-$'], ['ppbv', 'm']
        for n, key in enumerate(self.KEYS):
            a = ((np.arange(T * L[n] * J * K, dtype='f').reshape(T, L[n], J, K) + 1 + 100 * n) / 8).astype('f')
            v = f.createVariable(key, 'f', ('time', 'layer' if n == 0 else 'layer_b', 'latitude', 'longitude'), values=a)
            v.tracerid, v.category, v.base_units, v.reserved, v.scale, v.units = tid[n], cats[n], units[n], 'res%d' % n, scale[n], 'x'
            v.STARTI, v.STARTJ, v.STARTK = [x - 1 for x in start[n]]
            vals.append(a)
        tau0 = np.arange(T, dtype='d') * 24 + 100.
        tau1 = tau0 + 24
        f.createVariable('tau0', 'd', ('time',), values=tau0)
        f.createVariable('tau1', 'd', ('time',), values=tau1)
        d = tempfile.mkdtemp(prefix='verif_c18_')
        bad = []
        try:
            out = ncf2bpch(f, os.path.join(d, 'o.bpch'))
            out.close()
            raw = open(os.path.join(d, 'o.bpch'), 'rb').read()
            try:
                blocks = R.bpch_decode(raw)
            except Exception as e:
                blocks = None
                bad.append('the reference decoder rejects the file: %s %s' % (type(e).__name__, e))
            if blocks is not None:
                if len(blocks) != 2 * T:
                    bad.append('%d data blocks, expected %d' % (len(blocks), 2 * T))
                for t in range(T):
                    for n in range(2):
                        if 2 * t + n >= len(blocks):
                            break
                        b = blocks[2 * t + n]
                        exp = vals[n][t] if c['noscale'] else vals[n][t] / np.float64(scale[n])
                        if b['data'].shape != exp.shape or not np.allclose(b['data'], exp, rtol=1e-6):
                            bad.append('block %d variable %d: data are not the values of this time block%s' % (t, n, '' if c['noscale'] else ' / the scale of this variable'))
                        if (b['category'], b['tracer'], b['unit']) != (cats[n], tid[n], units[n]):
                            bad.append('block %d variable %d: category / tracer id / unit %r' % (t, n, (b['category'], b['tracer'], b['unit'])))
                        if (b['tau0'], b['tau1']) != (tau0[t], tau1[t]):
                            bad.append('block %d variable %d: tau0 / tau1 %r' % (t, n, (b['tau0'], b['tau1'])))
                        if list(b['start']) != start[n]:
                            bad.append('block %d variable %d: start indices %r, expected %r' % (t, n, list(b['start']), start[n]))
            return (not bad), dict(T=T, J=J, K=K, L=L, scale=scale, tracerid=tid, start=start, noscale=c['noscale'], failed=bad[:6])
        finally:
            shutil.rmtree(d, ignore_errors=True)

    # ---- the records written so far, read from the engine's file log -------------------------------------------------
    @staticmethod
    def _file(I):
        gs = [g for k, g in I.ctx.ghost.items() if isinstance(k, tuple) and k and k[0] == 'recfile']
        return gs[0] if len(gs) == 1 else None

    def _log(self, g, path):
        # ('>i4,' is a one-field struct for numpy: the wrapper level 'f0' is not part of the published layout)
        hits = [lg for (dtid, p), lg in g['logs'].items() if tuple(x for x in p if x != 'f0') == path]
        return hits[0] if len(hits) == 1 else None

    def block_clauses(self, I, g, r, t):
        """clauses about record number r being the time block t (r, t symbolic or concrete)"""
        from pyvc.recarr import intern_str
        out = []
        J, K = self.J, self.K

        def fld(path, *idx):
            lg = self._log(g, path)
            if lg is None:
                return None
            return lg.get((r,) + tuple(idx))
        for n, key in enumerate(self.KEYS):
            L = self.L[n]
            cells = mul(mul(L, J), K)
            H = lambda name, *idx, key=key: fld((key, 'header', name), *idx)
            exp_dim = [K, J, L] + [add(x, 1) for x in self.start[n]]
            q = tuple(z3.Int('w%d' % k) for k in range(3))
            rng = And(*[And(ge(i, 0), lt(i, m)) for i, m in zip(q, (L, J, K))])
            raw = self.vals[n].buf.get((t,) + q)
            want = raw if self.noscale else sym.truediv(raw, self.scale[n])
            named = [
                ('header markers 36 / 168', And(eq(H('SPAD1'), 36), eq(H('EPAD1'), 36), eq(H('SPAD2'), 168), eq(H('EPAD2'), 168))),
                ('model name, resolution and polar flags of the file', And(eq(H('modelname'), intern_str(I, self.modelname)), eq(H('modelres', 0), self.modelres.get((0,))), eq(H('modelres', 1), self.modelres.get((1,))),
                                                                       eq(H('halfpolar'), self.halfpolar), eq(H('center180'), self.center180))),
                ('category, tracer id, base unit and reserved text of THIS variable', And(eq(H('category'), intern_str(I, self.cat[n])), eq(H('tracerid'), self.tid[n]),
                                                                                      eq(H('unit'), self.unit[n].sid), eq(H('reserved'), self.resv[n].sid))),
                ('tau0 / tau1 of this time block', And(eq(H('tau0'), self.tau0.get((t,))), eq(H('tau1'), self.tau1.get((t,))))),
                ('dim = reversed shape + start indices + 1', And(*[eq(H('dim', k), exp_dim[k]) for k in range(6)])),
                ('data markers = 4 x cell count, skip = markers + 8', And(eq(fld((key, 'SPAD1')), mul(cells, 4)), eq(fld((key, 'EPAD1')), mul(cells, 4)), eq(H('skip'), add(mul(cells, 4), 8)))),
                ('data = values of this time block%s' % ('' if self.noscale else ' / the scale of THIS variable'), Implies(rng, eq(fld((key, 'data'), *q), want))),
            ]
            out += [('%s: %s' % (key, nm), f) for nm, f in named]
        return out

    def ensures(self, inp, res, I):
        from pyvc.recarr import intern_str
        g = self._file(I)
        if g is None:
            return [('records were written to exactly one file', False)]
        needed = [(k, 'header', nm) for k in self.KEYS for nm in ('SPAD1', 'modelname', 'modelres', 'halfpolar', 'center180', 'EPAD1', 'SPAD2', 'category', 'tracerid', 'unit', 'tau0', 'tau1', 'reserved', 'dim', 'skip', 'EPAD2')]
        needed += [(k, nm) for k in self.KEYS for nm in ('SPAD1', 'data', 'EPAD1')] + [(nm,) for nm in ('SPAD1', 'ftype', 'EPAD1', 'SPAD2', 'toptitle', 'EPAD2')]
        if any(self._log(g, p) is None for p in needed):
            return [('every field of the published layout is written', False)]
        G = lambda nm: self._log(g, (nm,)).get((0,))
        t = z3.Int('tblock')
        out = [('record count = 1 + number of time blocks', eq(g['nrec'], add(self.T, 1))),
               ('general header: markers 40 / 80, file type and title', And(eq(G('SPAD1'), 40), eq(G('EPAD1'), 40), eq(G('SPAD2'), 80), eq(G('EPAD2'), 80),
                                                                         eq(G('ftype'), intern_str(I, self.ftype)), eq(G('toptitle'), intern_str(I, self.toptitle))))]
        for nm, f in self.block_clauses(I, g, add(t, 1), t):
            out.append((nm, Implies(And(ge(t, 0), lt(t, self.T)), f)))
        return out


def nparr_select(vals, i):
    from pyvc.nparr import _select
    return _select(list(vals), i)


CONTRACTS = [TracerVariable(ns, it, nest) for ns, it, nest in ((False, True, False), (True, True, False), (False, False, False), (False, True, True))]
CONTRACTS += [WriterRecords(False), WriterRecords(True)]


def bounded(tier, seed):
    from rtc import harness as H, refcodec as R
    import numpy as np
    import os, tempfile, shutil
    P = H.real()
    from PseudoNetCDF.geoschemfiles import bpch1, bpch2
    from PseudoNetCDF.pncgen import pncgen
    run = H.Run('C18', tier, seed, budget_s=80 if tier == 'quick' else 500)
    rng = np.random.default_rng(seed + 18)
    tmp = tempfile.mkdtemp(prefix='verif_c18_')
    # first: the reference decoder must parse the shipped sample (sanity of the spec)
    sample = open(os.path.join(os.environ.get('VERIF_REPO', '/repo'), 'src/PseudoNetCDF/testcase/geoschemfiles/test.bpch'), 'rb').read()
    run.case('C18:reference decoder parses the shipped sample', 'test.bpch', lambda: None if len(R.bpch_decode(sample)) > 0 else 'no blocks')
    tracers = [('NOx', 'NOx tracer', 1.4e-2, 1, 1, 1.0e9, 'ppbv'), ('Ox', 'Ox tracer', 4.8e-2, 1, 2, 2.5e8, 'ppbv'),
               ('CO', 'CO tracer', 2.8e-2, 1, 4, 1.0, 'v/v'), ('NOxsrc', 'NOx anthro', 1.4e-2, 1, 1001, 3.0, 'kg/s'),
               ('COsrc', 'CO anthro', 2.8e-2, 1, 1004, 7.0e2, 'kg/s')]
    cats = [(0, 'IJ-AVG-$', 'Tracer concentration'), (1000, 'ANTHSRCE', 'Anthropogenic emissions')]
    try:
        configs = [(1, [3, 3, 1, 1, 1], (1, 1, 1)), (2, [2, 3, 2, 1, 1], (1, 1, 1)), (3, [3, 1, 2, 1, 1], (5, 7, 1)), (2, [1, 1, 1, 1, 1], (1, 1, 1))]
        # generated configurations: number of time blocks, layer count per tracer, nested-grid window (quick: 2, thorough: 12)
        for _ in range(2 if tier == 'quick' else 12):
            configs.append((int(rng.integers(1, 5)), [int(x) for x in rng.integers(1, 5, 5)], (int(rng.integers(1, 40)), int(rng.integers(1, 30)), int(rng.integers(1, 4)))))
        # time blocks that are NOT in chronological order in the file (both readers present them in FILE order)
        configs.append((3, [2, 1, 2, 1, 1], (1, 1, 1), (1, 0, 2)))
        configs.append((4, [1, 2, 1, 1, 1], (3, 2, 1), (3, 1, 2, 0)))
        for ci, cfg in enumerate(configs):
            ntimes, nlays, nest = cfg[:3]
            torder = cfg[3] if len(cfg) > 3 else tuple(range(ntimes))
            d = os.path.join(tmp, 'c%d' % ci)
            os.makedirs(d)
            open(os.path.join(d, 'tracerinfo.dat'), 'w').write(R.tracerinfo_text(tracers))
            open(os.path.join(d, 'diaginfo.dat'), 'w').write(R.diaginfo_text(cats))
            nj, ni = 4, 5
            blocks = []
            for t in range(ntimes):
                for (nm, full, mw, c, num, scale, unit), nl in zip(tracers, nlays):
                    cat = 'IJ-AVG-$' if num < 1000 else 'ANTHSRCE'
                    blocks.append(dict(category=cat, tracer=num % 1000, unit=unit, tau0=140256. + 24 * torder[t], tau1=140280. + 24 * torder[t], start=nest,
                                       data=(rng.random((nl, nj, ni)) * 5 + 0.5).astype('f')))
            raw = R.bpch_encode(blocks)
            path = os.path.join(d, 'gen.bpch')
            open(path, 'wb').write(raw)
            sig = (ntimes, nlays, nest, torder)

            def key(b):
                nm = [t[0] for t in tracers if t[4] % 1000 == b['tracer'] and (t[4] >= 1000) == (b['category'] == 'ANTHSRCE')][0]
                return '%s_%s' % (b['category'], nm)

            def t_noscale(path=path, raw=raw, d=d):
                f = bpch1(path, noscale=True)
                out = os.path.join(d, 'rewrite.bpch')
                pncgen(f, out, format='bpch', verbose=0).close()
                b2 = open(out, 'rb').read()
                if b2 != raw:
                    i = next((i for i, (x, y) in enumerate(zip(raw, b2)) if x != y), min(len(raw), len(b2)))
                    return 'write(read(file, noscale)) differs from the file at byte %d (lengths %d / %d)' % (i, len(raw), len(b2))
                return None
            run.case('C18:noscale read/write reproduces the bytes', sig, t_noscale)

            def t_scaled(path=path, blocks=blocks, ntimes=ntimes, torder=torder):
                f = bpch1(path)
                g = bpch1(path, noscale=True)
                per = len(blocks) // ntimes
                for bi, b in enumerate(blocks[:per]):
                    k = key(b)
                    tr = [t for t in tracers if '%s_%s' % ('IJ-AVG-$' if t[4] < 1000 else 'ANTHSRCE', t[0]) == k][0]
                    v, w = f.variables[k], g.variables[k]
                    for ti in range(ntimes):
                        raw_t = blocks[ti * per + bi]['data']
                        if not np.array_equal(np.asarray(w[ti]), raw_t):
                            return 'raw values of %s at time %d differ from the encoded block' % (k, ti)
                        if not np.allclose(np.asarray(v[ti], 'd'), raw_t.astype('d') * tr[5], rtol=1e-6):
                            return 'scaled values of %s != raw x %g' % (k, tr[5])
                    if v.units.strip() != tr[6]:
                        return 'unit of %s %r, tracer table says %r' % (k, v.units, tr[6])
                tb = np.asarray(f.variables['tau0'][:])
                if not np.array_equal(tb, [140256. + 24 * torder[t] for t in range(ntimes)]):
                    return 'tau0 %r' % tb.tolist()
                return None
            run.case('C18:scaled read = raw x scale, unit from tracer table', sig, t_scaled)

            def t_rewrite_scaled(path=path, blocks=blocks, d=d):
                f = bpch1(path)            # scaled
                out = os.path.join(d, 'rewrite_scaled.bpch')
                pncgen(f, out, format='bpch', verbose=0).close()
                dec = R.bpch_decode(open(out, 'rb').read())
                if len(dec) != len(blocks):
                    return '%d blocks written, %d expected' % (len(dec), len(blocks))
                for a, b in zip(dec, blocks):
                    if (a['category'], a['tracer'], a['start'], a['tau0'], a['tau1']) != (b['category'], b['tracer'], tuple(b['start']), b['tau0'], b['tau1']):
                        return 'block header %r expected %r' % ((a['category'], a['tracer'], a['start'], a['tau0']), (b['category'], b['tracer'], b['start'], b['tau0']))
                    if a['data'].shape != b['data'].shape or not np.allclose(a['data'], b['data'], rtol=2e-6):
                        return 'tracer data of %s/%d not preserved by write(read(file))' % (b['category'], b['tracer'])
                # read the written file back: grid header and time bounds as in the source
                g = bpch1(out)
                for att in ('modelname', 'halfpolar', 'center180'):
                    if getattr(f, att) != getattr(g, att):
                        return 'grid header %s changed by write + read: %r -> %r' % (att, getattr(f, att), getattr(g, att))
                if not np.array_equal(np.asarray(f.modelres), np.asarray(g.modelres)):
                    return 'grid header modelres changed by write + read'
                for k in ('tau0', 'tau1', 'time_bounds'):
                    if not np.array_equal(np.asarray(f.variables[k][...]), np.asarray(g.variables[k][...])):
                        return '%s changed by write + read' % k
                return None
            run.case('C18:write(read(file)) with scaling returns the raw data', sig, t_rewrite_scaled)

            def t_bpch2(path=path, blocks=blocks, ntimes=ntimes):
                f = bpch1(path)
                g = bpch2(path)
                per = len(blocks) // ntimes
                for b in blocks[:per]:
                    k = key(b)
                    if k not in g.variables:
                        return 'bpch2 lacks %s' % k
                    a, c = np.asarray(f.variables[k][:]), np.asarray(g.variables[k][:])
                    if a.shape != c.shape or not np.allclose(a, c, rtol=1e-6):
                        return 'bpch1 and bpch2 present different data for %s' % k
                for k in ('tau0', 'tau1'):
                    if k in g.variables and not np.array_equal(np.asarray(f.variables[k][:], 'd'), np.asarray(g.variables[k][:], 'd')):
                        return 'bpch1 and bpch2 present different %s: %r vs %r' % (k, np.asarray(f.variables[k][:]).tolist(), np.asarray(g.variables[k][:]).tolist())
                return None
            run.case('C18:memory-mapped and block-walking readers agree', sig, t_bpch2)

            def t_master(path=path, blocks=blocks, ntimes=ntimes):
                # the common entry point `bpch` hands every option on to whichever reader it uses
                from PseudoNetCDF.geoschemfiles import bpch
                per = len(blocks) // ntimes
                for reader, direct in (('bpch1', bpch1), ('bpch2', bpch2)):
                    for ns in (True, False):
                        m, d_ = bpch(path, noscale=ns, reader=reader), direct(path, noscale=ns)
                        for b in blocks[:per]:
                            k = key(b)
                            if k not in m.variables:
                                return 'bpch(reader=%s) lacks %s' % (reader, k)
                            a, c = np.asarray(m.variables[k][:], 'd'), np.asarray(d_.variables[k][:], 'd')
                            if a.shape != c.shape or not np.allclose(a, c, rtol=1e-6):
                                return 'bpch(noscale=%s, reader=%s) presents other values for %s than %s(noscale=%s) (ratio %r)' % (ns, reader, k, reader, ns, float(a.flat[0] / c.flat[0]) if c.flat[0] else None)
                            if ns and not np.allclose(a[0], blocks[blocks.index(b)]['data'].astype('d'), rtol=1e-6):
                                return 'bpch(noscale=True, reader=%s): values of %s are not the raw values' % (reader, k)
                return None
            if ci < 3:
                run.case('C18:entry point bpch forwards its options to both readers', sig, t_master)
    finally:
        shutil.rmtree(tmp, ignore_errors=True)
    return run.result(
        rule='reference bpch encoder -> bpch1(noscale) -> ncf2bpch -> bytes identical; scaled read = raw x scale with unit from generated tracerinfo/diaginfo; write(read) decoded by the reference decoder; bpch1 vs bpch2',
        bound='1-4 time blocks, 2 categories x 5 tracers with differing scales, per-tracer layer counts 1-4, nested-grid offsets, 4x5 grid; 4 fixed + 2 (quick) / 12 (thorough) generated configurations')


def bounded_replay(p):
    return False, p.get('what')


META = dict(
    level='other',
    technique='scaling law of the memory-mapped reader (_tracer_lookup.__missing__) and record contents of the writer (ncf2bpch, cut-point loop over an arbitrary number of time blocks, structured records modelled field-wise) '
              'proved by pyvc; header walk of bpch1, byte image and second reader by bounded run-time contract with an independent bpch encoder/decoder',
    text='Proved (reader): for a record of ANY shape (time, layer, latitude, longitude), any tracer id, any category offset and an arbitrary tracer table (uninterpreted SCALE/UNIT/MOLWT/C per row), the variable served by '
         'the bpch1 reader uses row (offset + tracer id) -- row (tracer id) when the category is not in diaginfo --, every element is raw x SCALE of that row (raw when noscale), unit / molecular weight / carbon count come from '
         'that same row, tracer id, category and base unit of the header are carried, nested-grid offsets are the header start indices minus one in (i, j, l) order, the memory map is not written and a record whose '
         'markers disagree is rejected with ValueError.  Proved (writer): for a file with two tracer variables of different layer counts / scales / categories / tracer ids / grid windows, ANY number of time blocks and any sizes and values, '
         'ncf2bpch hands to the output file exactly 1 + T records: the general header (markers 40/80, type, title) and, per time block in order, for EACH variable its header (markers 36/168, model fields of the file, its own category / '
         'tracer id / unit / reserved text, tau0[t] / tau1[t], dim = reversed shape + start + 1, skip = 4 x cells + 8), data markers 4 x cells and data = values[t] / its OWN scale (values[t] when noscale).  '
         'Bounded: byte round trip without scaling, write/read through the reference decoder, agreement of both readers, on generated files.',
    note='The header walk of bpch1.__init__ (numpy structured dtypes built from text, memmap strides) and bpch2 are outside the modelled subset: bounded only.  The reader record (memmap[key]) is an abstract object with the '
         'field interface the function uses.  The writer is proved up to the FIELD CONTENT of the records given to tofile(): byte order, packing and the byte image are not modelled (pyvc/recarr.py) and are covered by the bounded byte round trip.',
    assumptions=['record interface of numpy structured memmap modelled by an abstract object (reader)', 'numpy structured zeros / field views / tofile modelled field-wise, byte image not modelled (writer)',
                 'float arithmetic treated as real arithmetic (no float32 rounding of value / scale)', 'header walk / bpch2: bounded only'],
    explanation='mixed: proof obligations for the scaling law of the reader and the record contents of the writer + bounded exploration of the byte-level round trips')
