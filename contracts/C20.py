"""C20 -- ARL packed-bit packing error is bounded and unpack inverts pack.

B: real pack2d / unpack / writevardef / readvardef on float32 fields (adversarial magnitudes and sign patterns).
P: see CONTRACTS (loop invariants of pack2d over reals) when present.
"""
from .common import *   # noqa

CONTRACTS = []


def bounded(tier, seed):
    from rtc import harness as H
    import numpy as np
    P = H.real()
    from PseudoNetCDF.noaafiles._arl import pack2d, unpack, writevardef, readvardef
    run = H.Run('C20', tier, seed, budget_s=80 if tier == 'quick' else 500)
    rng = np.random.default_rng(seed + 11)

    def check(field, tag):
        field = np.asarray(field, 'f')

        def t():
            src = field.copy()
            cvar, prec, nexp, var1, ksum = pack2d(field)
            if not np.array_equal(field, src):
                return 'input modified'
            by = np.frombuffer(np.ascontiguousarray(cvar).tobytes(), 'u1').reshape(field.shape)
            q = 2.0 ** (int(nexp) - 7)
            dec = unpack(cvar[None, None], np.array([[var1]], 'f'), np.array([[nexp]]))[0, 0]
            err = np.abs(dec.astype('d') - field.astype('d'))
            tol = q * (1 + 1e-5) + np.abs(field).max() * 4e-7     # float32 accumulation of the decoder
            if var1 != field[0, 0] or abs(float(dec[0, 0]) - float(field[0, 0])) > np.abs(field[0, 0]) * 2e-7 + q / 128 * 0.51:
                return 'first element not exact: %r -> %r' % (float(field[0, 0]), float(dec[0, 0]))
            if int(ksum) != int(by.astype('i8').sum() % 255):
                return 'checksum %r != byte sum %% 255 = %r' % (ksum, int(by.astype('i8').sum() % 255))
            if err.max() > 1.5 * tol:
                i = np.unravel_index(err.argmax(), err.shape)
                return 'byte wrap-around / gross error %.6g = %.2f quantisation steps (q=%g) at %r' % (err.max(), err.max() / q, q, i)
            if err.max() > tol:
                i = np.unravel_index(err.argmax(), err.shape)
                return 'error %.6g = %.3f quantisation steps (q=2**%d=%g) at %r' % (err.max(), err.max() / q, int(nexp) - 7, q, i)
            if abs(float(prec) * 127 - q * 64) > q:        # PREC = 2**NEXP/254, q = 2**NEXP/128 ~ 2*PREC
                return 'precision value %r inconsistent with exponent %r' % (prec, nexp)
            return None
        run.case('C20:pack2d/unpack %s' % tag, (tag, field.shape, float(np.abs(field).max())), t)

    # random fields over magnitudes
    shapes = [(2, 2), (2, 6), (4, 3), (3, 5)] + ([(50, 200)] if tier != 'quick' else [(10, 20)])
    for shp in shapes:
        for mag in (1e-30, 1e-8, 1e-3, 1., 17., 1e4, 1e12, 1e30):
            check((rng.random(shp) - 0.5) * mag, 'random field')
            check(np.full(shp, mag), 'constant field')
            check(np.cumsum(rng.random(shp) * mag, axis=1), 'monotone rows')
    # largest neighbour difference at / just below a power of two
    for k in (range(-100, 101, 7) if tier == 'quick' else range(-100, 101)):
        for j in range(4):
            d = np.float32(2.0 ** k) * np.float32(1 - j * 2.0 ** -23)
            for sgn in (1, -1):
                f = np.zeros((2, 3), 'f')
                f[0, 1] = sgn * d
                check(f, 'difference %s2**k*(1-j*2**-23)' % ('-' if sgn < 0 else '+'))
    # adversarial: negative difference close to -128 steps after a positive rounding error (from the z3 counter-model of the loop invariant)
    for a, b in ((0.51, -127.39), (0.49, -127.45), (0.3, -127.0), (0.51, -126.0)):
        check(np.array([[0, a, b], [0, 0, 0]]), 'negative difference of about -127.9 steps after a rounded-up cell')
        check(np.array([[0, -a, -b], [0, 0, 0]]), 'positive difference of about +127.9 steps after a rounded-down cell')
    # two consecutive drops of almost 128 steps: the second one starts from a reconstruction that is already 1.39 steps too high
    for a, b, c in ((0.51, -127.39, -255.2), (0.51, -127.39, -254.9)):
        check(np.array([[0, a, b, c], [0, 0, 0, 0]]), 'two consecutive drops of about -127.9 steps')
        check(np.array([[0, -a, -b, -c], [0, 0, 0, 0]]), 'two consecutive rises of about +127.9 steps')
    # negative differences within 0.4 % below a power of two
    for drop in (3.99, 0.499, 255.5, 1.995, 127.9):
        check(np.array([[10., 10. - drop, 10. - drop, 9.], [10., 10., 10., 10.]]), 'drop just below a power of two')
        check(np.array([[10., 10. + drop, 10. + drop, 11.], [10., 10., 10., 10.]]), 'rise just below a power of two')
    # whole files: reference ARL encoder -> arlpackedbit reader (fields within bound, variable and level lists, times)
    import os, tempfile, shutil
    from datetime import datetime, timedelta
    from rtc import refcodec as R
    from PseudoNetCDF.noaafiles import arlpackedbit
    tmp = tempfile.mkdtemp(prefix='verif_c20_')
    try:
        for ci, (nt, step_h, nz, ny, nx, start) in enumerate([(4, 12, 3, 16, 24, datetime(2010, 1, 30, 6)), (3, 24, 1, 14, 22, datetime(1999, 12, 30, 0)),
                                                              (2, 1, 2, 15, 26, datetime(2024, 2, 28, 23))]):
            times = [start + timedelta(hours=step_h * i) for i in range(nt)]
            levels = [0.995, 0.9, 0.5][:nz]
            sfckeys, laykeys = ['PRSS'], ['TEMP', 'UWND']
            yy, xx = np.mgrid[:ny, :nx]
            fields = {}
            for ti in range(nt):
                for li in range(nz + 1):
                    for k in (sfckeys if li == 0 else laykeys):
                        sc = {'PRSS': 30., 'TEMP': 4., 'UWND': .02}[k]
                        fields[ti, li, k] = ({'PRSS': 1000., 'TEMP': 280., 'UWND': 0.}[k] + sc * np.sin(xx / 3. + ti + li) * np.cos(yy / 4. - li) + sc * .1 * rng.normal(size=(ny, nx))).astype('f')
            raw, truth = R.arl_encode(times, 1.0, levels, sfckeys, laykeys, fields, nx, ny)
            path = os.path.join(tmp, 'arl%d.bin' % ci)
            open(path, 'wb').write(raw)

            def t_file(path=path, times=times, levels=levels, fields=fields, truth=truth, nt=nt, nz=nz):
                f = arlpackedbit(path)
                for k in ['PRSS', 'TEMP', 'UWND']:
                    if k not in f.variables:
                        return 'variable %s missing (variables %r)' % (k, list(f.variables))
                for ti in range(nt):
                    for li in range(nz + 1):
                        for k in (['PRSS'] if li == 0 else ['TEMP', 'UWND']):
                            got = np.asarray(f.variables[k][ti] if li == 0 else f.variables[k][ti, li - 1], 'd')
                            recon, nexp = truth[ti, li, k]
                            q = 2.0 ** (nexp - 7)
                            if got.shape != recon.shape:
                                return 'field %s shape %r' % (k, got.shape)
                            if np.abs(got - np.asarray(fields[ti, li, k], 'd')).max() > 1.5 * q * (1 + 1e-4) + np.abs(recon).max() * 1e-5:
                                return 'field %s time %d level %d: error %g exceeds the bound %g' % (k, ti, li, np.abs(got - fields[ti, li, k]).max(), q)
                got_times = [x.replace(tzinfo=None) for x in f.getTimes()]
                if got_times != times:
                    return 'times %s expected %s' % ([x.isoformat() for x in got_times], [x.isoformat() for x in times])
                zs = np.asarray(f.variables['z'][:], 'd') if 'z' in f.variables else None
                if zs is not None and not np.allclose(zs, levels, atol=1e-4):
                    return 'level list %r expected %r' % (zs.tolist(), levels)
                return None
            run.case('C20:arlpackedbit reads a reference-encoded file', (nt, step_h, nz, ny, nx), t_file)

            def t_write(path=path, raw=raw):
                from PseudoNetCDF.noaafiles._arl import writearlpackedbit
                f = arlpackedbit(path)
                out = path + '.rewritten'
                writearlpackedbit(f, out)
                b = open(out, 'rb').read()
                if len(b) != len(raw):
                    return 'writer output has %d bytes, the source file %d' % (len(b), len(raw))
                g = arlpackedbit(out)
                for k in ('PRSS', 'TEMP', 'UWND'):
                    if not np.allclose(np.asarray(g.variables[k][:]), np.asarray(f.variables[k][:]), rtol=0, atol=2 * 2.0 ** -7 * np.abs(np.asarray(f.variables[k][:])).max()):
                        return 'field %s changed by write/read' % k
                return None
            if ci == 0:
                run.case('C20:writearlpackedbit writes a readable file', (nt, step_h, nz, ny, nx), t_write)
    finally:
        shutil.rmtree(tmp, ignore_errors=True)
    # level / variable definition text
    for vglvls, nk in (([0., 1., 0.98], 2), ([0., 1000., 925., 850.5], 3), ([0., 0.5], 1)):
        def t(vglvls=vglvls, nk=nk):
            keys = {v: [('V%03d' % i).encode()[:4] for i in range(nk if i else 1)] for i, v in enumerate(vglvls)}
            cs = {(v, k): (i * 37 + j * 11) % 256 for i, v in enumerate(vglvls) for j, k in enumerate(keys[v])}
            txt = writevardef(vglvls, keys, cs)
            out = readvardef(np.bytes_(txt.encode()), {})
            if [float(x) for x in out['vglvls']] != [float(x) for x in vglvls]:
                return 'levels %r -> %r' % (vglvls, out['vglvls'])
            for v in vglvls:
                if [k.strip() for k in out['keys'][float(v)]] != [k.strip() for k in keys[v]]:
                    return 'variable list of level %r: %r' % (v, out['keys'][float(v)])
                for k in keys[v]:
                    if out['checksums'][float(v), k] != cs[v, k]:
                        return 'checksum of %r/%r' % (v, k)
            return None
        run.case('C20:writevardef/readvardef', (vglvls, nk), t)
    return run.result(
        rule='real pack2d -> unpack on float32 fields: every element within one quantisation step 2**(NEXP-7) (+ float32 accumulation tolerance), first element exact, checksum = byte sum mod 255, '
             'precision value consistent; level/variable definition text round trip',
        bound='shapes 2x2..4x6 (+10x20 / 50x200), magnitudes 1e-30..1e30, constant and monotone fields, largest difference 2**k*(1-j*2**-23) for k in -100..100 (quick: every 7th), j in 0..3, both signs; adversarial sign patterns')


def bounded_replay(p):
    return False, p.get('what')


META = dict(
    level='exploration',
    technique='bounded run-time contract on the real pack2d/unpack (float32); loop-invariant proof over reals planned in CONTRACTS',
    text='pack/unpack error, first element, checksum and no-wrap checked on float32 fields incl. adversarial differences next to powers of two.',
    note='bounded only.',
    assumptions=[], explanation='')
