"""C20 -- ARL packed-bit packing error is bounded and unpack inverts pack.

B: real pack2d / unpack / writevardef / readvardef on float32 fields (adversarial magnitudes and sign patterns).
P: see CONTRACTS (loop invariants of pack2d over reals) when present.
"""
from .common import *   # noqa

import z3
from fractions import Fraction
from pyvc.nparr import sym_array, SArr
from pyvc.exec import LoopSpec

ARL = 'noaafiles/_arl.py'


class Pack2D(Contract):
    """pack2d over the reals (A-REAL: float32 rounding ignored) for a field of ARBITRARY shape (NY >= 1, NX >= 2) and
    arbitrary values, for fields whose exponent is k and whose largest neighbour difference is at most 127 steps of
    2**(k-7) (the remaining sliver 127..128 steps is where the known findings live; it is left to the bounded harness):
      * VAR1 is the first element; NEXP = k, PREC = 2**k/254;
      * every stored byte is the packed integer itself, 0..255 (no wrap-around);
      * the packer's running reconstruction G obeys the DECODER's recurrences
            G[j,0] = (VAR1 if j == 0 else G[j-1,0]) + (byte[j,0]-127)/2**(7-k),  G[j,i] = G[j,i-1] + (byte[j,i]-127)/2**(7-k)
        (unpack is proved to compute exactly these recurrences: contract Unpack below);
      * |field[j,i] - G[j,i]| <= one quantisation step 2**(k-7), for every element (the bound the property states);
      * KSUM = (sum of the bytes) mod 255."""
    prop = 'C20'
    target = ARL + '::pack2d'
    max_paths = 80
    prefer_solver = 'cvc5-1.0.3'     # the quantified column-loop obligations: cvc5 is the fast one
    cli_timeout_s = 25
    budget_s = 240

    def __init__(self, k):
        self.k = k
        self.S = Fraction(2) ** (7 - k)
        self.h = Fraction(1) / self.S          # the property's bound: one quantisation step 2**(k-7)
        self.name = 'pack2d[exponent %d, largest neighbour difference <= 127 steps]' % k

    def inputs(self, ctx, I):
        ny, nx = ctx.fresh('NY'), ctx.fresh('NX')
        rv = sym_array('field', (ny, nx), 'f')
        self.ny, self.nx, self.rv = ny, nx, rv
        return dict(RVARA=rv, NY=ny, NX=nx)

    def call_args(self, inp):
        return [inp['RVARA']], {}

    def requires(self, inp):
        return And(ge(inp['NY'], 1), ge(inp['NX'], 2))

    def small(self, inp):
        return And(le(inp['NY'], 3), le(inp['NX'], 3))

    # ---- pieces of the invariants ------------------------------------------------------------------------------
    def step_ok(self, byte, prev, new, val):
        """one packed element: byte unwrapped, reconstruction advanced the decoder's way, error at most one step"""
        return And(ge(byte, 0), le(byte, 255), eq(new, add(prev, sym.truediv(sub(byte, 127), self.S))),
                   le(sym.abs_(sub(val, new)), self.h))

    def entry_lemmas(self, env):
        rv, S = self.rv, self.S
        RMAX = env['RMAX']
        r, c = z3.Int('el_r'), z3.Int('el_c')
        rows = z3.ForAll([r, c], Implies(And(ge(r, 0), lt(r, self.ny), ge(c, 1), lt(c, self.nx)),
                                         le(sym.abs_(sub(rv.get(r, c), rv.get(r, sub(c, 1)))), RMAX)))
        col0 = z3.ForAll([r], Implies(And(ge(r, 1), lt(r, self.ny)), le(sym.abs_(sub(rv.get(r, 0), rv.get(sub(r, 1), 0))), RMAX)))
        return [('trusted:exponent selection (float32 log2 not modelled): NEXP = %d, SCEXP = 2**(7-NEXP), PREC = 2**NEXP/254, and the '
                 'largest neighbour difference is at most 127 steps (RMAX*SCEXP <= 127)' % self.k,
                 And(eq(env['NEXP'], self.k), eq(env['SCEXP'], self.S), eq(env['PREC'], Fraction(2) ** self.k / 254),
                     le(mul(RMAX, self.S), 127), ge(RMAX, 0))),
                ('row-neighbour-differences-bounded-by-RMAX', rows),
                ('first-column-differences-bounded-by-RMAX', col0)]

    def col0_done(self, env, upto, CVAR, ROLDS):
        j = z3.Int('c0_j')
        VAR1 = env['VAR1']
        prev = lambda jj: sym.ite(eq(jj, 0), VAR1, ROLDS.get(sub(jj, 1)))
        return z3.ForAll([j], Implies(And(ge(j, 0), lt(j, upto)),
                                      self.step_ok(CVAR.get(j, 0), prev(j), ROLDS.get(j), self.rv.get(j, 0))))

    def inv_rows(self, env):
        k0 = env.it
        CVAR, ROLDS, ROLD, VAR1 = env['CVAR'], env['ROLDS'], env['ROLD'], env['VAR1']
        return [('index-in-range', And(ge(k0, 0), le(k0, self.ny))),
                ('first-element', eq(VAR1, self.rv.get(0, 0))),
                ('running-value-is-last-reconstruction', eq(ROLD, sym.ite(eq(k0, 0), VAR1, ROLDS.get(sub(k0, 1))))),
                ('first-column-packed-so-far', self.col0_done(env, k0, CVAR, ROLDS))]

    def keep_rows(self, env):
        j = sub(env.it, 1)
        ICVAL = env['ICVAL']
        return [('packed-integer-in-byte-range', And(ge(ICVAL, 0), le(ICVAL, 255))),
                ('stored-byte-is-the-packed-integer', eq(env['CVAR'].get(j, 0), ICVAL)),
                ('this-element-within-one-step', le(sym.abs_(sub(self.rv.get(j, 0), env['ROLD'])), self.h))]

    def inv_cols(self, env):
        c = env.it
        CVAR, ROLDS, ROLD = env['CVAR'], env['ROLDS'], env['ROLD']
        G = env.ctx.ghost['G']
        r, cc = z3.Int('ic_r'), z3.Int('ic_c')
        inr = And(ge(r, 0), lt(r, self.ny))
        cur = z3.ForAll([r], Implies(inr, And(eq(ROLD.get(r), G.get(r, sub(c, 1))), eq(G.get(r, 0), ROLDS.get(r)))))
        done = z3.ForAll([r, cc], Implies(And(inr, ge(cc, 1), lt(cc, c)),
                                          self.step_ok(CVAR.get(r, cc), G.get(r, sub(cc, 1)), G.get(r, cc), self.rv.get(r, cc))))
        return [('index-in-range', And(ge(c, 1), le(c, self.nx))),
                ('first-element', eq(env['VAR1'], self.rv.get(0, 0))),
                ('running-vector-has-one-entry-per-row', eq(ROLD.shape[0], self.ny)),
                ('first-column-packed', self.col0_done(env, self.ny, CVAR, ROLDS)),
                ('running-vector-is-last-reconstructed-column', cur),
                ('columns-packed-so-far', done)]

    def keep_cols(self, env):
        c = sub(env.it, 1)
        ICVAL, ROLD, CVAR = env['ICVAL'], env['ROLD'], env['CVAR']
        r = z3.Int('kc_r')
        inr = And(ge(r, 0), lt(r, self.ny))
        return [('packed-integers-in-byte-range', z3.ForAll([r], Implies(inr, And(ge(ICVAL.get(r), 0), le(ICVAL.get(r), 255))))),
                ('stored-bytes-are-the-packed-integers', z3.ForAll([r], Implies(inr, eq(CVAR.get(r, c), ICVAL.get(r))))),
                ('this-column-within-one-step', z3.ForAll([r], Implies(inr, le(sym.abs_(sub(self.rv.get(r, c), ROLD.get(r))), self.h))))]

    def ghost_cols_init(self, env):
        ROLDS = env['ROLDS']
        g = sym_array('G0', (self.ny, self.nx), 'f')
        return SArr((self.ny, self.nx), lambda q: sym.ite(eq(q[1], 0), ROLDS.get(q[0]), g.get(q)), 'f', tag='G')

    def ghost_cols_step(self, env):
        G, ROLD = env.ctx.ghost['G'], env['ROLD']
        c = sub(env.it, 1)           # the column just packed (the index has already advanced)
        old = G
        return {'G': SArr((self.ny, self.nx), lambda q: sym.ite(eq(q[1], c), ROLD.get(q[0]), old.get(q)), 'f', tag='G')}

    @property
    def loops(self):
        return {0: LoopSpec(inv=self.inv_rows, lemmas=self.entry_lemmas, keep_lemmas=self.keep_rows,
                            decreases=lambda env: sub(self.ny, env.it),
                            modifies={'CVAR': lambda env, q: eq(q[1], 0), 'ROLDS': lambda env, q: True}),
                1: LoopSpec(inv=self.inv_cols, keep_lemmas=self.keep_cols, decreases=lambda env: sub(self.nx, env.it),
                            ghost_init=lambda env: {'G': self.ghost_cols_init(env)}, ghost_step=self.ghost_cols_step,
                            modifies={'CVAR': lambda env, q: ge(q[1], 1)})}

    def ensures(self, inp, res, I):
        if not (isinstance(res, tuple) and len(res) == 5 and isinstance(res[0], SArr)):
            return [('returns (bytes, PREC, NEXP, VAR1, KSUM)', False)]
        CVAR, PREC, NEXP, VAR1, KSUM = res
        G = I.ctx.ghost.get('G')
        if G is None:
            return [('reconstruction-ghost-present', False)]
        j, i = z3.Int('e_j'), z3.Int('e_i')
        rng = And(ge(j, 0), lt(j, self.ny), ge(i, 0), lt(i, self.nx))
        prev = sym.ite(eq(i, 0), sym.ite(eq(j, 0), VAR1, G.get(sub(j, 1), 0)), G.get(j, sub(i, 1)))
        byte = CVAR.get(j, i)
        sums = [x for x in I.ctx.ghost.get('sums', []) if x['buf'] is CVAR.buf]
        ks = bool(sums) and sums[-1]['writes'] == CVAR.buf.writes and sums[-1]['whole'] and eq(KSUM, sym.mod(sums[-1]['symbol'], 255))
        return [('first-element-exact', eq(VAR1, self.rv.get(0, 0))),
                ('exponent-and-precision', And(eq(NEXP, self.k), eq(PREC, Fraction(2) ** self.k / 254))),
                ('no-byte-wrap-around', Implies(rng, And(ge(byte, 0), le(byte, 255)))),
                ('reconstruction-obeys-the-decoder-recurrence', Implies(rng, eq(G.get(j, i), add(prev, sym.truediv(sub(byte, 127), self.S))))),
                ('error-within-one-quantisation-step', Implies(rng, le(sym.abs_(sub(self.rv.get(j, i), G.get(j, i))), self.h))),
                ('checksum-is-byte-sum-mod-255', ks),
                ('shape-kept', And(eq(CVAR.shape[0], self.ny), eq(CVAR.shape[1], self.nx)))]


    # -- replay: the counter-model's field through the real pack2d and unpack (float32) ----------------------------
    def concretize(self, model, inp):
        return dict(field=inp['RVARA'].model_value(model), k=self.k)

    def concretize_without_model(self, inp):
        return dict(field=None, k=self.k)

    def replay(self, c):
        import numpy as np
        import_real()
        vals = (c.get('field') or {}).get('values')
        cands = []
        if vals and vals[0] and len(vals[0]) >= 2:
            cands.append(np.array([[float(fl(x)) for x in row] for row in vals], 'f'))
        # canonical fields inside the contract premise (exponent k, differences <= 127 steps): the uninterpreted parts of
        # a counter-model (byte sum) need not show on the model's own field
        q = 2.0 ** (int(c['k']) - 7)
        rng = np.random.default_rng(20)
        for shp in ((2, 2), (3, 4), (5, 7)):
            base = rng.integers(-60, 61, size=shp).astype('d')
            base[0, :2] = (0, 100)                     # a difference of 100 steps fixes the exponent at k
            cands.append((base * q + rng.random(shp) * q * 0.4).astype('f'))
        out = None
        for f in cands:
            r = self.replay_one(f, int(c['k']))
            if r is None:
                continue
            if not r[0]:
                return r
            out = out or r
        return out

    def replay_one(self, f, k):
        import numpy as np
        from PseudoNetCDF.noaafiles._arl import pack2d, unpack
        cvar, prec, nexp, var1, ksum = pack2d(f.copy())
        by = np.frombuffer(np.ascontiguousarray(cvar).tobytes(), 'u1').reshape(f.shape).astype('i8')
        q = 2.0 ** (int(nexp) - 7)
        d = np.abs(np.diff(f.astype('d'), axis=1)).max()
        d = max(d, np.abs(np.diff(np.append(f[0, 0], f[:, 0]).astype('d'))).max())
        if int(nexp) != k or d / q > 127:
            return None           # outside the contract premise once rounded to float32
        dec = unpack(cvar[None, None], np.array([[var1]], 'f'), np.array([[nexp]]))[0, 0].astype('d')
        # the decoder's recurrence in exact arithmetic on the stored bytes
        G = np.zeros(f.shape)
        for j in range(f.shape[0]):
            G[j, 0] = (float(var1) if j == 0 else G[j - 1, 0]) + (by[j, 0] - 127) * q
            for i in range(1, f.shape[1]):
                G[j, i] = G[j, i - 1] + (by[j, i] - 127) * q
        err = np.abs(G - f.astype('d')).max()
        ok = (float(var1) == float(f[0, 0]) and err <= q * (1 + 1e-6) and int(ksum) == int(by.sum() % 255)
              and abs(float(prec) - 2.0 ** int(nexp) / 254) <= 1e-6 * float(prec) and np.abs(dec - G).max() <= q * 1e-3 + np.abs(f).max() * 1e-6)
        return ok, dict(field=f.tolist(), bytes=by.tolist(), NEXP=int(nexp), error_in_steps=err / q, KSUM=int(ksum), byte_sum_mod_255=int(by.sum() % 255))


class Unpack(Contract):
    """unpack over the reals for ANY number of records T and any field shape: the result obeys exactly the decoder
    recurrences that pack2d's running reconstruction is proved to obey (same start value VAR1, same increments
    (byte-127)/2**(7-EXP)), so unpack(pack2d(x)) IS that reconstruction (two arrays obeying the same first-order recurrence
    from the same start are equal -- the induction is not machine-checked here)."""
    prop = 'C20'
    target = ARL + '::unpack'

    def __init__(self):
        self.name = 'unpack[T records of NY x NX bytes]'

    def inputs(self, ctx, I):
        T, ny, nx = ctx.fresh('T'), ctx.fresh('NY'), ctx.fresh('NX')
        self.T, self.ny, self.nx = T, ny, nx
        by = sym_array('bytes', (T, ny, nx), 'i')
        v1 = sym_array('VAR1', (T,), 'f')
        ex = sym_array('EXP', (T,), 'i')
        self.by, self.v1, self.ex = by, v1, ex
        return dict(bytes=by, VAR1=v1, EXP=ex, T=T, NY=ny, NX=nx)

    def call_args(self, inp):
        return [inp['bytes'], inp['VAR1'], inp['EXP']], {}

    def requires(self, inp):
        t, j, i = z3.Int('u_t'), z3.Int('u_j'), z3.Int('u_i')
        rng = And(ge(t, 0), lt(t, self.T), ge(j, 0), lt(j, self.ny), ge(i, 0), lt(i, self.nx))
        return And(ge(self.T, 1), ge(self.ny, 1), ge(self.nx, 1),
                   z3.ForAll([t, j, i], Implies(rng, And(ge(self.by.get(t, j, i), 0), le(self.by.get(t, j, i), 255)))))

    def small(self, inp):
        return And(le(self.T, 2), le(self.ny, 2), le(self.nx, 2))

    def ensures(self, inp, res, I):
        if not isinstance(res, SArr) or res.ndim != 3:
            return [('returns a T x NY x NX array', False)]
        t, j, i = z3.Int('t'), z3.Int('j'), z3.Int('i')
        rng = And(ge(t, 0), lt(t, self.T), ge(j, 0), lt(j, self.ny), ge(i, 0), lt(i, self.nx))
        inv = sym.truediv(1, sym.pow_(Fraction(2), sym.to_real(sub(7, self.ex.get(t)))))
        prev = sym.ite(eq(i, 0), sym.ite(eq(j, 0), self.v1.get(t), res.get(t, sub(j, 1), 0)), res.get(t, j, sub(i, 1)))
        return [('shape', And(eq(res.shape[0], self.T), eq(res.shape[1], self.ny), eq(res.shape[2], self.nx))),
                ('decoder-recurrence: out = previous + (byte-127)/2**(7-EXP), starting from VAR1',
                 Implies(rng, eq(res.get(t, j, i), add(prev, mul(sub(self.by.get(t, j, i), 127), inv))))),
                ('inputs-not-modified', Implies(rng, And(eq(inp['bytes'].get(t, j, i), self.by.fn(t, j, i)), eq(inp['VAR1'].get(t), self.v1.fn(t)))))]


    def concretize(self, model, inp):
        return dict(bytes=inp['bytes'].model_value(model), VAR1=inp['VAR1'].model_value(model), EXP=inp['EXP'].model_value(model))

    def concretize_without_model(self, inp):
        return dict(bytes=None)

    def replay(self, c):
        import numpy as np
        import_real()
        from PseudoNetCDF.noaafiles._arl import unpack
        cands = []
        b = (c.get('bytes') or {}).get('values')
        if b and (c.get('VAR1') or {}).get('values') is not None and (c.get('EXP') or {}).get('values') is not None:
            try:
                cands.append((np.array(b, 'i8').astype('u1'), np.array([float(fl(x)) for x in c['VAR1']['values']], 'f'),
                              np.array([int(x) for x in c['EXP']['values']], 'i')))
            except Exception:
                pass
        rng = np.random.default_rng(7)
        cands.append((rng.integers(0, 256, size=(2, 3, 4)).astype('u1'), np.array([1.5, -20.], 'f'), np.array([3, -2], 'i')))
        cands = [x for x in cands if x[0].ndim == 3 and all(abs(int(e)) < 60 for e in x[2])]
        res = None
        for by, v1, ex in cands:
            src = by.copy()
            out = unpack(by.view('S1'), v1, ex).astype('d')
            exp = np.zeros(by.shape)
            for t in range(by.shape[0]):
                q = 2.0 ** (int(ex[t]) - 7)
                for j in range(by.shape[1]):
                    for i in range(by.shape[2]):
                        prev = (float(v1[t]) if j == 0 else exp[t, j - 1, 0]) if i == 0 else exp[t, j, i - 1]
                        exp[t, j, i] = prev + (int(by[t, j, i]) - 127) * q
            tol = 1e-5 * (np.abs(exp).max() + 1)
            ok = out.shape == exp.shape and np.abs(out - exp).max() <= tol and np.array_equal(by, src)
            res = (ok, dict(bytes=by.tolist(), VAR1=v1.tolist(), EXP=ex.tolist(), got=out.tolist()[:1], expected=exp.tolist()[:1]))
            if not ok:
                return res
        return res


CONTRACTS = [Pack2D(k) for k in (-3, 0, 7)] + [Unpack()]


def bounded(tier, seed):
    from rtc import harness as H
    import numpy as np
    P = H.real()
    from PseudoNetCDF.noaafiles._arl import pack2d, unpack, writevardef, readvardef
    run = H.Run('C20', tier, seed, budget_s=80 if tier == 'quick' else 500)
    rng = np.random.default_rng(seed + 11)

    def check(field, tag, wide=False):
        given = np.asarray(field, 'd' if wide else 'f')       # wide: the caller hands pack2d a float64 array (it packs the float32 values)
        field = np.asarray(field, 'f')

        def t():
            src = given.copy()
            cvar, prec, nexp, var1, ksum = pack2d(given)
            if not np.array_equal(given, src):
                return 'input modified'
            by = np.frombuffer(np.ascontiguousarray(cvar).tobytes(), 'u1').reshape(field.shape)
            q = 2.0 ** (int(nexp) - 7)
            dec = unpack(cvar[None, None], np.array([[var1]], 'f'), np.array([[nexp]]))[0, 0]
            err = np.abs(dec.astype('d') - field.astype('d'))
            tol = q * (1 + 1e-5) + np.abs(field).max() * 4e-7     # float32 accumulation of the decoder
            if var1 != field[0, 0] or abs(float(dec[0, 0]) - float(field[0, 0])) > np.abs(field[0, 0]) * 2e-7 + q / 128 * 0.51:
                return 'first element not exact: %r -> %r' % (float(field[0, 0]), float(dec[0, 0]))
            if int(ksum) != int(by.astype('i8').sum() % 255):
                return 'checksum %r != byte sum %% 255 = %r' % (ksum, int(by.astype('i8').sum() % 255))
            if err.max() > 1.5 * tol:
                i = np.unravel_index(err.argmax(), err.shape)
                return 'byte wrap-around / gross error %.6g = %.2f quantisation steps (q=%g) at %r' % (err.max(), err.max() / q, q, i)
            if err.max() > tol:
                i = np.unravel_index(err.argmax(), err.shape)
                return 'error %.6g = %.3f quantisation steps (q=2**%d=%g) at %r' % (err.max(), err.max() / q, int(nexp) - 7, q, i)
            if abs(float(prec) * 127 - q * 64) > q:        # PREC = 2**NEXP/254, q = 2**NEXP/128 ~ 2*PREC
                return 'precision value %r inconsistent with exponent %r' % (prec, nexp)
            return None
        run.case('C20:pack2d/unpack %s' % tag, (tag, field.shape, float(np.abs(field).max())), t)

    # random fields over magnitudes
    shapes = [(2, 2), (2, 6), (4, 3), (3, 5)] + ([(50, 200)] if tier != 'quick' else [(10, 20)])
    for shp in shapes:
        for mag in (1e-30, 1e-8, 1e-3, 1., 17., 1e4, 1e12, 1e30):
            check((rng.random(shp) - 0.5) * mag, 'random field')
            check(np.full(shp, mag), 'constant field')
            check(np.cumsum(rng.random(shp) * mag, axis=1), 'monotone rows')
    # largest neighbour difference at / just below a power of two
    for k in (range(-100, 101, 7) if tier == 'quick' else range(-100, 101)):
        for j in range(4):
            d = np.float32(2.0 ** k) * np.float32(1 - j * 2.0 ** -23)
            for sgn in (1, -1):
                f = np.zeros((2, 3), 'f')
                f[0, 1] = sgn * d
                check(f, 'difference %s2**k*(1-j*2**-23)' % ('-' if sgn < 0 else '+'))
    # ramps whose every neighbour difference is EXACTLY a power of two (integer counters, 0/1 masks, dyadic ramps): several
    # consecutive differences of the largest size, in both directions and down the first column as well
    for k in (range(-100, 101, 9) if tier == 'quick' else range(-100, 101)):
        step = np.float32(2.0 ** k)
        for sgn in (1, -1):
            check(np.array([[3, 2, 1, 0], [3, 2, 1, 0]], 'f') * step * sgn, 'ramp of differences exactly 2**k along the rows')
            check(np.array([[3, 3], [2, 2], [1, 1], [0, 0]], 'f') * step * sgn, 'ramp of differences exactly 2**k down the first column')
    check(np.array([[0, 1, 0, 1, 1, 0], [1, 0, 0, 1, 0, 1]], 'f'), '0/1 mask')
    # float64 input: the values that are packed are the float32 ones; differences a hair below 2**k in float64 are exactly 2**k in float32
    for k in (range(-60, 61, 8) if tier == 'quick' else range(-100, 101)):
        for eps in (2.0 ** -40, 2.0 ** -30, 2.0 ** -26):
            d = 2.0 ** k * (1 - eps)
            for sgn in (1, -1):
                check(np.array([[0, 1, 2, 3, 4], [0, 1, 2, 3, 4]], 'd') * d * sgn, 'float64 input, consecutive differences just below 2**k (equal to 2**k in float32)', wide=True)
                check(np.array([[0, 0], [1, 1], [2, 2], [3, 3]], 'd') * d * sgn, 'float64 input, first-column differences just below 2**k', wide=True)
    for shp in shapes[:3]:
        for mag in (1e-8, 1., 1e4):
            check((rng.random(shp) - 0.5) * mag, 'float64 input, random field', wide=True)
    # adversarial: negative difference close to -128 steps after a positive rounding error (from the z3 counter-model of the loop invariant)
    for a, b in ((0.51, -127.39), (0.49, -127.45), (0.3, -127.0), (0.51, -126.0)):
        check(np.array([[0, a, b], [0, 0, 0]]), 'negative difference of about -127.9 steps after a rounded-up cell')
        check(np.array([[0, -a, -b], [0, 0, 0]]), 'positive difference of about +127.9 steps after a rounded-down cell')
    # two consecutive drops of almost 128 steps: the second one starts from a reconstruction that is already 1.39 steps too high
    for a, b, c in ((0.51, -127.39, -255.2), (0.51, -127.39, -254.9)):
        check(np.array([[0, a, b, c], [0, 0, 0, 0]]), 'two consecutive drops of about -127.9 steps')
        check(np.array([[0, -a, -b, -c], [0, 0, 0, 0]]), 'two consecutive rises of about +127.9 steps')
    # negative differences within 0.4 % below a power of two
    for drop in (3.99, 0.499, 255.5, 1.995, 127.9):
        check(np.array([[10., 10. - drop, 10. - drop, 9.], [10., 10., 10., 10.]]), 'drop just below a power of two')
        check(np.array([[10., 10. + drop, 10. + drop, 11.], [10., 10., 10., 10.]]), 'rise just below a power of two')
    # whole files: reference ARL encoder -> arlpackedbit reader (fields within bound, variable and level lists, times)
    import os, tempfile, shutil
    from datetime import datetime, timedelta
    from rtc import refcodec as R
    from PseudoNetCDF.noaafiles import arlpackedbit
    tmp = tempfile.mkdtemp(prefix='verif_c20_')
    try:
        for ci, (nt, step_h, nz, ny, nx, start) in enumerate([(4, 12, 3, 16, 24, datetime(2010, 1, 30, 6)), (3, 24, 1, 14, 22, datetime(1999, 12, 30, 0)),
                                                              (2, 1, 2, 15, 26, datetime(2024, 2, 28, 23))]):
            times = [start + timedelta(hours=step_h * i) for i in range(nt)]
            levels = [0.995, 0.9, 0.5][:nz]
            sfckeys, laykeys = ['PRSS'], ['TEMP', 'UWND']
            yy, xx = np.mgrid[:ny, :nx]
            fields = {}
            for ti in range(nt):
                for li in range(nz + 1):
                    for k in (sfckeys if li == 0 else laykeys):
                        sc = {'PRSS': 30., 'TEMP': 4., 'UWND': .02}[k]
                        fields[ti, li, k] = ({'PRSS': 1000., 'TEMP': 280., 'UWND': 0.}[k] + sc * np.sin(xx / 3. + ti + li) * np.cos(yy / 4. - li) + sc * .1 * rng.normal(size=(ny, nx))).astype('f')
            raw, truth = R.arl_encode(times, 1.0, levels, sfckeys, laykeys, fields, nx, ny)
            path = os.path.join(tmp, 'arl%d.bin' % ci)
            open(path, 'wb').write(raw)

            def t_file(path=path, times=times, levels=levels, fields=fields, truth=truth, nt=nt, nz=nz):
                f = arlpackedbit(path)
                for k in ['PRSS', 'TEMP', 'UWND']:
                    if k not in f.variables:
                        return 'variable %s missing (variables %r)' % (k, list(f.variables))
                for ti in range(nt):
                    for li in range(nz + 1):
                        for k in (['PRSS'] if li == 0 else ['TEMP', 'UWND']):
                            got = np.asarray(f.variables[k][ti] if li == 0 else f.variables[k][ti, li - 1], 'd')
                            recon, nexp = truth[ti, li, k]
                            q = 2.0 ** (nexp - 7)
                            if got.shape != recon.shape:
                                return 'field %s shape %r' % (k, got.shape)
                            if np.abs(got - np.asarray(fields[ti, li, k], 'd')).max() > 1.5 * q * (1 + 1e-4) + np.abs(recon).max() * 1e-5:
                                return 'field %s time %d level %d: error %g exceeds the bound %g' % (k, ti, li, np.abs(got - fields[ti, li, k]).max(), q)
                got_times = [x.replace(tzinfo=None) for x in f.getTimes()]
                if got_times != times:
                    return 'times %s expected %s' % ([x.isoformat() for x in got_times], [x.isoformat() for x in times])
                zs = np.asarray(f.variables['z'][:], 'd') if 'z' in f.variables else None
                if zs is not None and not np.allclose(zs, levels, atol=1e-4):
                    return 'level list %r expected %r' % (zs.tolist(), levels)
                return None
            run.case('C20:arlpackedbit reads a reference-encoded file', (nt, step_h, nz, ny, nx), t_file)
            if ci == 0:
                # a grid with 1000 points or more in ONE direction (grid label 'A@' / '@A'): the thousands come from the label
                for bny, bnx in ((3, 1002), (1001, 3)):
                    byy, bxx = np.mgrid[:bny, :bnx]
                    bf = {}
                    for li in range(2):
                        for k in (['PRSS'] if li == 0 else ['TEMP']):
                            bf[0, li, k] = ({'PRSS': 1000., 'TEMP': 280.}[k] + 3. * np.sin(bxx / 30.) * np.cos(byy / 40.)).astype('f')
                    braw, btruth = R.arl_encode(times[:1], 1.0, levels[:1], ['PRSS'], ['TEMP'], bf, bnx, bny)
                    bpath = os.path.join(tmp, 'arl_big_%d_%d.bin' % (bny, bnx))
                    open(bpath, 'wb').write(braw)

                    def t_big(bpath=bpath, bf=bf, btruth=btruth, bny=bny, bnx=bnx):
                        f = arlpackedbit(bpath)
                        for k, li in (('PRSS', 0), ('TEMP', 1)):
                            got = np.asarray(f.variables[k][0] if li == 0 else f.variables[k][0, 0], 'd')
                            if got.shape != (bny, bnx):
                                return 'field %s has shape %r, the file holds %d x %d points' % (k, got.shape, bny, bnx)
                            recon, nexp = btruth[0, li, k]
                            q = 2.0 ** (nexp - 7)
                            if np.abs(got - np.asarray(bf[0, li, k], 'd')).max() > 1.5 * q * (1 + 1e-4) + np.abs(recon).max() * 1e-5:
                                return 'field %s: error %g exceeds the bound %g' % (k, np.abs(got - bf[0, li, k]).max(), q)
                        return None
                    run.case('C20:arlpackedbit reads a grid with 1000 or more points in one direction', (bny, bnx), t_big)
                # upper levels whose variable lists have the same LENGTH but differ (another order, another variable): every field
                # comes back under its own name, level by level
                lay = [['TEMP', 'UWND'], ['UWND', 'TEMP'], ['TEMP', 'RELH']]
                fields2 = {}
                base_, sc_ = {'PRSS': 1000., 'TEMP': 280., 'UWND': 0., 'RELH': 50.}, {'PRSS': 30., 'TEMP': 4., 'UWND': .02, 'RELH': 10.}
                for ti in range(nt):
                    for li in range(4):
                        for k in (['PRSS'] if li == 0 else lay[li - 1]):
                            fields2[ti, li, k] = (base_[k] + 100 * li * (k == 'TEMP') + sc_[k] * np.sin(xx / 3. + ti + li) * np.cos(yy / 4. - li)).astype('f')
                raw2, truth2 = R.arl_encode(times, 1.0, levels, ['PRSS'], lay, fields2, nx, ny)
                path2 = os.path.join(tmp, 'arl_mixed.bin')
                open(path2, 'wb').write(raw2)

                def t_mixed(path2=path2, lay=lay, fields2=fields2, truth2=truth2, nt=nt):
                    f = arlpackedbit(path2)
                    for k in ('TEMP', 'UWND', 'RELH'):
                        lis = [li for li in range(1, 4) if k in lay[li - 1]]
                        if k not in f.variables or f.variables[k].shape[1] != len(lis):
                            return 'variable %s: %s, it is defined on %d levels' % (k, 'missing' if k not in f.variables else 'shape %r' % (f.variables[k].shape,), len(lis))
                        for ti in range(nt):
                            for j, li in enumerate(lis):
                                got = np.asarray(f.variables[k][ti, j], 'd')
                                recon, nexp = truth2[ti, li, k]
                                q = 2.0 ** (nexp - 7)
                                if np.abs(got - np.asarray(fields2[ti, li, k], 'd')).max() > 1.5 * q * (1 + 1e-4) + np.abs(recon).max() * 1e-5:
                                    return 'field %s time %d level %d: error %g exceeds the bound %g (read under the name of another variable?)' % (k, ti, li, np.abs(got - fields2[ti, li, k]).max(), q)
                    return None
                run.case('C20:arlpackedbit reads a file whose levels have different variable lists of equal length', (nt, ny, nx), t_mixed)

            def t_write(path=path, raw=raw):
                from PseudoNetCDF.noaafiles._arl import writearlpackedbit
                f = arlpackedbit(path)
                out = path + '.rewritten'
                writearlpackedbit(f, out)
                b = open(out, 'rb').read()
                if len(b) != len(raw):
                    return 'writer output has %d bytes, the source file %d' % (len(b), len(raw))
                g = arlpackedbit(out)
                for k in ('PRSS', 'TEMP', 'UWND'):
                    if not np.allclose(np.asarray(g.variables[k][:]), np.asarray(f.variables[k][:]), rtol=0, atol=2 * 2.0 ** -7 * np.abs(np.asarray(f.variables[k][:])).max()):
                        return 'field %s changed by write/read' % k
                return None
            if ci == 0:
                run.case('C20:writearlpackedbit writes a readable file', (nt, step_h, nz, ny, nx), t_write)
    finally:
        shutil.rmtree(tmp, ignore_errors=True)
    # level / variable definition text
    for vglvls, nk in (([0., 1., 0.98], 2), ([0., 1000., 925., 850.5], 3), ([0., 0.5], 1)):
        def t(vglvls=vglvls, nk=nk):
            keys = {v: [('V%03d' % i).encode()[:4] for i in range(nk if i else 1)] for i, v in enumerate(vglvls)}
            cs = {(v, k): (i * 37 + j * 11) % 256 for i, v in enumerate(vglvls) for j, k in enumerate(keys[v])}
            txt = writevardef(vglvls, keys, cs)
            out = readvardef(np.bytes_(txt.encode()), {})
            if [float(x) for x in out['vglvls']] != [float(x) for x in vglvls]:
                return 'levels %r -> %r' % (vglvls, out['vglvls'])
            for v in vglvls:
                if [k.strip() for k in out['keys'][float(v)]] != [k.strip() for k in keys[v]]:
                    return 'variable list of level %r: %r' % (v, out['keys'][float(v)])
                for k in keys[v]:
                    if out['checksums'][float(v), k] != cs[v, k]:
                        return 'checksum of %r/%r' % (v, k)
            return None
        run.case('C20:writevardef/readvardef', (vglvls, nk), t)
    return run.result(
        rule='real pack2d -> unpack on float32 fields: every element within one quantisation step 2**(NEXP-7) (+ float32 accumulation tolerance), first element exact, checksum = byte sum mod 255, '
             'precision value consistent; level/variable definition text round trip',
        bound='shapes 2x2..4x6 (+10x20 / 50x200), magnitudes 1e-30..1e30, constant and monotone fields, largest difference 2**k*(1-j*2**-23) for k in -100..100 (quick: every 7th), j in 0..3, both signs; adversarial sign patterns')


def bounded_replay(p):
    return False, p.get('what')


META = dict(
    level='other',
    technique='pack2d (loop invariants over symbolic-size arrays, ghost reconstruction array, staged conjunct-wise invariants) and unpack (cumsum '
              'recurrences) proved by pyvc over the reals; float32 behaviour, the exponent selection and the file layer by bounded run-time contract',
    text='Proved over the reals, for fields of ANY shape and any values whose exponent is k in {-3, 0, 7} and whose largest neighbour difference is at most '
         '127 quantisation steps: first element exact, every byte is the packed integer in 0..255 (no wrap-around), the running reconstruction obeys the '
         'decoder recurrence, every element within one quantisation step 2**(k-7), KSUM = byte sum mod 255; and for ANY number of records / shape / exponent: '
         'unpack computes exactly that decoder recurrence and leaves its inputs unchanged. Bounded (float32, real functions): error, first element, checksum, '
         'no-wrap on adversarial fields next to powers of two; vardef text; reference-encoded files read by arlpackedbit; the writer.',
    note='The sliver of fields whose largest difference lies between 127 and 128 steps is where pack2d really violates the bound (known findings); the proof '
         'excludes it by its premise and the bounded harness reports it. The exponent selection (float32 log) is a trusted premise of the proof, not verified. '
         'The equality unpack(pack2d(x)) = reconstruction follows from the two proved recurrences by an induction that is not machine-checked.',
    assumptions=['A-REAL: float32 arithmetic treated as exact real arithmetic in pack2d/unpack',
                 'trusted premise at the first loop of pack2d: NEXP = k, SCEXP = 2**(7-k), PREC = 2**k/254, RMAX*SCEXP <= 127 (lines computing the exponent are not verified)',
                 'numpy.diff/abs/max/append/cumsum/zeros/uint8 store/int32 cast as modelled in pyvc/nparr.py (trusted); numpy.sum uninterpreted'],
    explanation='mixed: discharged obligations for pack2d (3 exponents) and unpack + bounded float32 harness')
