"""C11 -- IOAPI subsetting preserves geo- and time-referencing (bounded run-time contract)."""
import itertools
from .common import *   # noqa

import z3
from pyvc.exec import Obj, Opaque
from pyvc.nparr import sym_array, SArr

IO = 'cmaqfiles/_ioapi.py'
F = 'core/_files.py'


class BaseSliceAssumed(Contract):
    """(no longer used: the base function is executed in line since the engine covers it)  ASSUMED summary of PseudoNetCDFFile.sliceDimensions for this proof (checked by the bounded harnesses of C02/C11):
    the result is a new IOAPI file object carrying the receiver's global attributes and the sliced dimensions"""
    prop = 'C11'
    target = F + '::PseudoNetCDFFile.sliceDimensions'

    def apply(self, I, func, args, kwargs):
        me = args[0]
        out = Obj(me.cls, dict(me.attrs), tag='sliced')
        out.attrs['dimensions'] = dict(me.attrs['dimensions'])
        out.ghost['source'] = me
        I.ctx.ghost['slice_kwargs'] = dict(kwargs)
        I.ctx.trust_contract = getattr(I.ctx, 'trust_contract', set())
        I.ctx.trust_contract.add(self.target + ' (assumed summary)')
        return out


class UpdateMetaAssumed(Contract):
    """ASSUMED: updatemeta() does not touch XORIG, YORIG, XCELL, YCELL, VGLVLS (it recomputes counts and TFLAG)"""
    prop = 'C11'
    target = IO + '::ioapi_base.updatemeta'

    def apply(self, I, func, args, kwargs):
        return None


def window_first(sel, n):
    """index of the first retained cell for a window given as integer (+/-) or unit-stride slice (start, stop)"""
    if isinstance(sel, tuple):
        a = sel[0]
        return ite(lt(a, 0), add(a, n), a)
    return ite(lt(sel, 0), add(sel, n), sel)


class SliceOrigin(Contract):
    """ioapi sliceDimensions: the grid origin moves by (index of the first retained column/row) x cell size, cell sizes and the
    other origin are unchanged -- for windows given as integers (positive or negative) or unit-stride slices, any grid size"""
    prop = 'C11'
    target = IO + '::ioapi_base.sliceDimensions'
    uses = [UpdateMetaAssumed()]
    max_paths = 100

    def __init__(self, dims, kind):
        self.dims, self.kind = dims, kind
        self.name = 'ioapi.sliceDimensions[%s as %s]' % ('+'.join(dims), kind)

    def inputs(self, ctx, I):
        n = dict(COL=ctx.fresh('ncols'), ROW=ctx.fresh('nrows'))
        attrs = dict(XORIG=ctx.fresh('XORIG', 'Real'), YORIG=ctx.fresh('YORIG', 'Real'), XCELL=ctx.fresh('XCELL', 'Real'), YCELL=ctx.fresh('YCELL', 'Real'),
                     NCOLS=n['COL'], NROWS=n['ROW'])
        f = pnc_file(I, dimensions={d: dim_obj(I, d, n[d]) for d in ('ROW', 'COL')}, attrs=attrs, relpath=IO, clsname='ioapi_base')
        kw = {}
        self.sel = {}
        for d in self.dims:
            if self.kind == 'int':
                s = ctx.fresh('i_' + d)
                kw[d] = s
                self.sel[d] = s
            else:
                a, b = ctx.fresh('start_' + d), ctx.fresh('stop_' + d)
                kw[d] = slice(a, b)
                self.sel[d] = (a, b)
        self.n = n
        self.attrs0 = dict(attrs)
        return dict(self=f, kwds=kw)

    def call_args(self, inp):
        return [inp['self']], dict(inp['kwds'])

    def requires(self, inp):
        r = And(ge(self.n['COL'], 1), ge(self.n['ROW'], 1))
        for d, s in self.sel.items():
            n = self.n[d]
            if isinstance(s, tuple):
                a, b = s
                na, nb = window_first(s, n), ite(lt(b, 0), add(b, n), b)
                r = And(r, ge(a, sym.neg(n)), lt(a, n), ge(nb, 0), le(nb, n), lt(na, nb))     # non-empty window inside the grid
            else:
                r = And(r, ge(s, sym.neg(n)), lt(s, n))
        return r

    def ensures(self, inp, res, I):
        if not isinstance(res, Obj):
            return [('returns-file', False)]
        a0, a = self.attrs0, res.attrs
        out = [('cell-size-unchanged', And(eq(a['XCELL'], a0['XCELL']), eq(a['YCELL'], a0['YCELL']))),
               ('source-origin-unchanged', And(eq(inp['self'].attrs['XORIG'], a0['XORIG']), eq(inp['self'].attrs['YORIG'], a0['YORIG'])))]
        for d, org, cell in (('COL', 'XORIG', 'XCELL'), ('ROW', 'YORIG', 'YCELL')):
            if d in self.sel:
                out.append(('%s-moves-by-first-index-x-cell' % org, eq(a[org], add(a0[org], mul(window_first(self.sel[d], self.n[d]), a0[cell])))))
            else:
                out.append(('%s-unchanged' % org, eq(a[org], a0[org])))
        return out


CONTRACTS = [SliceOrigin(d, k) for d in (('COL',), ('ROW',), ('ROW', 'COL')) for k in ('int', 'slice')]



class SliceLevels(Contract):
    """ioapi sliceDimensions(LAY=window): the level edges of the result are the matching sub-range (one more edge than layers)"""
    prop = 'C11'
    target = IO + '::ioapi_base.sliceDimensions'
    uses = [UpdateMetaAssumed()]
    max_paths = 100

    def __init__(self, kind):
        self.kind = kind
        self.name = 'ioapi.sliceDimensions[LAY as %s]' % kind

    def inputs(self, ctx, I):
        nl = ctx.fresh('nlays')
        vg = sym_array('VGLVLS', (add(nl, 1),), 'f')
        attrs = dict(XORIG=ctx.fresh('XORIG', 'Real'), YORIG=ctx.fresh('YORIG', 'Real'), XCELL=ctx.fresh('XCELL', 'Real'), YCELL=ctx.fresh('YCELL', 'Real'), VGLVLS=vg)
        f = pnc_file(I, dimensions={'LAY': dim_obj(I, 'LAY', nl)}, attrs=attrs, relpath=IO, clsname='ioapi_base')
        self.nl, self.vg = nl, vg
        if self.kind == 'int':
            self.sel = ctx.fresh('i_LAY')
            kw = dict(LAY=self.sel)
        else:
            self.sel = (ctx.fresh('start_LAY'), ctx.fresh('stop_LAY'))
            kw = dict(LAY=slice(*self.sel))
        return dict(self=f, kwds=kw)

    def call_args(self, inp):
        return [inp['self']], dict(inp['kwds'])

    def first_count(self):
        n = self.nl
        if isinstance(self.sel, tuple):
            a, b = self.sel
            na, nb = ite(lt(a, 0), add(a, n), a), ite(lt(b, 0), add(b, n), b)
            return na, sub(nb, na)
        return ite(lt(self.sel, 0), add(self.sel, n), self.sel), 1

    def requires(self, inp):
        n = self.nl
        r = ge(n, 1)
        if isinstance(self.sel, tuple):
            a, b = self.sel
            na, cnt = self.first_count()
            nb = add(na, cnt)
            return And(r, ge(a, sym.neg(n)), lt(a, n), ge(b, sym.neg(n)), le(b, n), ge(nb, 0), le(nb, n), ge(cnt, 1))
        return And(r, ge(self.sel, sym.neg(n)), lt(self.sel, n))

    def ensures(self, inp, res, I):
        if not isinstance(res, Obj):
            return [('returns-file', False)]
        vg2 = res.attrs.get('VGLVLS')
        if not isinstance(vg2, SArr):
            return [('VGLVLS-is-array', False)]
        first, cnt = self.first_count()
        j = z3.Int('lev_j')
        return [('one-more-edge-than-layers', eq(vg2.shape[0], add(cnt, 1))),
                ('edges-are-the-matching-sub-range', Implies(And(ge(j, 0), le(j, cnt)), eq(vg2.get(j), self.vg.get(add(first, j))))),
                ('origin-unchanged', And(eq(res.attrs['XORIG'], inp['self'].attrs['XORIG']), eq(res.attrs['YORIG'], inp['self'].attrs['YORIG'])))]


CONTRACTS += [SliceLevels('int'), SliceLevels('slice')]


def bounded(tier, seed):
    from rtc import harness as H, ioapi as IO
    import numpy as np
    P = H.real()
    run = H.Run('C11', tier, seed, budget_s=90 if tier == 'quick' else 600)

    def windows(n):
        w = [0, n - 1, -1, -n, 1, slice(0, 1), slice(1, n), slice(0, n), slice(1, n - 1), slice(-2, None), slice(None, -1), slice(n - 1, n)]
        return [x for x in w if np.atleast_1d(np.arange(n)[x]).size > 0]

    def first_len(sel, n):
        idx = np.arange(n)[sel]
        idx = np.atleast_1d(idx)
        return int(idx[0]), int(idx.size)
    files = [('hourly across year end', dict(nt=5, nz=3, ny=7, nx=4, sdate=2019365, stime=220000, tstep=10000)),
             ('daily across leap day', dict(nt=4, nz=4, ny=5, nx=6, sdate=2020059, stime=0, tstep=240000)),
             ('30 min', dict(nt=4, nz=2, ny=4, nx=5, sdate=2021001, stime=233000, tstep=3000))]
    for fname, kw in files:
        f = IO.make_ioapi(P, seed=seed, **kw)
        times0 = list(f.getTimes())
        vg0 = np.asarray(f.VGLVLS, 'd')
        x0, y0, dx, dy = float(f.XORIG), float(f.YORIG), float(f.XCELL), float(f.YCELL)
        dims = dict(ROW=kw['ny'], COL=kw['nx'], LAY=kw['nz'], TSTEP=kw['nt'])

        def check(sel, tag):
            def t():
                before = H.snapshot(f)
                g = f.sliceDimensions(**sel)
                e = IO.ioapi_wf(g)
                if e:
                    return 'metadata incoherent: ' + e
                if 'COL' in sel:
                    i0, n = first_len(sel['COL'], dims['COL'])
                    if abs(float(g.XORIG) - (x0 + i0 * dx)) > 1e-6 * abs(dx):
                        return 'XORIG %r, expected %r (first column %d)' % (float(g.XORIG), x0 + i0 * dx, i0)
                    if g.NCOLS != n:
                        return 'NCOLS %r expected %d' % (g.NCOLS, n)
                elif float(g.XORIG) != x0:
                    return 'XORIG changed without a COL window'
                if 'ROW' in sel:
                    i0, n = first_len(sel['ROW'], dims['ROW'])
                    if abs(float(g.YORIG) - (y0 + i0 * dy)) > 1e-6 * abs(dy):
                        return 'YORIG %r, expected %r (first row %d)' % (float(g.YORIG), y0 + i0 * dy, i0)
                elif float(g.YORIG) != y0:
                    return 'YORIG changed without a ROW window'
                if float(g.XCELL) != dx or float(g.YCELL) != dy:
                    return 'cell size changed'
                if 'LAY' in sel:
                    i0, n = first_len(sel['LAY'], dims['LAY'])
                    exp = vg0[i0:i0 + n + 1]
                    got = np.asarray(g.VGLVLS, 'd')
                    if got.shape != exp.shape or not np.allclose(got, exp, rtol=0, atol=0):
                        return 'VGLVLS %r expected %r' % (got.tolist(), exp.tolist())
                elif not np.array_equal(np.asarray(g.VGLVLS, 'd'), vg0):
                    return 'VGLVLS changed without a LAY window'
                if 'TSTEP' in sel:
                    i0, n = first_len(sel['TSTEP'], dims['TSTEP'])
                    exp = times0[i0:i0 + n]
                else:
                    exp = times0
                got = list(g.getTimes())
                if got != exp:
                    return 'decoded times %s expected %s' % ([x.isoformat() for x in got[:3]], [x.isoformat() for x in exp[:3]])
                if len(exp) > 1 or 'TSTEP' not in sel:
                    if int(g.TSTEP) != int(f.TSTEP):
                        return 'TSTEP attribute %r, source has %r' % (g.TSTEP, f.TSTEP)
                # data of the retained cells
                for vk in ('V0',):
                    a = np.asarray(f.variables[vk][...])
                    idx = tuple(np.atleast_1d(np.arange(dims[d])[sel[d]]) if d in sel else np.arange(dims[d]) for d in ('TSTEP', 'LAY', 'ROW', 'COL'))
                    expv = a[np.ix_(*idx)]
                    if not np.array_equal(np.asarray(g.variables[vk][...]), expv):
                        return 'data of the retained cells differ'
                return H.same_snapshot(before, H.snapshot(f))
            kinds = ','.join('%s=%s' % (d, 'int' if not isinstance(s, slice) else 'slice') for d, s in sorted(sel.items()))
            neg = any((not isinstance(s, slice) and s < 0) or (isinstance(s, slice) and ((s.start or 0) < 0 or (s.stop or 0) < 0)) for s in sel.values())
            run.case('C11:%s:%s%s' % (fname, kinds, ' (negative index)' if neg else ''), (fname, repr(sel)), t)
        for d in ('ROW', 'COL', 'LAY', 'TSTEP'):
            for w in windows(dims[d]):
                check({d: w}, 'one')
        pairs = list(itertools.combinations(('ROW', 'COL', 'LAY', 'TSTEP'), 2))
        for d1, d2 in pairs:
            W1, W2 = windows(dims[d1]), windows(dims[d2])
            sel_pairs = [(W1[i], W2[(i * 5 + 3) % len(W2)]) for i in range(len(W1))] if tier == 'quick' else list(itertools.product(W1, W2))
            for w1, w2 in sel_pairs:
                check({d1: w1, d2: w2}, 'two')
            if run.out_of_time():
                break
    return run.result(
        rule='real ioapi sliceDimensions with contiguous windows: XORIG/YORIG moved by first index x cell, VGLVLS equal to the matching sub-range, decoded times equal to the sub-range of the source times, '
             'TSTEP attribute kept, retained data identical, metadata coherent (C10 invariant), source unchanged',
        bound='grids 7x4x3 (hourly across year end), 5x6x4 (daily across leap day), 4x5x2 (30 min); windows {0, n-1, -1, -n, 1, unit-stride slices touching both edges, negative bounds}; single dimensions and pairs')


def bounded_replay(p):
    return False, p.get('what')


META = dict(
    level='other',
    technique='origin and level-edge arithmetic of ioapi sliceDimensions proved by pyvc with the base sliceDimensions executed in line (updatemeta as assumed summary, its count clauses are C10 obligations); time referencing by bounded run-time contract',
    text='Proved for grids of any size and windows given as integers (positive or negative) or unit-stride slices: XORIG/YORIG move by (first retained index) x cell size, cell sizes and the '
         'source are unchanged, VGLVLS of the result is the matching sub-range with one more edge than layers. Bounded: decoded times / SDATE / STIME / TSTEP of time windows (strftime-based), '
         'retained data, metadata coherence, pairs of dimensions.',
    note='updatemeta is an ASSUMED summary in the proof (does not touch XORIG/YORIG/XCELL/YCELL/VGLVLS; its count clauses are proved under C10); the base sliceDimensions is no longer assumed: it is executed in line (and proved on its own under C02); floats are reals (A-REAL).',
    assumptions=[sym.A_REAL],
    explanation='mixed: proof obligations for origin/level arithmetic + bounded exploration for time referencing')
