"""C11 -- IOAPI subsetting preserves geo- and time-referencing (bounded run-time contract)."""
import itertools
from .common import *   # noqa

import z3
from pyvc.exec import Obj, Opaque
from pyvc.nparr import sym_array, SArr

IO = 'cmaqfiles/_ioapi.py'
F = 'core/_files.py'


class BaseSliceAssumed(Contract):
    """(no longer used: the base function is executed in line since the engine covers it)  ASSUMED summary of PseudoNetCDFFile.sliceDimensions for this proof (checked by the bounded harnesses of C02/C11):
    the result is a new IOAPI file object carrying the receiver's global attributes and the sliced dimensions"""
    prop = 'C11'
    target = F + '::PseudoNetCDFFile.sliceDimensions'

    def apply(self, I, func, args, kwargs):
        me = args[0]
        out = Obj(me.cls, dict(me.attrs), tag='sliced')
        out.attrs['dimensions'] = dict(me.attrs['dimensions'])
        out.ghost['source'] = me
        I.ctx.ghost['slice_kwargs'] = dict(kwargs)
        I.ctx.trust_contract = getattr(I.ctx, 'trust_contract', set())
        I.ctx.trust_contract.add(self.target + ' (assumed summary)')
        return out


class UpdateMetaProved(Contract):
    """summary of updatemeta() used by the C11 proofs -- every clause is a post-condition PROVED by the updatemeta contracts of
    contracts/C10.py: NLAYS / NROWS / NCOLS become the dimension lengths, TSTEP is unlimited, a DATE-TIME dimension of length 2
    exists, the attributes that getVarlist / _updatetime / updatetflag may write are arbitrary afterwards, and EVERY OTHER
    existing attribute (XORIG, YORIG, XCELL, YCELL, VGLVLS, VGTOP, ...) is the object it was (absent defaults that get set are
    not modelled: no clause here reads them)"""
    prop = 'C11'
    target = IO + '::ioapi_base.updatemeta'

    def apply(self, I, func, args, kwargs):
        from contracts import C10
        me = func.bound if func.bound is not None else args[0]
        I.ctx.trust_contract = getattr(I.ctx, 'trust_contract', set())
        I.ctx.trust_contract.add(self.target + ' (proved: contracts updatemeta[...] of C10)')
        d = me.attrs['dimensions']
        listed = tuple(me.attrs.get('_ncattrs', ()))
        for k in C10.UpdateMeta.WRITES:
            if k in ('NLAYS', 'NROWS', 'NCOLS'):
                dk = {'NLAYS': 'LAY', 'NROWS': 'ROW', 'NCOLS': 'COL'}[k]
                if dk not in d:
                    continue
                me.attrs[k] = d[dk].attrs['_len']
            elif k == 'VAR-LIST':
                me.attrs[k] = Opaque('%s as left by updatemeta' % k)
            else:
                # an arbitrary integer (the date / time / count attributes are integers): code that goes on computing with it stays symbolic
                me.attrs[k] = I.ctx.fresh('%s_after_updatemeta' % k.replace('-', '_'))
            if k not in listed:
                listed += (k,)
        me.attrs['_ncattrs'] = listed
        if 'TSTEP' in d:
            d['TSTEP'].attrs['_unlimited'] = True
        if 'DATE-TIME' not in d:
            d['DATE-TIME'] = dim_obj(I, 'DATE-TIME', 2)
        return None


def window_first(sel, n):
    """index of the first retained cell for a window given as integer (+/-) or unit-stride slice (start, stop)"""
    if isinstance(sel, tuple):
        a = sel[0]
        return ite(lt(a, 0), add(a, n), a)
    return ite(lt(sel, 0), add(sel, n), sel)


class SliceOrigin(Contract):
    """ioapi sliceDimensions: the grid origin moves by (index of the first retained column/row) x cell size, cell sizes and the
    other origin are unchanged -- for windows given as integers (positive or negative) or unit-stride slices, any grid size"""
    prop = 'C11'
    target = IO + '::ioapi_base.sliceDimensions'
    uses = [UpdateMetaProved()]
    max_paths = 100

    def __init__(self, dims, kind):
        self.dims, self.kind = dims, kind
        self.name = 'ioapi.sliceDimensions[%s as %s]' % ('+'.join(dims), kind)

    def inputs(self, ctx, I):
        n = dict(COL=ctx.fresh('ncols'), ROW=ctx.fresh('nrows'))
        attrs = dict(XORIG=ctx.fresh('XORIG', 'Real'), YORIG=ctx.fresh('YORIG', 'Real'), XCELL=ctx.fresh('XCELL', 'Real'), YCELL=ctx.fresh('YCELL', 'Real'),
                     NCOLS=n['COL'], NROWS=n['ROW'])
        f = pnc_file(I, dimensions={d: dim_obj(I, d, n[d]) for d in ('ROW', 'COL')}, attrs=attrs, relpath=IO, clsname='ioapi_base')
        kw = {}
        self.sel = {}
        for d in self.dims:
            if self.kind == 'int':
                s = ctx.fresh('i_' + d)
                kw[d] = s
                self.sel[d] = s
            else:
                a, b = ctx.fresh('start_' + d), ctx.fresh('stop_' + d)
                kw[d] = slice(a, b)
                self.sel[d] = (a, b)
        self.n = n
        self.attrs0 = dict(attrs)
        return dict(self=f, kwds=kw)

    def call_args(self, inp):
        return [inp['self']], dict(inp['kwds'])

    def requires(self, inp):
        r = And(ge(self.n['COL'], 1), ge(self.n['ROW'], 1))
        for d, s in self.sel.items():
            n = self.n[d]
            if isinstance(s, tuple):
                a, b = s
                na, nb = window_first(s, n), ite(lt(b, 0), add(b, n), b)
                r = And(r, ge(a, sym.neg(n)), lt(a, n), ge(nb, 0), le(nb, n), lt(na, nb))     # non-empty window inside the grid
            else:
                r = And(r, ge(s, sym.neg(n)), lt(s, n))
        return r

    def ensures(self, inp, res, I):
        if not isinstance(res, Obj):
            return [('returns-file', False)]
        a0, a = self.attrs0, res.attrs
        out = [('cell-size-unchanged', And(eq(a['XCELL'], a0['XCELL']), eq(a['YCELL'], a0['YCELL']))),
               ('source-origin-unchanged', And(eq(inp['self'].attrs['XORIG'], a0['XORIG']), eq(inp['self'].attrs['YORIG'], a0['YORIG'])))]
        for d, org, cell in (('COL', 'XORIG', 'XCELL'), ('ROW', 'YORIG', 'YCELL')):
            if d in self.sel:
                out.append(('%s-moves-by-first-index-x-cell' % org, eq(a[org], add(a0[org], mul(window_first(self.sel[d], self.n[d]), a0[cell])))))
            else:
                out.append(('%s-unchanged' % org, eq(a[org], a0[org])))
        return out


    # -- replay on the real function -----------------------------------------------------------------------------------
    def concretize(self, model, inp):
        from pyvc.verify import model_value
        c = dict(dims=list(self.dims), kind=self.kind, ncols=model_value(model, self.n['COL']), nrows=model_value(model, self.n['ROW']), sel={})
        for d, s_ in self.sel.items():
            c['sel'][d] = [model_value(model, x) for x in s_] if isinstance(s_, tuple) else model_value(model, s_)
        return c

    def concretize_without_model(self, inp):
        return dict(dims=list(self.dims), kind=self.kind, ncols=6, nrows=5, sel={d: ([-3, -1] if self.kind == 'slice' else -2) for d in self.dims})

    def replay(self, c):
        from rtc import harness as H, ioapi as IOH
        P = H.real()
        out = None
        for cand in (c, dict(c, ncols=6, nrows=5, sel={d: ([-3, -1] if c['kind'] == 'slice' else -2) for d in c['dims']})):
            nx, ny = int(cand['ncols']), int(cand['nrows'])
            if not (1 <= nx <= 40 and 1 <= ny <= 40):
                continue
            f = IOH.make_ioapi(P, nt=2, nz=2, ny=ny, nx=nx)
            kw = {d: (slice(int(v[0]), int(v[1])) if isinstance(v, (list, tuple)) else int(v)) for d, v in cand['sel'].items()}
            x0, y0 = float(f.XORIG), float(f.YORIG)
            try:
                g = f.sliceDimensions(**kw)
            except Exception as e:
                r = (False, dict(raised=type(e).__name__, message=str(e)[:160], selectors=repr(kw), ncols=nx, nrows=ny))
                return r
            first = lambda d, n: (range(n)[kw[d]][0] if isinstance(kw[d], slice) else range(n)[kw[d]]) if d in kw else 0
            ex, ey = x0 + first('COL', nx) * float(f.XCELL), y0 + first('ROW', ny) * float(f.YCELL)
            ok = abs(float(g.XORIG) - ex) < 1e-6 and abs(float(g.YORIG) - ey) < 1e-6 and float(f.XORIG) == x0 and float(f.YORIG) == y0 \
                and float(g.XCELL) == float(f.XCELL) and float(g.YCELL) == float(f.YCELL)
            r = (ok, dict(selectors=repr(kw), ncols=nx, nrows=ny, XORIG=float(g.XORIG), expected_XORIG=ex, YORIG=float(g.YORIG), expected_YORIG=ey))
            if not ok:
                return r
            out = out or r
        return out


CONTRACTS = [SliceOrigin(d, k) for d in (('COL',), ('ROW',), ('ROW', 'COL')) for k in ('int', 'slice')]



class SliceLevels(Contract):
    """ioapi sliceDimensions(LAY=window): the level edges of the result are the matching sub-range (one more edge than layers)"""
    prop = 'C11'
    target = IO + '::ioapi_base.sliceDimensions'
    uses = [UpdateMetaProved()]
    max_paths = 100

    def __init__(self, kind):
        self.kind = kind
        self.name = 'ioapi.sliceDimensions[LAY as %s]' % kind

    def inputs(self, ctx, I):
        nl = ctx.fresh('nlays')
        vg = sym_array('VGLVLS', (add(nl, 1),), 'f')
        attrs = dict(XORIG=ctx.fresh('XORIG', 'Real'), YORIG=ctx.fresh('YORIG', 'Real'), XCELL=ctx.fresh('XCELL', 'Real'), YCELL=ctx.fresh('YCELL', 'Real'), VGLVLS=vg)
        f = pnc_file(I, dimensions={'LAY': dim_obj(I, 'LAY', nl)}, attrs=attrs, relpath=IO, clsname='ioapi_base')
        self.nl, self.vg = nl, vg
        if self.kind == 'int':
            self.sel = ctx.fresh('i_LAY')
            kw = dict(LAY=self.sel)
        else:
            self.sel = (ctx.fresh('start_LAY'), ctx.fresh('stop_LAY'))
            kw = dict(LAY=slice(*self.sel))
        return dict(self=f, kwds=kw)

    def call_args(self, inp):
        return [inp['self']], dict(inp['kwds'])

    def first_count(self):
        n = self.nl
        if isinstance(self.sel, tuple):
            a, b = self.sel
            na, nb = ite(lt(a, 0), add(a, n), a), ite(lt(b, 0), add(b, n), b)
            return na, sub(nb, na)
        return ite(lt(self.sel, 0), add(self.sel, n), self.sel), 1

    def requires(self, inp):
        n = self.nl
        r = ge(n, 1)
        if isinstance(self.sel, tuple):
            a, b = self.sel
            na, cnt = self.first_count()
            nb = add(na, cnt)
            return And(r, ge(a, sym.neg(n)), lt(a, n), ge(b, sym.neg(n)), le(b, n), ge(nb, 0), le(nb, n), ge(cnt, 1))
        return And(r, ge(self.sel, sym.neg(n)), lt(self.sel, n))

    def ensures(self, inp, res, I):
        if not isinstance(res, Obj):
            return [('returns-file', False)]
        vg2 = res.attrs.get('VGLVLS')
        if not isinstance(vg2, SArr):
            return [('VGLVLS-is-array', False)]
        first, cnt = self.first_count()
        j = z3.Int('lev_j')
        return [('one-more-edge-than-layers', eq(vg2.shape[0], add(cnt, 1))),
                ('edges-are-the-matching-sub-range', Implies(And(ge(j, 0), le(j, cnt)), eq(vg2.get(j), self.vg.get(add(first, j))))),
                ('origin-unchanged', And(eq(res.attrs['XORIG'], inp['self'].attrs['XORIG']), eq(res.attrs['YORIG'], inp['self'].attrs['YORIG'])))]


    def concretize(self, model, inp):
        from pyvc.verify import model_value
        return dict(kind=self.kind, nlays=model_value(model, self.nl),
                    sel=[model_value(model, x) for x in self.sel] if isinstance(self.sel, tuple) else model_value(model, self.sel))

    def concretize_without_model(self, inp):
        return dict(kind=self.kind, nlays=4, sel=[1, 3] if self.kind == 'slice' else -2)

    def replay(self, c):
        import numpy as np
        from rtc import harness as H, ioapi as IOH
        P = H.real()
        out = None
        for cand in (c, dict(c, nlays=4, sel=[1, 3] if c['kind'] == 'slice' else -2)):
            nz = int(cand['nlays'])
            if not 1 <= nz <= 30:
                continue
            f = IOH.make_ioapi(P, nt=2, nz=nz, ny=3, nx=4)
            vg = np.asarray(f.VGLVLS).copy()
            sel = slice(int(cand['sel'][0]), int(cand['sel'][1])) if isinstance(cand['sel'], (list, tuple)) else int(cand['sel'])
            try:
                g = f.sliceDimensions(LAY=sel)
            except Exception as e:
                return False, dict(raised=type(e).__name__, message=str(e)[:160], LAY=repr(sel), nlays=nz)
            idx = list(range(nz))[sel] if isinstance(sel, slice) else [range(nz)[sel]]
            exp = vg[idx[0]:idx[-1] + 2]
            got = np.atleast_1d(np.asarray(g.VGLVLS))
            ok = got.shape == exp.shape and np.array_equal(got, exp)
            r = (ok, dict(LAY=repr(sel), nlays=nz, VGLVLS=got.tolist(), expected=exp.tolist()))
            if not ok:
                return r
            out = out or r
        return out


CONTRACTS += [SliceLevels('int'), SliceLevels('slice')]


class SliceTime(Contract):
    """ioapi sliceDimensions(TSTEP=window) on a file with time flags of ARBITRARY length nt and any number of variable columns,
    whenever it returns (getTimes raises ValueError on an invalid flag): the time flags of the result are exactly the selected rows of
    the source (in the order selected, for an integer, a unit-stride slice or an index array of any length with repeats),
    the data variable likewise, and the source is unchanged.  (SDATE/STIME = first flag is checked by the bounded harness
    and, for regenerated flags, proved under C10 updatetflag; as one more clause here it made the solver time unstable.)"""
    prop = 'C11'
    target = IO + '::ioapi_base.sliceDimensions'
    uses = [UpdateMetaProved()]
    max_paths = 120
    budget_s = 200
    # getTimes raises ValueError on an invalid flag in any row; which flags are valid is C12's business
    ignore = ('call:datetime/pre:valid-fields',)

    def __init__(self, kind):
        self.kind = kind
        self.name = 'ioapi.sliceDimensions[TSTEP as %s]' % kind

    def inputs(self, ctx, I):
        from pyvc import frontend
        nt, nv, ny = ctx.fresh('nsteps'), ctx.fresh('nvars'), ctx.fresh('nrows')
        self.nt, self.nv, self.ny = nt, nv, ny
        mod = frontend.load('core/_variables.py')
        cls = I.classref(mod, mod.find('PseudoNetCDFVariable')[0])
        tf = sym_array('TFLAG', (nt, nv, 2), 'i')
        tf.cls = cls
        tf.attrs.update(dimensions=('TSTEP', 'VAR', 'DATE-TIME'), _ncattrs=('units',), units='<YYYYDDD,HHMMSS>')
        dv = sym_array('O3', (nt, ny), 'f')
        dv.cls = cls
        # attributes that are NOT what the IOAPI createVariable would fill in by itself (padded key / blank description)
        dv.attrs.update(dimensions=('TSTEP', 'ROW'), _ncattrs=('units', 'long_name', 'var_desc'), units='ppm', long_name='Ozone', var_desc='ozone, not padded')
        self.tf, self.dv = tf, dv
        self.pre = (tf.buf.get, dv.buf.get)
        dims = {'TSTEP': dim_obj(I, 'TSTEP', nt, unlimited=True), 'VAR': dim_obj(I, 'VAR', nv), 'DATE-TIME': dim_obj(I, 'DATE-TIME', 2), 'ROW': dim_obj(I, 'ROW', ny)}
        f = pnc_file(I, dimensions=dims, variables=dict(TFLAG=tf, O3=dv), attrs=dict(SDATE=ctx.fresh('SDATE0'), STIME=ctx.fresh('STIME0'), TSTEP=ctx.fresh('TSTEP0'), NVARS=nv),
                     relpath=IO, clsname='ioapi_base')
        self.k, self.a, self.b, self.m = ctx.fresh('k'), ctx.fresh('a'), ctx.fresh('b'), ctx.fresh('m')
        if self.kind == 'int':
            sel = self.k
        elif self.kind == 'slice':
            sel = slice(self.a, self.b)
        else:
            self.ix = sym_array('index', (self.m,), 'i')
            sel = self.ix
        return dict(self=f, kwds=dict(TSTEP=sel))

    def call_args(self, inp):
        return [inp['self']], dict(inp['kwds'])

    def row(self, i):
        """source row selected as the i-th row of the result, and the number of rows"""
        n = self.nt
        if self.kind == 'int':
            return ite(lt(self.k, 0), add(self.k, n), self.k), 1
        if self.kind == 'slice':
            na, nb = ite(lt(self.a, 0), add(self.a, n), self.a), ite(lt(self.b, 0), add(self.b, n), self.b)
            return add(na, i), sub(nb, na)
        e = self.ix.get(i)
        return ite(lt(e, 0), add(e, n), e), self.m

    def first_cells(self, I, res):
        """the two cells of the first selected flag, as the terms the engine built (for syntactic generalisation)"""
        T = res.attrs['variables']['TFLAG']
        return T.get(0, 0, 0), T.get(0, 0, 1)

    def requires(self, inp):
        from pyvc.dt import days_in_year
        n = self.nt
        r = And(ge(n, 1), ge(self.nv, 1), ge(self.ny, 1), le(n, 100000))
        if self.kind == 'int':
            r = And(r, ge(self.k, sym.neg(n)), lt(self.k, n))
        elif self.kind == 'slice':
            first, cnt = self.row(0)
            r = And(r, ge(self.a, sym.neg(n)), lt(self.a, n), ge(self.b, sym.neg(n)), le(self.b, n), ge(first, 0), ge(cnt, 1), le(add(first, cnt), n))
        else:
            p = z3.Int('rq_p')
            r = And(r, ge(self.m, 1), z3.ForAll([p], Implies(And(ge(p, 0), lt(p, self.m)), And(ge(self.ix.get(p), sym.neg(n)), lt(self.ix.get(p), n)))))
        return r

    def small(self, inp):
        # counter-model search: three hourly steps across a leap-year end, one variable; an uneven, repeating selection
        pins = [eq(self.nt, 3), eq(self.nv, 1), eq(self.ny, 1)]
        for t, (d, h) in enumerate(((2020366, 220000), (2020366, 230000), (2021001, 0))):
            pins += [eq(self.tf.get(t, 0, 0), d), eq(self.tf.get(t, 0, 1), h)]
        if self.kind == 'index-array':
            pins += [eq(self.m, 3), eq(self.ix.get(0), 0), eq(self.ix.get(1), 2), eq(self.ix.get(2), 2)]
        elif self.kind == 'slice':
            pins += [eq(self.a, 1), eq(self.b, 3)]
        else:
            pins += [eq(self.k, -1)]
        return And(*pins)

    def ensures(self, inp, res, I):
        from pyvc.dt import instant_yyyyjjj
        if not isinstance(res, Obj) or 'variables' not in res.attrs:
            return [('returns-file', False)]
        vs = res.attrs['variables']
        T, D = vs.get('TFLAG'), vs.get('O3')
        if not isinstance(T, SArr) or not isinstance(D, SArr) or T.ndim != 3 or D.ndim != 2:
            return [('TFLAG-and-data-variable-present', False)]
        i, v, j = z3.Int('i'), z3.Int('v'), z3.Int('j')
        src, cnt = self.row(i)
        rng = And(ge(i, 0), lt(i, cnt))
        return [
                ('number-of-steps', And(eq(T.shape[0], cnt), eq(D.shape[0], cnt), eq(res.attrs['dimensions']['TSTEP'].attrs['_len'], cnt))),
                ('time flags are the selected rows of the source', Implies(And(rng, ge(v, 0), lt(v, self.nv)),
                                                                         And(eq(T.get(i, v, 0), self.pre[0]((src, v, 0))), eq(T.get(i, v, 1), self.pre[0]((src, v, 1)))))),
                ('data rows are the selected rows of the source', Implies(And(rng, ge(j, 0), lt(j, self.ny)), eq(D.get(i, j), self.pre[1]((src, j))))),
                ('source-unchanged', Implies(And(ge(i, 0), lt(i, self.nt), ge(v, 0), lt(v, self.nv)),
                                             And(eq(self.tf.buf.get((i, v, 0)), self.pre[0]((i, v, 0))), eq(self.tf.buf.get((i, v, 1)), self.pre[0]((i, v, 1))))))]


    def attr_clause(self, res):
        """(a C02 clause, used by contracts/C02.py on the same run of the wrapper) attributes of the data variable carried over"""
        D = res.attrs['variables'].get('O3') if isinstance(res, Obj) and 'variables' in res.attrs else None
        ok = isinstance(D, SArr) and all(D.attrs.get(k) == w for k, w in (('units', 'ppm'), ('long_name', 'Ozone'), ('var_desc', 'ozone, not padded'))) \
            and sorted(D.attrs.get('_ncattrs', ())) == ['long_name', 'units', 'var_desc']
        return ('variable attributes of the result are the source values (not the defaults of the IOAPI constructor)', ok)

    def on_raise(self, inp, exc, I):
        # an invalid time flag makes getTimes raise; nothing else may
        return [('raises-only-ValueError-from-an-invalid-time-flag (raised %s)' % exc, exc == 'ValueError')]


    def concretize(self, model, inp):
        return dict(kind=self.kind)

    def concretize_without_model(self, inp):
        return dict(kind=self.kind)

    def replay(self, c):
        """canonical file (5 hourly steps across a year end) and windows, through the real wrapper"""
        import numpy as np
        from rtc import harness as H, ioapi as IOH
        P = H.real()
        f = IOH.make_ioapi(P, nt=5, nz=2, ny=3, nx=4, sdate=2020366, stime=210000, tstep=10000)
        tf0 = np.asarray(f.variables['TFLAG'][...]).copy()
        v0 = np.asarray(f.variables['V0'][...]).copy()
        sels = {'int': [-1, 2], 'slice': [slice(1, 4), slice(-3, -1)], 'index-array': [np.array([0, 3, 4]), np.array([4, 4, 1]), np.array([-1, 0])]}[c['kind']]
        for sel in sels:
            try:
                g = f.sliceDimensions(TSTEP=sel)
            except Exception as e:
                return False, dict(raised=type(e).__name__, message=str(e)[:160], TSTEP=repr(sel))
            rows = np.arange(5)[sel] if not np.isscalar(sel) else np.array([range(5)[sel]])
            gt, gv = np.asarray(g.variables['TFLAG'][...]), np.asarray(g.variables['V0'][...])
            if gt.shape[0] != len(rows) or not np.array_equal(gt[:, 0, :], tf0[rows, 0, :]) or not np.array_equal(gv, v0[rows]):
                return False, dict(TSTEP=repr(sel), TFLAG=gt[:, 0, :].tolist(), expected=tf0[rows, 0, :].tolist())
            if not np.array_equal(np.asarray(f.variables['TFLAG'][...]), tf0):
                return False, dict(TSTEP=repr(sel), note='source time flags modified')
        return True, dict(windows=[repr(x) for x in sels])


CONTRACTS += [SliceTime('int'), SliceTime('slice'), SliceTime('index-array')]


def bounded(tier, seed):
    from rtc import harness as H, ioapi as IO
    import numpy as np
    P = H.real()
    run = H.Run('C11', tier, seed, budget_s=90 if tier == 'quick' else 600)

    def windows(n):
        w = [0, n - 1, -1, -n, 1, slice(0, 1), slice(1, n), slice(0, n), slice(1, n - 1), slice(-2, None), slice(None, -1), slice(n - 1, n),
             # bounds beyond the ends, which slicing clips: the window touches the low / high edge
             slice(-n - 8, None), slice(-n - 1, 2), slice(1, n + 5)]
        return [x for x in w if np.atleast_1d(np.arange(n)[x]).size > 0]

    def first_len(sel, n):
        idx = np.arange(n)[sel]
        idx = np.atleast_1d(idx)
        return int(idx[0]), int(idx.size)
    files = [('hourly across year end', dict(nt=5, nz=3, ny=7, nx=4, sdate=2019365, stime=220000, tstep=10000)),
             ('daily across leap day', dict(nt=4, nz=4, ny=5, nx=6, sdate=2020059, stime=0, tstep=240000)),
             ('30 min', dict(nt=4, nz=2, ny=4, nx=5, sdate=2021001, stime=233000, tstep=3000))]
    for fname, kw in files:
        f = IO.make_ioapi(P, seed=seed, **kw)
        times0 = list(f.getTimes())
        vg0 = np.asarray(f.VGLVLS, 'd')
        x0, y0, dx, dy = float(f.XORIG), float(f.YORIG), float(f.XCELL), float(f.YCELL)
        dims = dict(ROW=kw['ny'], COL=kw['nx'], LAY=kw['nz'], TSTEP=kw['nt'])

        def check(sel, tag):
            def t():
                before = H.snapshot(f)
                g = f.sliceDimensions(**sel)
                e = IO.ioapi_wf(g)
                if e:
                    return 'metadata incoherent: ' + e
                if 'COL' in sel:
                    i0, n = first_len(sel['COL'], dims['COL'])
                    if abs(float(g.XORIG) - (x0 + i0 * dx)) > 1e-6 * abs(dx):
                        return 'XORIG %r, expected %r (first column %d)' % (float(g.XORIG), x0 + i0 * dx, i0)
                    if g.NCOLS != n:
                        return 'NCOLS %r expected %d' % (g.NCOLS, n)
                elif float(g.XORIG) != x0:
                    return 'XORIG changed without a COL window'
                if 'ROW' in sel:
                    i0, n = first_len(sel['ROW'], dims['ROW'])
                    if abs(float(g.YORIG) - (y0 + i0 * dy)) > 1e-6 * abs(dy):
                        return 'YORIG %r, expected %r (first row %d)' % (float(g.YORIG), y0 + i0 * dy, i0)
                elif float(g.YORIG) != y0:
                    return 'YORIG changed without a ROW window'
                if float(g.XCELL) != dx or float(g.YCELL) != dy:
                    return 'cell size changed'
                if 'LAY' in sel:
                    i0, n = first_len(sel['LAY'], dims['LAY'])
                    exp = vg0[i0:i0 + n + 1]
                    got = np.asarray(g.VGLVLS, 'd')
                    if got.shape != exp.shape or not np.allclose(got, exp, rtol=0, atol=0):
                        return 'VGLVLS %r expected %r' % (got.tolist(), exp.tolist())
                elif not np.array_equal(np.asarray(g.VGLVLS, 'd'), vg0):
                    return 'VGLVLS changed without a LAY window'
                if 'TSTEP' in sel:
                    i0, n = first_len(sel['TSTEP'], dims['TSTEP'])
                    exp = times0[i0:i0 + n]
                else:
                    exp = times0
                got = list(g.getTimes())
                if got != exp:
                    return 'decoded times %s expected %s' % ([x.isoformat() for x in got[:3]], [x.isoformat() for x in exp[:3]])
                if len(exp) > 1 or 'TSTEP' not in sel:
                    if int(g.TSTEP) != int(f.TSTEP):
                        return 'TSTEP attribute %r, source has %r' % (g.TSTEP, f.TSTEP)
                # data of the retained cells
                for vk in ('V0',):
                    a = np.asarray(f.variables[vk][...])
                    idx = tuple(np.atleast_1d(np.arange(dims[d])[sel[d]]) if d in sel else np.arange(dims[d]) for d in ('TSTEP', 'LAY', 'ROW', 'COL'))
                    expv = a[np.ix_(*idx)]
                    if not np.array_equal(np.asarray(g.variables[vk][...]), expv):
                        return 'data of the retained cells differ'
                return H.same_snapshot(before, H.snapshot(f))
            kinds = ','.join('%s=%s' % (d, 'int' if not isinstance(s, slice) else 'slice') for d, s in sorted(sel.items()))
            neg = any((not isinstance(s, slice) and s < 0) or (isinstance(s, slice) and ((s.start or 0) < 0 or (s.stop or 0) < 0)) for s in sel.values())
            run.case('C11:%s:%s%s' % (fname, kinds, ' (negative index)' if neg else ''), (fname, repr(sel)), t)
        for d in ('ROW', 'COL', 'LAY', 'TSTEP'):
            for w in windows(dims[d]):
                check({d: w}, 'one')
        pairs = list(itertools.combinations(('ROW', 'COL', 'LAY', 'TSTEP'), 2))
        for d1, d2 in pairs:
            W1, W2 = windows(dims[d1]), windows(dims[d2])
            sel_pairs = [(W1[i], W2[(i * 5 + 3) % len(W2)]) for i in range(len(W1))] if tier == 'quick' else list(itertools.product(W1, W2))
            for w1, w2 in sel_pairs:
                check({d1: w1, d2: w2}, 'two')
            if run.out_of_time():
                break
    # files WITHOUT a time-flag variable (built in memory before updatetflag, or stored without TFLAG): the times are decoded from
    # SDATE / STIME / TSTEP, and a time window must still move the start date/time to the first selected step
    for fname, kw in files + [('15 min from 00:45', dict(nt=6, nz=2, ny=3, nx=4, sdate=2021059, stime=4500, tstep=1500))]:
        f = IO.make_ioapi(P, seed=seed, **kw)
        times0 = list(f.getTimes())
        del f.variables['TFLAG']
        if list(f.getTimes()) != times0:
            continue            # (decoding from the attributes must agree with the flags: C12)
        nt = kw['nt']
        for w in (slice(2, None), slice(1, nt - 1), nt - 1, -1, slice(-2, None), 1):
            def t(f=f, w=w, times0=times0, nt=nt):
                g = f.sliceDimensions(TSTEP=w)
                idx = np.atleast_1d(np.arange(nt)[w])
                exp = [times0[i] for i in idx]
                got = list(g.getTimes())
                if got != exp:
                    return 'file without TFLAG variable: decoded times %s expected %s' % ([x.isoformat() for x in got[:3]], [x.isoformat() for x in exp[:3]])
                a = np.asarray(f.variables['V0'][...])[idx]
                if not np.array_equal(np.asarray(g.variables['V0'][...]), a):
                    return 'file without TFLAG variable: data of the retained steps differ'
                return None
            run.case('C11:%s:TSTEP window on a file without time-flag variable' % fname, (fname, repr(w)), t)
    return run.result(
        rule='real ioapi sliceDimensions with contiguous windows: XORIG/YORIG moved by first index x cell, VGLVLS equal to the matching sub-range, decoded times equal to the sub-range of the source times, '
             'TSTEP attribute kept, retained data identical, metadata coherent (C10 invariant), source unchanged',
        bound='grids 7x4x3 (hourly across year end), 5x6x4 (daily across leap day), 4x5x2 (30 min); windows {0, n-1, -1, -n, 1, unit-stride slices touching both edges, negative bounds}; single dimensions and pairs')


def bounded_replay(p):
    return False, p.get('what')


META = dict(
    level='other',
    technique='origin and level-edge arithmetic of ioapi sliceDimensions proved by pyvc with the base sliceDimensions executed in line (updatemeta summarised by the post-conditions and the attribute frame proved under C10); time referencing by bounded run-time contract',
    text='Proved for grids of any size and windows given as integers (positive or negative) or unit-stride slices: XORIG/YORIG move by (first retained index) x cell size, cell sizes and the '
         'source are unchanged, VGLVLS of the result is the matching sub-range with one more edge than layers; for TSTEP windows (integer, unit-stride slice, index array of any length '
         'with repeats and negative entries) on a file with time flags of any length: the time flags and the data rows of the result are exactly the selected rows of the source, in order. Bounded: decoded times / SDATE / STIME / TSTEP of time windows (strftime-based), '
         'retained data, metadata coherence, pairs of dimensions.',
    note='updatemeta is summarised by what contracts/C10.py proves about it (counts, flags, and the frame: XORIG/YORIG/XCELL/YCELL/VGLVLS and every other existing attribute outside the written set are untouched); the base sliceDimensions is no longer assumed: it is executed in line (and proved on its own under C02); floats are reals (A-REAL).',
    assumptions=[sym.A_REAL],
    explanation='mixed: proof obligations for origin/level arithmetic + bounded exploration for time referencing')
